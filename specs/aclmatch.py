"""Sidecar contracts for the ACL / rulebook matcher in annet/annlib/patching.py: _select_match, match_row_to_acl,
_match_row_to_rules (C06, C02, C10, C20).  Regex matching (_find_acl_matches / _find_rules_matches) and merge_dicts stay opaque."""
import z3
from pyvc.dsl import SpecModule, Lazy
from pyvc.types import *
from pyvc.values import V, PyConstObj, PyFn, NONE_V, coerce, PyTup

M = SpecModule("aclmatch")
U = M.U
F = "annet/annlib/patching.py"

RulesD = U.opaque("RulesD")          # an odict raw_rule -> compiled rule (one scope of one level)
Attrs = U.opaque("Attrs")
Other = U.opaque("Other")            # the per-match extras ({"is_reverse": ..} or {"raw_rule":.., "key":..})
Children = U.record("Children", {"local": RulesD, "global": RulesD})
Rule = U.record("Rule", dict(type=STR, attrs=Attrs, children=Children))
RuleCr = U.tuple("RuleCr", [Rule, BOOL])                 # (rule, is_cr_allowed)
MatchT = U.tuple("MatchT", [RuleCr, Other])
SeqMatch = SeqT(MatchT)
SeqRuleCr = SeqT(RuleCr)
Rules = U.record("Rules", {"local": RulesD, "global": RulesD})
MatchRes = U.record("MatchRes", dict(attrs=Attrs, other=Other))
OptMatchRes = U.union("OptMatchRes", dict(none=None, some=MatchRes))
OptRules = U.union("OptRules", dict(none=None, some=Rules))
SelRes = U.tuple("SelRes", [OptMatchRes, OptRules])

md = M.opaque("md", [RulesD, RulesD], RulesD, impl=None, note="lib.merge_dicts on two rule dicts (recursive union, first-seen order)")
_empty = [None]
_other0 = [None]


def rd_empty_term():
    if _empty[0] is None:
        _empty[0] = z3.Const("rd_empty", RulesD.sort())
    return _empty[0]


def other0_term():
    if _other0[0] is None:
        _other0[0] = z3.Const("other_unset", Other.sort())
    return _other0[0]


MatchRes.literal_defaults = {"other": other0_term}


def _mr_update(ex, recv, recv_node, args, kwargs, st, node):
    ex.assign_to(recv_node, V(MatchRes, MatchRes.set(recv.t, "other", coerce(args[0], Other).t)), st)
    return NONE_V


MatchRes.methods = {"update": _mr_update}

M.export(odict=PyFn("odict", lambda ex, args, kwargs, st, node: V(RulesD, rd_empty_term())),
         rd_empty=Lazy(lambda: V(RulesD, rd_empty_term())),
         operator=PyConstObj("operator"), copy=PyConstObj("copy"))


@M.spec
def fold_local(pairs: SeqRuleCr, acc: RulesD) -> RulesD:
    """children rules of ALL matching rules that may contribute children, united in match order"""
    if len(pairs) == 0:
        return acc
    return fold_local(pairs[1:], md(acc, pairs[0][0]["children"]["local"]) if pairs[0][1] else acc)


@M.spec
def fold_global(pairs: SeqRuleCr, acc: RulesD) -> RulesD:
    if len(pairs) == 0:
        return acc
    return fold_global(pairs[1:], md(acc, pairs[0][0]["children"]["global"]) if pairs[0][1] else acc)


M.contract(F, "<merge_dicts>", params=dict(a=RulesD, b=RulesD), ret=RulesD, trusted=True, ensures=["result == md(a, b)"],
           note="lib.merge_dicts is opaque here (bounded only); it returns a new dict or one of its arguments, never mutating them",
           properties=["C06", "C02", "C10"])
M.contract(F, "<deepcopy>", params=dict(x=Attrs), ret=Attrs, trusted=True, ensures=["result == x"],
           note="copy.deepcopy: a fresh equal value (A5)", properties=["C06", "C20"])

M.contract(F, "_select_match", params=dict(matches=SeqMatch, rules=Rules), ret=SelRes,
           locals=dict(local_children=RulesD, global_children=RulesD, match=MatchRes),
           calls={"merge_dicts": None, "copy.deepcopy": None},
           requires=["len(matches) > 0"],
           ensures=[
               # an `ignore` rule governs nothing
               "implies(matches[0][0][0]['type'] == 'ignore', result == (None, None))",
               # otherwise the FIRST match governs: its attrs (copied) and its extras
               "implies(matches[0][0][0]['type'] != 'ignore', result[0] == {'attrs': matches[0][0][0]['attrs'], 'other': matches[0][1]})",
               # children rules: if the governing match may have children, the children of every matching children-allowed rule, in
               # match order; the level's %global rules are always inherited
               "implies(matches[0][0][0]['type'] != 'ignore', result[1] == {"
               "'local': (fold_local([x[0] for x in matches], rd_empty) if matches[0][0][1] else rd_empty), "
               "'global': md((fold_global([x[0] for x in matches], rd_empty) if matches[0][0][1] else rd_empty), rules['global'])})",
           ],
           loops={1: dict(match="map(operator.itemgetter(0), matches)",
                          inv=["fold_local(_rest1, local_children) == fold_local(_it1, rd_empty)",
                               "fold_global(_rest1, global_children) == fold_global(_it1, rd_empty)"])},
           canaries=["result[1] == {'local': rd_empty, 'global': rules['global']}"],
           properties=["C06", "C02", "C10", "C20"])

_q = {c.qual: c for c in M.contracts}
_q["_select_match"].calls["merge_dicts"] = _q["<merge_dicts>"]
_q["_select_match"].calls["copy.deepcopy"] = _q["<deepcopy>"]


# ==================================================================================================================
# match_row_to_acl: exclusivity (C10) + selection (C06/C02)
SeqBool = SeqT(BOOL)
SeqStr = SeqT(STR)
GAttrs = U.record("GAttrs", dict(generator_names=SeqStr, cant_delete=SeqBool))
GRule = U.record("GRule", dict(attrs=GAttrs))
GRuleCr = U.tuple("GRuleCr", [GRule, BOOL])
GMatch = U.tuple("GMatch", [GRuleCr, Other])
SeqGMatch = SeqT(GMatch)
FlagD = U.dict("FlagD", STR, BOOL)
RulesX = U.opaque("RulesX")
SelO = U.opaque("SelO")
NonePair = U.tuple("NonePair", [NONE, NONE])
SelX = U.union("SelX", dict(nothing=NonePair, sel=SelO))      # (None, None) | what _select_match returns

facl = M.opaque("facl", [STR, RulesX], SeqGMatch, impl=None, note="_find_acl_matches(row, rules): matching rules, best first (regex, prio, specificity)")
selx = M.opaque("selx", [SeqGMatch, RulesX], SelX, impl=None, note="_select_match(matches, rules) (proved separately above)")


@M.spec
def zip_fold(names: SeqStr, flags: SeqBool, i: INT, acc: FlagD) -> FlagD:
    """per generator name the conjunction of its cant_delete flags (one rule may carry several generators)"""
    if i < 0 or i >= len(names) or i >= len(flags):
        return acc
    return zip_fold(names, flags, i + 1, dput(acc, names[i], (acc[names[i]] and flags[i]) if dhas(acc, names[i]) else flags[i]))


@M.spec
def outer_fold(ms: SeqGMatch, acc: FlagD) -> FlagD:
    if len(ms) == 0:
        return acc
    return outer_fold(ms[1:], zip_fold(ms[0][0][0]["attrs"]["generator_names"], ms[0][0][0]["attrs"]["cant_delete"], 0, acc))


@M.spec
def n_can_delete(d: FlagD) -> INT:
    """number of generators that own a matching rule which may delete the row"""
    return len({name: flag for name, flag in d.items() if not flag})


from pyvc.native import dput, dhas   # noqa: E402

M.contract(F, "_find_acl_matches", params=dict(row=STR, rules=RulesX), ret=SeqGMatch, trusted=True, ensures=["result == facl(row, rules)"],
           note="assumed: regex matching of every local/global rule in direct and reverse form, sorted by (prio, shared-symbol ratio) -- "
                "compared with an independent reference matcher in the bounded layer of C06; writes the declared scratch field attrs.match",
           properties=["C06", "C02", "C10"])
M.contract(F, "<_select_match>", params=dict(matches=SeqGMatch, rules=RulesX), ret=SelX, trusted=True, ensures=["result == selx(matches, rules)"],
           note="_select_match is proved against its own contract above (different view of the same values)", properties=["C06"])

M.contract(F, "match_row_to_acl", params=dict(row=STR, rules=RulesX, exclusive=BOOL), ret=SelX, defaults=dict(exclusive=False),
           locals=dict(gen_cant_delete=FlagD, can_delete=FlagD),
           calls={"_find_acl_matches": None, "_select_match": None},
           ensures=["result == (selx(facl(row, rules), rules) if len(facl(row, rules)) > 0 else (None, None))"],
           raises={"AclNotExclusiveError": ["exclusive", "len(facl(row, rules)) > 0",
                                            "n_can_delete(outer_fold(facl(row, rules), {})) > 1"]},
           loops={1: dict(match="matches", inv=["outer_fold(_rest1, gen_cant_delete) == outer_fold(matches, {})"]),
                  2: dict(match="zip(names, flags)",
                          inv=["outer_fold(_rest1, zip_fold(names, flags, _i2, gen_cant_delete)) == outer_fold(matches, {})"])},
           canaries=["result == (None, None)"], exc_parents={"AclNotExclusiveError": "AclError"},
           properties=["C10", "C06", "C02"])
_q = {c.qual: c for c in M.contracts}
_q["match_row_to_acl"].calls["_find_acl_matches"] = _q["_find_acl_matches"]
_q["match_row_to_acl"].calls["_select_match"] = _q["<_select_match>"]
