"""Sidecar contracts for annet/implicit.py:config and annet/annlib/lib.py:merge_dicts (C17, C10)."""
import itertools
import re
from collections import OrderedDict as odict

import z3
from pyvc.dsl import SpecModule
from pyvc.types import *
from pyvc.values import V
from pyvc.native import dhead, dtail, dput, dhas, dcons

M = SpecModule("implicit")
U = M.U
F = "annet/implicit.py"

Regex = U.opaque("Regex")
Tree = U.dict("Tree", STR, "Tree")
IRule = U.record("IRule", dict(type=STR, children="IRules", regexp=Regex))
IRules = U.dict("IRules", STR, IRule)
SeqStr = SeqT(STR)

# re.Pattern.match is a pure function of (pattern, string) (A6); opaque
re_match = M.opaque("re_match", [Regex, STR], BOOL, impl=lambda rx, s: rx.match(s) is not None, note="re.Pattern.match (A6)")


def _rx_match(ex, recv, recv_node, args, kwargs, st, node):
    from pyvc.values import coerce
    return V(BOOL, re_match.decl()(recv.t, coerce(args[0], STR).t))


Regex.methods = {"match": _rx_match}


@M.spec
def matched(t: Tree, rx: Regex) -> SeqStr:
    """the lines of one level that the rule's pattern matches, in config order"""
    return [] if not t else ([dhead(t)[0]] if re_match(rx, dhead(t)[0]) else []) + matched(dtail(t), rx)


@M.spec
def keys_in(ls: SeqStr, t: Tree) -> BOOL:
    return True if len(ls) == 0 else (dhas(t, ls[0]) and keys_in(ls[1:], t))


@M.spec
def imp_lines(tree: Tree, lines: SeqStr, rule: IRule, acc: Tree) -> Tree:
    """under every matching line: the implicit tree of its children by the rule's children rules"""
    if len(lines) == 0:
        return acc
    return imp_lines(tree, lines[1:], rule, dput(acc, lines[0], imp_rules(tree[lines[0]], rule["children"], odict())))


@M.spec
def imp_rules(tree: Tree, rules: IRules, acc: Tree) -> Tree:
    """rule by rule: the default row is added iff the rule is not match-only, no line of this level matches the rule's
    pattern and the row itself is absent; then the matching lines are descended into"""
    if not rules:
        return acc
    (row, rule) = dhead(rules)
    ms = matched(tree, rule["regexp"])
    acc2 = dput(acc, row, odict()) if (rule["type"] != "ignore" and not any(ms) and not dhas(tree, row)) else acc
    return imp_rules(tree, dtail(rules), imp_lines(tree, ms, rule, acc2))


# the comprehension in the real code (same text => same generated fold function) is the spec function `matched`
M.lemma("comp_is_matched", vars=dict(config_tree=Tree, rule=IRule), hyps=[],
        goal="[line for line in config_tree.keys() if rule['regexp'].match(line)] == matched(config_tree, rule['regexp'])",
        induct="config_tree", pattern="[line for line in config_tree.keys() if rule['regexp'].match(line)]", properties=["C17"],
        comp_types={"*": SeqStr})
M.lemma("keys_in_weaken", vars=dict(ls=SeqStr, t=Tree, k=STR, v=Tree), hyps=["keys_in(ls, t)"],
        goal="keys_in(ls, dcons(k, v, t))", induct="ls", properties=["C17"])
M.lemma("matched_in_keys", vars=dict(t=Tree, rx=Regex), hyps=[], goal="keys_in(matched(t, rx), t)", induct="t",
        use=["keys_in_weaken"], pattern="matched(t, rx)", properties=["C17"])


def _rules(spec):
    """spec: list of (row, type, pattern, children-spec)"""
    out = odict()
    for row, typ, pat, ch in spec:
        out[row] = {"type": typ, "children": _rules(ch), "regexp": re.compile(pat)}
    return out


def _config_inputs():
    rule_sets = [
        [("stp enable", "normal", r"^stp\s+enable(?:\s|$)", [])],
        [("undo x", "normal", r"^undo\s+x(?:\s|$)", []), ("iface *", "ignore", r"^iface\s+(\S+)", [("mtu 1500", "normal", r"^mtu\s+1500", [])])],
        [("a", "normal", r"^a", []), ("a b", "normal", r"^a\s+b", [])],
    ]
    rows = ["stp enable", "undo x", "iface e1", "iface e2", "a", "a b", "mtu 1500"]

    def trees(depth):
        if depth == 0:
            yield odict()
            return
        subs = list(itertools.islice(trees(depth - 1), 4))
        for n in range(0, 3):
            for keys in itertools.combinations(rows, n):
                for chs in itertools.product(subs, repeat=len(keys)):
                    yield odict(zip(keys, [odict(c) for c in chs]))
    for rs in rule_sets:
        for t in itertools.islice(trees(2), 1200):
            yield dict(config_tree=t, rules=_rules(rs))


M.contract(F, "config", params=dict(config_tree=Tree, rules=IRules), ret=Tree,
           locals=dict(implicit_config_tree=Tree, matched_lines=SeqStr), comp_types={1: SeqStr},
           ensures=["result == imp_rules(config_tree, rules, {})"],
           loops={1: dict(match="rules.items()",
                          inv=["imp_rules(config_tree, _rest1, implicit_config_tree) == imp_rules(config_tree, rules, {})"]),
                  2: dict(match="matched_lines",
                          inv=["keys_in(_rest2, config_tree)",
                               "imp_rules(config_tree, _rest1, imp_lines(config_tree, _rest2, rule, implicit_config_tree)) == imp_rules(config_tree, rules, {})"])},
           use=["comp_is_matched", "matched_in_keys"],
           canaries=["len(result) == 0"], inputs=_config_inputs, properties=["C17"])


# ==================================================================================================================
# compile_tree: the parsed text of the vendor's defaults -> the rule table used by config()
PAttrs = U.record("PAttrs", dict(type=STR, row=STR, children="PTree"))
PAttrs.absent_keys = ()
PTree = U.dict("PTree", STR, PAttrs)
def _crx_impl(row):
    from annet.annlib.rbparser import syntax
    return syntax.compile_row_regexp(row)


crx = M.opaque("crx", [STR], Regex, impl=_crx_impl, note="syntax.compile_row_regexp(row) (C07)")


@M.spec
def ctree(tree: PTree, acc: IRules) -> IRules:
    """one rule per parsed row, keyed by the row text: its type (`normal` or `ignore` for a `!` row), the compiled pattern of the
    row and - recursively - the rules of its children"""
    if not tree:
        return acc
    a = dhead(tree)[1]
    return ctree(dtail(tree), dput(acc, a["row"], {"type": a["type"], "children": ctree(a["children"], odict()) if a["children"] else odict(),
                                                 "regexp": crx(a["row"])}))


def _ct_inputs():
    from annet.annlib.rbparser import syntax

    def node(row, typ, children=()):
        return {"type": typ, "row": row, "children": odict((c["row"], c) for c in children), "params": {}}
    leaves = [node("mtu 1500", "normal"), node("no shutdown", "normal")]
    for combo in itertools.chain.from_iterable(itertools.permutations(
            [node("stp enable", "normal"), node("interface *", "ignore", leaves), node("bgp *", "ignore", [node("af *", "ignore", leaves[:1])])], n)
            for n in range(0, 4)):
        yield dict(tree=odict((c["row"], c) for c in combo))


M.contract(F, "compile_tree", params=dict(tree=PTree), ret=IRules, locals=dict(rules=IRules),
           ensures=["result == ctree(tree, {})"],
           loops={1: dict(match="tree.items()", inv=["ctree(_rest1, rules) == ctree(tree, {})"])},
           calls={"syntax.compile_row_regexp": None},
           canaries=["len(result) == 0"], inputs=_ct_inputs, properties=["C17"],
           note="relative to syntax.compile_row_regexp (opaque crx; its language is the subject of C07)")
M.contract(F, "<compile_row_regexp>", params=dict(row=STR), ret=Regex, trusted=True, ensures=["result == crx(row)"],
           note="syntax.compile_row_regexp: opaque here", properties=["C17"])
_cq = {c.qual: c for c in M.contracts}
_cq["compile_tree"].calls["syntax.compile_row_regexp"] = _cq["<compile_row_regexp>"]
