"""Sidecar contract for annet/mesh/registry.py:MeshRulesRegistry.lookup_direct (C15): every direct rule is tried in both
orientations and a matching pair is always reported as (left, right) of the rule, so both ends see the same pairs."""
import itertools

import z3
from pyvc.dsl import SpecModule, Lazy
from pyvc.types import *
from pyvc.values import V, PyConstObj, PyFn, NONE_V, coerce, PyTup

M = SpecModule("meshreg")
U = M.U
F = "annet/mesh/registry.py"

Handler = U.opaque("Handler")
PortProc = U.opaque("PortProc")
Matcher = U.opaque("Matcher")
MArg = U.opaque("MArg")
ArgsPair = U.tuple("ArgsPair", [MArg, MArg])
OptArgs = U.union("OptArgs", dict(none=None, some=ArgsPair))
Rule = U.record("Rule", dict(matcher=Matcher, handler=Handler, port_processor=PortProc))
Rules = SeqT(Rule)
RegL = U.list("RegL", "Reg")
Reg = U.record("Reg", dict(direct_rules=Rules, nested=RegL, match_short_name=BOOL))
Pair = U.record("Pair", dict(handler=Handler, port_processor=PortProc, direct_order=BOOL, name_left=STR, name_right=STR,
                             match_left=MArg, match_right=MArg))
Pairs = SeqT(Pair)
SEQS = SeqT(STR)

mp = M.opaque("mp", [Matcher, STR, STR], OptArgs, impl=lambda m, a, b: m.match_pair(a, b), note="PairMatcher.match_pair(left, right)")
nh = M.opaque("nh", [BOOL, STR], STR, impl=lambda short, h: (h.split(".", maxsplit=1)[0] if short else h),
              note="MeshRulesRegistry._normalize_host")

Matcher.methods = {"match_pair": lambda ex, recv, recv_node, args, kwargs, st, node:
                   V(OptArgs, mp.decl()(recv.t, coerce(args[0], STR).t, coerce(args[1], STR).t))}


def _mk_pair(ex, args, kwargs, st, node):
    return V(Pair, Pair.mk(**{k: coerce(kwargs[k], Pair.fields[k]).t for k in Pair.fields}))


M.export(MatchedDirectPair=PyFn("MatchedDirectPair", _mk_pair))


@M.spec
def pairs_for(rules: Rules, dev: STR, dn: STR, nb: STR, nn: STR) -> Pairs:
    """for one neighbor: every rule is tried as (device, neighbor) and as (neighbor, device); a match is reported with the names in
    the rule's own left/right order and says whether the device is the left side"""
    if not rules:
        return []
    r = rules[0]
    a = mp(r.matcher, dn, nn)
    b = mp(r.matcher, nn, dn)
    pa = [{"handler": r.handler, "port_processor": r.port_processor, "direct_order": True, "name_left": dev, "name_right": nb,
           "match_left": a[0], "match_right": a[1]}] if a else []
    pb = [{"handler": r.handler, "port_processor": r.port_processor, "direct_order": False, "name_left": nb, "name_right": dev,
           "match_left": b[0], "match_right": b[1]}] if b else []
    return pa + pb + pairs_for(rules[1:], dev, dn, nb, nn)


@M.spec
def ld_n(nbs: SEQS, rules: Rules, dev: STR, short: BOOL) -> Pairs:
    return [] if not nbs else pairs_for(rules, dev, nh(short, dev), nbs[0], nh(short, nbs[0])) + ld_n(nbs[1:], rules, dev, short)


@M.spec
def ld_nested(regs: RegL, dev: STR, nbs: SEQS) -> Pairs:
    return [] if not regs else ld(regs[0], dev, nbs) + ld_nested(regs[1:], dev, nbs)


@M.spec
def ld(reg: Reg, dev: STR, nbs: SEQS) -> Pairs:
    return ld_n(nbs, reg.direct_rules, dev, reg.match_short_name) + ld_nested(reg.nested, dev, nbs)


M.contract(F, "MeshRulesRegistry._normalize_host", params=dict(self=Reg, host=STR), ret=STR, trusted=True,
           ensures=["result == nh(self.match_short_name, host)"], note="str.split(maxsplit=1)[0]: opaque nh", properties=["C15"])

def _mesh_registries():
    from annet.mesh.registry import MeshRulesRegistry

    def h(*a, **k):
        return None
    for short in (False, True):
        r = MeshRulesRegistry(match_short_name=short)
        r.direct("sp{n}", "tr{n}")(h)
        r.direct("{name}", "tr1")(h)
        r.indirect("sp{n}", "sp{m}")(h)
        yield r
        r2 = MeshRulesRegistry(match_short_name=short)
        r2.direct("tr{n}", "sp{n}")(h)
        r2.indirect("tr{n}", "{name}")(h)
        r2.include(r)
        yield r2
        yield MeshRulesRegistry(match_short_name=short)


def _mesh_inputs(kind):
    names = ["sp1", "tr1", "sp2.example.net", "tr2", "other"]
    for reg in _mesh_registries():
        for dev in names:
            for nbs in ([], ["tr1"], ["sp1", "tr1", "tr2"], names):
                yield dict(self=reg, device=dev, **{("neighbors" if kind == "direct" else "devices"): list(nbs)})


def _as_dicts(method):
    def call(self, **kw):
        return [{f: getattr(p, f) for f in p.__slots__} for p in getattr(self, method)(**kw)]
    return call


M.contract(F, "MeshRulesRegistry.lookup_direct", params=dict(self=Reg, device=STR, neighbors=SEQS), ret=Pairs,
           inputs=lambda: _mesh_inputs("direct"), native_fn=_as_dicts("lookup_direct"),
           locals=dict(found=Pairs, args=OptArgs),
           ensures=["result == ld(self, device, neighbors)"],
           loops={1: dict(match="neighbors",
                          inv=["found + ld_n(_rest1, self.direct_rules, device, self.match_short_name) == "
                               "ld_n(neighbors, self.direct_rules, device, self.match_short_name)"]),
                  2: dict(match="self.direct_rules",
                          inv=["found + pairs_for(_rest2, device, device_norm, neighbor, neighbor_norm) == "
                               "entry(found) + pairs_for(self.direct_rules, device, device_norm, neighbor, neighbor_norm)"]),
                  3: dict(match="self.nested",
                          inv=["found + ld_nested(_rest3, device, neighbors) == ld(self, device, neighbors)"])},
           canaries=["len(result) == 0"], properties=["C15"],
           note="relative to PairMatcher.match_pair and _normalize_host (opaque)")

_q = {c.qual: c for c in M.contracts}
_q["MeshRulesRegistry.lookup_direct"].calls["self._normalize_host"] = _q["MeshRulesRegistry._normalize_host"]
_q["MeshRulesRegistry.lookup_direct"].calls["registry.lookup_direct"] = _q["MeshRulesRegistry.lookup_direct"]


# ---- "the peer computed on each side points at what the same handlers assigned to the other side": both ends see the same pairs
@M.spec
def memp(x: Pair, xs: Pairs) -> BOOL:
    return False if not xs else (xs[0] == x or memp(x, xs[1:]))


@M.spec
def flip(x: Pair) -> Pair:
    """the same pair as the other end sees it"""
    return {"handler": x["handler"], "port_processor": x["port_processor"], "direct_order": not x["direct_order"],
            "name_left": x["name_left"], "name_right": x["name_right"], "match_left": x["match_left"], "match_right": x["match_right"]}


M.lemma("memp_app", vars=dict(x=Pair, u=Pairs, v=Pairs), hyps=[], goal="memp(x, u + v) == (memp(x, u) or memp(x, v))", induct="u",
        properties=["C15"])
M.lemma("both_ends_see_the_same_pairs_per_rule_list", vars=dict(rules=Rules, a=STR, an=STR, b=STR, bn=STR, x=Pair), hyps=[],
        goal="memp(x, pairs_for(rules, a, an, b, bn)) == memp(flip(x), pairs_for(rules, b, bn, a, an))", induct="rules",
        use=["memp_app"], properties=["C15"])
M.lemma("both_ends_see_the_same_pairs", vars=dict(rules=Rules, a=STR, b=STR, short=BOOL, x=Pair), hyps=[],
        goal="memp(x, ld_n([b], rules, a, short)) == memp(flip(x), ld_n([a], rules, b, short))",
        instances=[("both_ends_see_the_same_pairs_per_rule_list", dict(rules="rules", a="a", an="nh(short, a)", b="b", bn="nh(short, b)", x="x"))],
        use=["memp_app"], properties=["C15"])


# ==================================================================================================================
# lookup_indirect: the same scheme over indirect_rules (pairs carry no port processor)
IRule = U.record("IRule", dict(matcher=Matcher, handler=Handler))
IRules = SeqT(IRule)
IRegL = U.list("IRegL", "IReg")
IReg = U.record("IReg", dict(indirect_rules=IRules, nested=IRegL, match_short_name=BOOL))
IPair = U.record("IPair", dict(handler=Handler, direct_order=BOOL, name_left=STR, name_right=STR, match_left=MArg, match_right=MArg))
IPairs = SeqT(IPair)


def _mk_ipair(ex, args, kwargs, st, node):
    return V(IPair, IPair.mk(**{k: coerce(kwargs[k], IPair.fields[k]).t for k in IPair.fields}))


M.export(MatchedIndirectPair=PyFn("MatchedIndirectPair", _mk_ipair))


@M.spec
def ipairs_for(rules: IRules, dev: STR, dn: STR, nb: STR, nn: STR) -> IPairs:
    if not rules:
        return []
    r = rules[0]
    a = mp(r.matcher, dn, nn)
    b = mp(r.matcher, nn, dn)
    pa = [{"handler": r.handler, "direct_order": True, "name_left": dev, "name_right": nb, "match_left": a[0], "match_right": a[1]}] if a else []
    pb = [{"handler": r.handler, "direct_order": False, "name_left": nb, "name_right": dev, "match_left": b[0], "match_right": b[1]}] if b else []
    return pa + pb + ipairs_for(rules[1:], dev, dn, nb, nn)


@M.spec
def li_n(nbs: SEQS, rules: IRules, dev: STR, short: BOOL) -> IPairs:
    return [] if not nbs else ipairs_for(rules, dev, nh(short, dev), nbs[0], nh(short, nbs[0])) + li_n(nbs[1:], rules, dev, short)


@M.spec
def li_nested(regs: IRegL, dev: STR, nbs: SEQS) -> IPairs:
    return [] if not regs else li(regs[0], dev, nbs) + li_nested(regs[1:], dev, nbs)


@M.spec
def li(reg: IReg, dev: STR, nbs: SEQS) -> IPairs:
    return li_n(nbs, reg.indirect_rules, dev, reg.match_short_name) + li_nested(reg.nested, dev, nbs)


@M.spec
def imemp(x: IPair, xs: IPairs) -> BOOL:
    return False if not xs else (xs[0] == x or imemp(x, xs[1:]))


@M.spec
def iflip(x: IPair) -> IPair:
    return {"handler": x["handler"], "direct_order": not x["direct_order"], "name_left": x["name_left"], "name_right": x["name_right"],
            "match_left": x["match_left"], "match_right": x["match_right"]}


M.contract(F, "IView._normalize_host", params=dict(self=IReg, host=STR), ret=STR, trusted=True,
           ensures=["result == nh(self.match_short_name, host)"], note="the same method seen from the indirect view of the registry",
           properties=["C15"])
M.contract(F, "MeshRulesRegistry.lookup_indirect", params=dict(self=IReg, device=STR, devices=SEQS), ret=IPairs,
           inputs=lambda: _mesh_inputs("indirect"), native_fn=_as_dicts("lookup_indirect"),
           locals=dict(found=IPairs, args=OptArgs),
           ensures=["result == li(self, device, devices)"],
           loops={1: dict(match="devices",
                          inv=["found + li_n(_rest1, self.indirect_rules, device, self.match_short_name) == "
                               "li_n(devices, self.indirect_rules, device, self.match_short_name)"]),
                  2: dict(match="self.indirect_rules",
                          inv=["found + ipairs_for(_rest2, device, device_norm, other_device, other_device_norm) == "
                               "entry(found) + ipairs_for(self.indirect_rules, device, device_norm, other_device, other_device_norm)"]),
                  3: dict(match="self.nested",
                          inv=["found + li_nested(_rest3, device, devices) == li(self, device, devices)"])},
           canaries=["len(result) == 0"], properties=["C15"], note="relative to PairMatcher.match_pair and _normalize_host (opaque)")
_q = {c.qual: c for c in M.contracts}
_q["MeshRulesRegistry.lookup_indirect"].calls["self._normalize_host"] = _q["IView._normalize_host"]
_q["MeshRulesRegistry.lookup_indirect"].calls["registry.lookup_indirect"] = _q["MeshRulesRegistry.lookup_indirect"]

M.lemma("imemp_app", vars=dict(x=IPair, u=IPairs, v=IPairs), hyps=[], goal="imemp(x, u + v) == (imemp(x, u) or imemp(x, v))", induct="u",
        properties=["C15"])
M.lemma("both_ends_see_the_same_indirect_pairs_per_rule_list", vars=dict(rules=IRules, a=STR, an=STR, b=STR, bn=STR, x=IPair), hyps=[],
        goal="imemp(x, ipairs_for(rules, a, an, b, bn)) == imemp(iflip(x), ipairs_for(rules, b, bn, a, an))", induct="rules",
        use=["imemp_app"], properties=["C15"])
