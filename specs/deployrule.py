"""Sidecar contract for annet/rulebook/deploying.py:match_deploy_rule (C09, C07): the rule that gives a command its timeout and dialogs
is found by walking the command's block path through the rule tree."""
import z3
from pyvc.dsl import SpecModule, Lazy
from pyvc.types import *
from pyvc.values import V, PyConstObj, PyFn, NONE_V, coerce, PyTup
from pyvc.native import dhead, dtail, dput, dhas

M = SpecModule("deployrule")
U = M.U
F = "annet/rulebook/deploying.py"

Regex = U.opaque("Regex")
IfCtx = U.opaque("IfCtx")
Ctx = U.opaque("Ctx")
ARest = U.opaque("ARest")
Attrs = U.record("Attrs", dict(regexp=Regex, ifcontext=IfCtx, rest=ARest))
Rule = U.record("Rule", dict(attrs=Attrs, children="RulesD"))
RulesD = U.dict("RulesD", STR, Rule)
Res = U.union("Res", dict(default=None, found=Rule))          # the built-in default rule | a rule of the rulebook
Res.dict_literal_tag = "default"
Res.truthy_tags = ("default",)
SEQS = SeqT(STR)
Scan = U.tuple("Scan", [Res, RulesD])

rx_match = M.opaque("rx_match", [Regex, STR], BOOL, impl=lambda rx, row: rx.match(row) is not None, note="re.Pattern.match(row)")
mctx = M.opaque("mctx", [IfCtx, Ctx], BOOL, impl=None, note="syntax.match_context(ifcontext, context)")
Regex.methods = {"match": lambda ex, recv, recv_node, args, kwargs, st, node: V(BOOL, rx_match.decl()(recv.t, coerce(args[0], STR).t))}
M.export(syntax=PyConstObj("syntax", dict(match_context=mctx, compile_row_regexp=PyFn("crr", lambda ex, args, kwargs, st, node: NONE_V))),
         import_rulebook_function=PyFn("irf", lambda ex, args, kwargs, st, node: NONE_V),
         DEFAULT_RULE=Lazy(lambda: V(Res, Res.mk("default"))), DEFAULT_TIMEOUT=30, DEFAULT_APPLY_LOGIC="common.apply", odict=PyFn("odict", lambda ex, args, kwargs, st, node: NONE_V))


@M.spec
def scan(rest: RulesD, row: STR, ctx: Ctx, last: BOOL, cur: RulesD) -> Scan:
    """one level: the rules are tried in order; a rule applies when its pattern matches the row and its %ifcontext allows the context.
    On the last row of the path the first applying rule is the answer.  On an inner row an applying rule hands its children rules to
    the next level (a later applying rule of the same level overrides an earlier one), unless it has none: then the search of this
    level stops with no rules for the next one"""
    if not rest:
        return (DEFAULT_RULE, cur)
    r = dhead(rest)[1]
    if rx_match(r["attrs"]["regexp"], row) and mctx(r["attrs"]["ifcontext"], ctx):
        if last:
            return (r, cur)
        if len(r["children"]) == 0:
            return (DEFAULT_RULE, r["children"])
        return scan(dtail(rest), row, ctx, last, r["children"])
    return scan(dtail(rest), row, ctx, last, cur)


@M.spec
def walk(path: SEQS, i: INT, n: INT, rules: RulesD, ctx: Ctx) -> Res:
    if not path:
        return DEFAULT_RULE
    s = scan(rules, path[0], ctx, i == n - 1, rules)
    return s[0] if s[0] != DEFAULT_RULE else walk(path[1:], i + 1, n, s[1], ctx)


M.contract(F, "match_deploy_rule", params=dict(rules=RulesD, cmd_path=SEQS, context=Ctx), ret=Res,
           ensures=["result == walk(cmd_path, 0, len(cmd_path), rules, context)"],
           loops={1: dict(match="enumerate(cmd_path)",
                          inv=["walk(_rest1, _i1, len(cmd_path), rules, context) == walk(cmd_path, 0, len(cmd_path), old(rules), context)"]),
                  2: dict(match="rules.values()",
                          inv=["(scan(_rest2, row, context, depth == len(cmd_path) - 1, rules)[0] if "
                               "scan(_rest2, row, context, depth == len(cmd_path) - 1, rules)[0] != DEFAULT_RULE else "
                               "walk(_rest1, _i1, len(cmd_path), scan(_rest2, row, context, depth == len(cmd_path) - 1, rules)[1], context)) == "
                               "walk(cmd_path, 0, len(cmd_path), old(rules), context)"])},
           canaries=["result == DEFAULT_RULE"], properties=["C09", "C07"],
           note="relative to re.match and syntax.match_context; the built-in default rule (a dict literal) is one constant")


# ---- native evaluation
def _native_default():
    from collections import OrderedDict as odict
    from bounded.common import setup_annet
    setup_annet()        # the default rule imports its apply logic through the rulebook provider
    from annet.rulebook import deploying
    return deploying.match_deploy_rule(odict(), ("zzz",), {})


def _mctx_impl(ifcontext, context):
    from annet.annlib.rbparser import syntax
    return syntax.match_context(ifcontext, context)


mctx.impl = _mctx_impl


def __getattr__(name):          # DEFAULT_RULE is built lazily (it needs annet's rulebook function import machinery)
    if name == "DEFAULT_RULE":
        v = _native_default()
        globals()["DEFAULT_RULE"] = v
        return v
    raise AttributeError(name)


def _mdr_inputs():
    import re
    from collections import OrderedDict as odict
    globals().setdefault("DEFAULT_RULE", _native_default())

    def rule(pat, ifc=None, children=None):
        return {"attrs": {"regexp": re.compile(pat), "ifcontext": ifc or [], "timeout": 45}, "children": odict(children or [])}
    leaf = rule(r"^mtu\s")
    um = rule(r"^undo\s+mpls", ifc=["block:iface"])
    iface = rule(r"^interface\s", children=[("mtu *", leaf)])
    iface_nochild = rule(r"^interface\s+Vlan")
    rules_list = [odict([("interface *", iface), ("undo mpls", um)]),
                  odict([("interface Vlan*", iface_nochild), ("interface *", iface), ("undo mpls", um)]),
                  odict()]
    paths = [("interface e1",), ("interface e1", "mtu 9000"), ("interface Vlan1", "mtu 1"), ("interface e1", "undo mpls"), ("undo mpls",),
             ("interface e1", "sub", "mtu 1"), (), ("interface Vlan1", "undo mpls"), ("interface Vlan1", "interface e1"),
             ("interface Vlan1", "interface e1", "mtu 2")]
    for rules in rules_list:
        for p in paths:
            for ctx in ({}, {"block": "iface"}, {"block": "other"}):
                yield dict(rules=rules, cmd_path=list(p), context=ctx)


_q = {c.qual: c for c in M.contracts}
_q["match_deploy_rule"].native_inputs = _mdr_inputs
