"""Sidecar contract for annet/generators/result.py:RunGeneratorResult.new_json_fragment_files (C13): several generators over one file
are applied one after the other, each on the result of the previous one, starting from the device's file (or an empty document)."""
import z3
from pyvc.dsl import SpecModule, Lazy
from pyvc.types import *
from pyvc.values import V, PyConstObj, PyFn, NONE_V, coerce, PyTup
from pyvc.native import dhead, dtail, dput, dhas

M = SpecModule("jsonfrag")
U = M.U
F = "annet/generators/result.py"

JDoc = U.opaque("JDoc")
_empty = []


def _empty_doc():
    if not _empty:
        _empty.append(z3.Const("empty_json_doc", JDoc.sort()))
    return _empty[0]


JDoc.empty_dict_term = _empty_doc
AclL = U.opaque("AclL")
OptS = U.union("OptS", dict(none=None, some=STR))
OptDoc = U.union("OptDoc", dict(none=None, some=JDoc))
GJ = U.record("GJ", dict(path=STR, acl=AclL, acl_safe=AclL, config=JDoc, reload=OptS, reload_prio=INT))
JR = U.dict("JR", STR, GJ)
Self = U.record("Self", dict(json_fragment_results=JR))
OldFiles = U.dict("OldFiles", STR, OptDoc)
FE = U.tuple("FE", [JDoc, OptS])
Files = U.dict("Files", STR, FE)
Prios = U.dict("Prios", STR, INT)
FP = U.tuple("FP", [Files, Prios])

def _ajf_impl(prev, frag, acl):
    from annet.annlib import jsontools
    return jsontools.apply_json_fragment(prev, frag, acl)


def _fj_impl(doc):
    from annet.annlib import jsontools
    return jsontools.format_json(doc)


empty_doc = {}        # native value of the spec constant of the same name

ajf = M.opaque("ajf", [JDoc, JDoc, AclL], JDoc, impl=_ajf_impl, note="jsontools.apply_json_fragment(old, fragment, acl) (bounded only)")
fj = M.opaque("fj", [JDoc], STR, impl=_fj_impl, note="jsontools.format_json(doc)")
M.export(jsontools=PyConstObj("jsontools", dict(apply_json_fragment=ajf, format_json=fj)),
         empty_doc=Lazy(lambda: V(JDoc, _empty_doc())))


@M.spec
def base_doc(files: Files, old_files: OldFiles, path: STR) -> JDoc:
    """what a generator's fragment is applied to: the result of the previous generators for this file, else the device's file,
    else an empty document"""
    if dhas(files, path):
        return files[path][0]
    return old_files[path] if (dhas(old_files, path) and old_files[path] is not None) else empty_doc


@M.spec
def step(fp: FP, g: GJ, old_files: OldFiles, safe: BOOL) -> FP:
    files = fp[0]
    prios = fp[1]
    prev = base_doc(files, old_files, g.path)
    new = ajf(prev, g.config, g.acl_safe if safe else g.acl)
    prio = 0 if fj(new) == fj(prev) else g.reload_prio
    keep = dhas(prios, g.path) and prios[g.path] > prio
    cmd = (files[g.path][1] if dhas(files, g.path) else None) if keep else g.reload
    return (dput(files, g.path, (new, cmd)), prios if keep else dput(prios, g.path, prio))


@M.spec
def chain(rs: JR, fp: FP, old_files: OldFiles, safe: BOOL) -> FP:
    return fp if not rs else chain(dtail(rs), step(fp, dhead(rs)[1], old_files, safe), old_files, safe)


def _njf_inputs():
    import itertools
    from annet.generators.result import RunGeneratorResult
    from annet.types import GeneratorJSONFragmentResult

    def gen(name, path, acl, cfg, reload, prio):
        return GeneratorJSONFragmentResult(name=name, tags=[], path=path, acl=acl, acl_safe=acl, config=cfg, reload=reload, perf=None,
                                           reload_prio=prio)
    frags = [("/A/*", {"A": {"x": 1}}), ("/B/*", {"B": {"y": 2}}), ("/A/*", {"A": {"x": 1, "z": 3}}), ("/C", {"C": 5})]
    olds = [{}, {"/etc/f.json": {"A": {"x": 1}, "B": {"q": 0}}}, {"/etc/f.json": None}]
    for old_files in olds:
        for combo in itertools.permutations(range(len(frags)), 2):
            for prios in ((100, 100), (200, 50), (50, 200), (0, 100)):
                for second_path in ("/etc/f.json", "/etc/g.json"):
                    r = RunGeneratorResult()
                    for n, (i, prio) in enumerate(zip(combo, prios)):
                        acl, cfg = frags[i]
                        r.add_json_fragment(gen("g%d" % n, "/etc/f.json" if n == 0 else second_path, [acl], cfg, "reload %d" % n, prio))
                    yield dict(self=r, old_files=old_files, safe=False)


M.contract(F, "RunGeneratorResult.new_json_fragment_files", params=dict(self=Self, old_files=OldFiles, safe=BOOL), defaults=dict(safe=False),
           ret=Files, locals=dict(files=Files, reload_prios=Prios),
           ensures=["result == chain(self.json_fragment_results, ({}, {}), old_files, safe)[0]"],
           loops={1: dict(match="self.json_fragment_results.values()",
                          inv=["chain(_rest1, (files, reload_prios), old_files, safe) == chain(self.json_fragment_results, ({}, {}), old_files, safe)"])},
           canaries=["len(result) == 0"], properties=["C13"], inputs=_njf_inputs,
           note="relative to jsontools.apply_json_fragment / format_json (opaque)")


@M.spec
def names_path(rs: JR, p: STR) -> BOOL:
    """some generator of rs writes the file p"""
    return False if not rs else (dhead(rs)[1].path == p or names_path(dtail(rs), p))


# frame lemmas over the proved chain (C13: "changes only the parts selected" lifted to the file level): a generator of another
# file leaves the entry planned for p as it is, and so does a whole chain none of whose generators names p
M.lemma("step_frame", vars=dict(fp=FP, g=GJ, old_files=OldFiles, safe=BOOL, p=STR), hyps=["g.path != p"],
        goal="dhas(step(fp, g, old_files, safe)[0], p) == dhas(fp[0], p) and (not dhas(fp[0], p) or step(fp, g, old_files, safe)[0][p] == fp[0][p])"
             " and dhas(step(fp, g, old_files, safe)[1], p) == dhas(fp[1], p)"
             " and (not dhas(fp[1], p) or step(fp, g, old_files, safe)[1][p] == fp[1][p])",
        properties=["C13"])
M.lemma("chain_frame", vars=dict(rs=JR, fp=FP, old_files=OldFiles, safe=BOOL, p=STR), hyps=["not names_path(rs, p)"],
        goal="dhas(chain(rs, fp, old_files, safe)[0], p) == dhas(fp[0], p)"
             " and (not dhas(fp[0], p) or chain(rs, fp, old_files, safe)[0][p] == fp[0][p])",
        induct="rs", general=["fp"], use=["step_frame"], properties=["C13"])
