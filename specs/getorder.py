"""Sidecar contract for annet/annlib/patching.py:Orderer.get_order (C08): the rank of a row is the index of the best matching ordering
rule - rules are tried in order, a rule matches directly or through its negated form, a later match only wins with a strictly larger
weight, %order_reverse rules pin a negated command to their own position, the vendor's block-exit row goes last - and the children
rules handed down are those of the matching rules plus the %global ones.  The result is a function of (rules, vendor, row, direct,
scope): this discharges the assumption made about get_order in specs/ordercfg.py."""
import z3
from pyvc.dsl import SpecModule, Lazy
from pyvc.types import *
from pyvc.values import V, PyConstObj, PyFn, NONE_V, coerce, PyTup, Unsupported, lift, fresh, concat
from pyvc.native import dhead, dtail, dput, dhas

M = SpecModule("getorder")
U = M.U
F = "annet/annlib/patching.py"

Regex = U.opaque("Regex")
ScopeO = U.opaque("ScopeO")                       # the %scope list of a rule
OptScope = U.union("OptScope", dict(none=None, some=ScopeO))
OptStr = U.union("OptStr", dict(none=None, some=STR))
RAttrs = U.record("RAttrs", {"direct_regexp": Regex, "reverse_regexp": Regex, "order_reverse": BOOL, "global": BOOL, "scope": OptScope})
ORule = U.record("ORule", dict(attrs=RAttrs, children="Rb"))
Rb = U.dict("Rb", STR, ORule)                     # compiled ordering rulebook: raw_rule -> rule
Pair = U.tuple("OPair", [STR, ORule])
Pairs = U.list("OPairs", Pair)
VendorRec = U.record("VendorRec", dict(reverse=STR, exit=STR))
Reg = U.dict("Reg", STR, VendorRec)
Ord = U.record("Ord", dict(rb=Rb, vendor=STR))
OptInt = U.union("OptInt", dict(none=None, some=INT))
OptInt.truthy_fn = None
TRx = U.tuple("TRx", [STR, Regex])
TEx = U.tuple("TEx", [STR, STR])
FR = U.union("FR", dict(s=STR, rx=TRx, ex=TEx))   # the matching rule, reported for debugging only
GO = U.tuple("GO", [INT, BOOL, Rb, FR])
GS = U.tuple("GS", [OptInt, INT, BOOL, Pairs, FR])   # loop state: f_order, f_weight, cmd_direct, children, f_rule


def _weight(row, rule, key):
    from annet.annlib.patching import Orderer
    return Orderer(None, None).rule_weight(row, rule, key)


rx_match = M.opaque("rx_match", [Regex, STR], BOOL, impl=lambda rx, row: rx.match(row) is not None, note="re.Pattern.match(row)")
weight = M.opaque("weight", [STR, ORule, STR], INT, impl=_weight,
                  note="Orderer.rule_weight(row, rule, regexp_key): a number that is only compared (a float at run time)")
in_scope = M.opaque("in_scope", [OptStr, ScopeO], BOOL, impl=lambda scope, sc: scope in sc, note="scope in rule['attrs']['scope']")
Regex.methods = {"match": lambda ex, recv, recv_node, args, kwargs, st, node: V(BOOL, rx_match.decl()(recv.t, coerce(args[0], STR).t))}
ScopeO.contains_fn = lambda x, c: in_scope.decl()(coerce(x, OptStr).t, c.t)


def _the_registry():
    return V(Reg, z3.Const("the_vendor_registry", Reg.sort()))


def _inf():
    return V(INT, z3.Int("INF"))


@M.spec
def pairs_of_rb(d: Rb) -> Pairs:
    return [] if not d else [(dhead(d)[0], dhead(d)[1])] + pairs_of_rb(dtail(d))


@M.spec
def rb_of_pairs(ps: Pairs, acc: Rb) -> Rb:
    """odict(pairs): inserted from left to right (a repeated raw rule keeps its first position and takes the last value)"""
    return acc if not ps else rb_of_pairs(ps[1:], dput(acc, ps[0][0], ps[0][1]))


@M.spec
def step(raw: STR, rule: ORule, i: INT, row: STR, scope: OptStr, bexit: STR, s: GS, full: Rb) -> GS:
    """one ordering rule against the row (the children rules are looked up by the rule's text, as the code does)"""
    a = rule["attrs"]
    if a["scope"] is not None and not in_scope(scope, a["scope"]):
        return s
    ch = s[3] + [(raw, rule)] if a["global"] else s[3]
    dm = rx_match(a["direct_regexp"], row)
    if not a["order_reverse"] and (dm or rx_match(a["reverse_regexp"], row)):
        key = "direct_regexp" if dm else "reverse_regexp"
        w = weight(row, rule, key)
        rx = a["direct_regexp"] if dm else a["reverse_regexp"]
        if s[0] is None or s[1] < w:
            return (i, w, s[2], ch + pairs_of_rb(full[raw]["children"]), (raw, rx))
        return (s[0], s[1], s[2], ch + pairs_of_rb(full[raw]["children"]), s[4])
    if a["order_reverse"] and not s[2] and dm:
        w = weight(row, rule, "direct_regexp")
        if s[0] is None or s[1] < w or s[1] == w:
            return (i, w, True, [], (raw, a["direct_regexp"]))
        return (s[0], s[1], s[2], [], s[4])
    if bexit != "" and bexit == row:
        return (INF, s[1], True, [], (raw, bexit))
    return (s[0], s[1], s[2], ch, s[4])


@M.spec
def go(rest: Rb, i: INT, row: STR, scope: OptStr, bexit: STR, s: GS, full: Rb) -> GS:
    """the rules in order"""
    return s if not rest else go(dtail(rest), i + 1, row, scope, bexit, step(dhead(rest)[0], dhead(rest)[1], i, row, scope, bexit, s, full), full)


@M.spec
def rank(s: GS) -> INT:
    return 0 if (s[0] is None or s[0] == 0) else s[0]


def _float(ex, args, kwargs, st, node):
    a = lift(args[0])
    if isinstance(a, V) and a.ty is STR and z3.is_string_value(z3.simplify(a.t)) and z3.simplify(a.t).as_string() == "inf":
        return _inf()
    raise Unsupported("float() of anything but 'inf'")


def _odict(ex, args, kwargs, st, node):
    if not args:
        return PyTup([], True)
    return rb_of_pairs.sym_call(ex, [coerce(args[0], Pairs), V(Rb, Rb.nil)], {}, st, node)


def _pairs_extend(ex, recv, recv_node, args, kwargs, st, node):
    """children.extend(d.items()): the (raw rule, rule) pairs of d, in order"""
    from pyvc.values import DictItems
    a = args[0]
    if isinstance(a, DictItems) and a.mode == "items":
        a = pairs_of_rb.sym_call(ex, [a.d], {}, st, node)
    ex.assign_to(recv_node, concat(recv, a), st)
    return NONE_V


Pairs.methods = {"extend": _pairs_extend}

M.export(REG=Lazy(_the_registry), INF=Lazy(_inf), float=PyFn("float", _float), odict=PyFn("odict", _odict),
         registry_connector=PyConstObj("registry_connector", dict(get=PyFn("registry_connector.get",
                                                                          lambda ex, args, kwargs, st, node: _the_registry()))))
INF = float("inf")

RW = M.contract(F, "Orderer.rule_weight", params=dict(self=Ord, row=STR, rule=ORule, regexp_key=STR), ret=INT, trusted=True,
                ensures=["result == weight(row, rule, regexp_key)"],
                note="assumed: a function of (row, rule, key) (shared characters / len(row): a float, only compared)", properties=["C08"])

GET_ORDER = M.contract(
    F, "Orderer.get_order", params=dict(self=Ord, row=STR, cmd_direct=BOOL, scope=OptStr), defaults=dict(scope=None), ret=GO,
    locals=dict(f_order=OptInt, f_weight=INT, f_rule=FR, children=Pairs),
    requires=["self.vendor in REG", "len(self.rb) < INF"],
    ensures=["result[0] == rank(go(self.rb, 0, row, scope, REG[self.vendor].exit, (None, 0, cmd_direct, [], ''), self.rb))",
             "result[1] == go(self.rb, 0, row, scope, REG[self.vendor].exit, (None, 0, cmd_direct, [], ''), self.rb)[2]",
             "result[2] == rb_of_pairs(go(self.rb, 0, row, scope, REG[self.vendor].exit, (None, 0, cmd_direct, [], ''), self.rb)[3], {})",
             "result[3] == go(self.rb, 0, row, scope, REG[self.vendor].exit, (None, 0, cmd_direct, [], ''), self.rb)[4]"],
    loops={1: dict(match="enumerate(ordering.items())",
                   inv=["go(_rest1, _i1, row, scope, block_exit, (f_order, f_weight, cmd_direct, children, f_rule), self.rb) == "
                        "go(self.rb, 0, row, scope, block_exit, (None, 0, old(cmd_direct), [], ''), self.rb)"])},
    calls={"self.rule_weight": RW},
    canaries=["result[0] == 0"], properties=["C08"],
    note="relative to re.match and rule_weight; float('inf') is modelled as an integer constant INF larger than every rule index "
         "(precondition), ranks are only compared and negated")


# ---- lemmas: what the fold means for a rulebook whose sibling rules have disjoint languages
@M.spec
def silent(rest: Rb, row: STR) -> BOOL:
    """no rule of rest is %global or matches the row, directly or through its negated form"""
    if not rest:
        return True
    a = dhead(rest)[1]["attrs"]
    return (not a["global"] and not rx_match(a["direct_regexp"], row) and not rx_match(a["reverse_regexp"], row)
            and silent(dtail(rest), row))


M.lemma("rules_that_do_not_match_change_nothing", vars=dict(rest=Rb, i=INT, row=STR, scope=OptStr, s=GS, full=Rb),
        hyps=["silent(rest, row)"], goal="go(rest, i, row, scope, '', s, full) == s", induct="rest", general=["i", "s"],
        ih=[dict(i="i + 1", s="s")], properties=["C08"],
        note="C08 (independence): rules that do not mention a row have no influence on its rank, direction or children rules "
             "(stated for rows that are not the vendor's block exit)")
M.lemma("the_only_matching_rule_gives_the_rank", vars=dict(rest=Rb, i=INT, row=STR, s=GS, full=Rb),
        hyps=["len(rest) > 0", "s[0] is None", "not dhead(rest)[1]['attrs']['order_reverse']", "dhead(rest)[1]['attrs']['scope'] is None",
              "rx_match(dhead(rest)[1]['attrs']['direct_regexp'], row) or rx_match(dhead(rest)[1]['attrs']['reverse_regexp'], row)",
              "silent(dtail(rest), row)"],
        goal="rank(go(rest, i, row, None, '', s, full)) == rank((i, 0, False, [], ''))",
        use=["rules_that_do_not_match_change_nothing"], properties=["C08"],
        instances=[("rules_that_do_not_match_change_nothing",
                    dict(rest="dtail(rest)", i="i + 1", row="row", scope="None",
                         s="step(dhead(rest)[0], dhead(rest)[1], i, row, None, '', s, full)", full="full"))],
        note="C08 (rank semantics): when exactly one rule of a block mentions the row (plain, unscoped rule; the row is not the block "
             "exit), the rank is that rule's index - so a command matched by an earlier rule gets a smaller rank than one matched by a "
             "later rule")


# ---- native evaluation
def _go_inputs():
    from collections import OrderedDict as odict
    from bounded.common import setup_annet
    setup_annet()
    from annet.vendors import registry_connector
    globals()["REG"] = registry_connector.get()
    from annet.annlib.patching import Orderer
    from annet.annlib.rbparser.ordering import compile_ordering_text
    import bounded.gen_rb as g
    texts = ["""
a *
b *      %order_reverse
c
    x *
    y *  %order_reverse
    z
d ~      %global
a 1      %scope=patch
quit
""", """
c
    z
    x *
vlan *
a *
a ~
"""]
    rows = ["a 1", "a 2 3", "b 1", "c", "x 1", "y 1", "z", "d 5", "zz", "quit", "exit", "quit x", "exit-address-family", "a quit", "vlan 2", "{neg} a 1", "{neg} b 1", "{neg} y 1", "{neg} zz"]
    for vendor in ("huawei", "cisco", "juniper"):
        neg = {"huawei": "undo", "cisco": "no", "juniper": "delete"}[vendor]
        for text in texts:
            rb = compile_ordering_text(text, vendor)
            for sub in (rb, rb["c"]["children"] if "c" in rb else rb):
                for row in rows:
                    row = row.replace("{neg}", neg)
                    for cd in (True, False):
                        for scope in (None, "patch"):
                            yield dict(self=Orderer(sub, vendor), row=row, cmd_direct=cd, scope=scope)
    seen = set()
    from annet.patching import Orderer as HwOrderer
    for s in g.corpus():
        if s["model"] in seen:
            continue
        seen.add(s["model"])
        o = HwOrderer.from_hw(g.hw_of(s["model"]))
        for row in list(g.to_tree(s["new"]).keys())[:8]:
            for cd in (True, False):
                yield dict(self=o, row=row, cmd_direct=cd, scope="patch")


GET_ORDER.native_inputs = _go_inputs
