"""Sidecar contracts for annet/annlib/tabparser.py (C05, C04): the offside parser.

Spec functions are plain Python (executed natively by the bounded layer) and are translated from this very text to
z3 recursive definitions by pyvc.  The reference is the column-stack offside rule written from the property text.
"""
from pyvc.dsl import SpecModule, Lazy
from pyvc.types import *
from pyvc.values import V
from pyvc.native import dput, dhas
from collections import OrderedDict as odict

from annet.annlib.tabparser import BlockEnd, _CommentOrEmpty   # native sentinels (for native execution of the specs)

from bounded.gen_text import texts

M = SpecModule("tabparser")


def _line_inputs():
    import itertools
    for n in range(0, 5):
        for c in itertools.product(" \ta", repeat=n):
            yield dict(line="".join(c))


def _text_inputs(max_lines=3):
    def gen():
        for t in texts(max_lines, max_indent=3):
            yield dict(lines=t, comments=("!", "#"))
        for t in texts(2, max_indent=2):
            yield dict(lines=t, comments=("!",))
    return gen

U = M.U
F = "annet/annlib/tabparser.py"

Token = U.union("Token", dict(Line=STR, BlockEnd=None, Comment=None))
Token.pykinds = {"str": "Line"}
OptInt = U.union("OptInt", dict(none=None, some=INT))
IndTok = U.tuple("IndTok", [INT, Token])
OutItem = U.tuple("OutItem", [INT, STR])
SeqStr = SeqT(STR)
SeqInt = SeqT(INT)
SeqTok = SeqT(Token)
SeqIndTok = SeqT(IndTok)
SeqOut = SeqT(OutItem)
SeqStack = SeqT(SeqStr)

M.export(BlockEnd=Lazy(lambda: V(Token, Token.mk("BlockEnd"))),
         _CommentOrEmpty=Lazy(lambda: V(Token, Token.mk("Comment"))))


# ---------------------------------------------------------------------------------------------- spec functions
@M.spec
def lead(s: STR) -> INT:
    """number of leading blanks (space or tab)"""
    return 0 if len(s) == 0 or not (s[0] == " " or s[0] == "\t") else 1 + lead(s[1:])


@M.spec
def classify(line: STR, comments: SeqStr) -> Token:
    """a `#` at column 0 resets the section (Huawei); blank and comment lines are skipped; the rest are lines"""
    if "#" in comments and line.startswith("#"):
        return BlockEnd
    st = line.strip()
    if len(st) == 0 or st.startswith(comments):
        return _CommentOrEmpty
    return line


@M.spec
def spec_filtered(lines: SeqStr, comments: SeqStr) -> SeqTok:
    return [] if len(lines) == 0 else [classify(lines[0], comments)] + spec_filtered(lines[1:], comments)


@M.spec
def parsed_one(tok: Token) -> IndTok:
    return (lead(tok), tok.strip()) if isinstance(tok, str) else (0, tok)


@M.spec
def map_parsed(toks: SeqTok) -> SeqIndTok:
    return [] if len(toks) == 0 else [parsed_one(toks[0])] + map_parsed(toks[1:])


@M.spec
def spec_parsed(lines: SeqStr, comments: SeqStr) -> SeqIndTok:
    return map_parsed(spec_filtered(lines, comments))


@M.spec
def total(s: SeqInt) -> INT:
    return 0 if len(s) == 0 else total(s[:-1]) + s[-1]


@M.spec
def psum(s: SeqInt) -> SeqInt:
    """absolute columns of the open blocks, from the increments the code keeps"""
    return [] if len(s) == 0 else psum(s[:-1]) + [total(s)]


@M.spec
def top(cols: SeqInt) -> INT:
    return 0 if len(cols) == 0 else cols[-1]


@M.spec
def dropgt(cols: SeqInt, L: INT) -> SeqInt:
    """close every open block that started at a column greater than L"""
    return cols if len(cols) == 0 or cols[-1] <= L else dropgt(cols[:-1], L)


@M.spec
def step_cols(cols: SeqInt, L: INT) -> SeqInt:
    return cols + [L] if L > top(cols) else (dropgt(cols, L) if L < top(cols) else cols)


@M.spec
def step_err(cols: SeqInt, L: INT) -> BOOL:
    """a dedent must land on a column an enclosing block started at (or on column 0)"""
    return L < top(cols) and top(dropgt(cols, L)) != L


@M.spec
def off_out(toks: SeqIndTok, cols: SeqInt, g: INT, has_g: BOOL) -> SeqOut:
    """reference offside rule: (depth, text) of every line up to the first indentation error.
    g is the common leading offset, fixed by the first line of a section."""
    if len(toks) == 0:
        return []
    tok = toks[0]
    rest = toks[1:]
    if isinstance(tok[1], str):
        g2 = g if has_g else tok[0]
        L = tok[0] - g2
        if L < 0 or step_err(cols, L):
            return []
        c2 = step_cols(cols, L)
        return [(len(c2), tok[1])] + off_out(rest, c2, g2, True)
    if tok[1] is BlockEnd:
        return off_out(rest, [], 0, False)
    return off_out(rest, cols, g, has_g)


@M.spec
def off_err(toks: SeqIndTok, cols: SeqInt, g: INT, has_g: BOOL) -> BOOL:
    """does the reference find a negative top indent or an inconsistent dedent"""
    if len(toks) == 0:
        return False
    tok = toks[0]
    rest = toks[1:]
    if isinstance(tok[1], str):
        g2 = g if has_g else tok[0]
        L = tok[0] - g2
        if L < 0 or step_err(cols, L):
            return True
        return off_err(rest, step_cols(cols, L), g2, True)
    if tok[1] is BlockEnd:
        return off_err(rest, [], 0, False)
    return off_err(rest, cols, g, has_g)


@M.spec
def stk_run(items: SeqOut, stack: SeqStr) -> SeqStack:
    """path of every line: the first `depth` entries of the previous path, then the line itself"""
    return [] if len(items) == 0 else \
        [stack[:items[0][0]] + [items[0][1]]] + stk_run(items[1:], stack[:items[0][0]] + [items[0][1]])


@M.spec
def nn(items: SeqOut) -> BOOL:
    """every depth is non-negative"""
    return len(items) == 0 or (items[0][0] >= 0 and nn(items[1:]))


M.lemma("nn_off_out", vars=dict(toks=SeqIndTok, cols=SeqInt, g=INT, has_g=BOOL), hyps=[],
        goal="nn(off_out(toks, cols, g, has_g))", induct="toks", pattern="off_out(toks, cols, g, has_g)",
        properties=["C05"])

# ---------------------------------------------------------------------------------------------- contracts
M.contract(F, "_parse_indent", params=dict(line=STR), ret=INT,
           ensures=["result == lead(line)"],
           loops={1: dict(match="line", inv=["level + lead(_rest1) == lead(line)", "level >= 0"])},
           canaries=["result == lead(line) + 1"], inputs=_line_inputs,
           properties=["C05", "C04"])

M.contract(F, "_filtered_lines", params=dict(lines=SeqStr, comments=SeqStr), yields=SeqTok,
           ensures=["result == spec_filtered(lines, comments)"],
           loops={1: dict(match="lines", inv=["_out + spec_filtered(_rest1, comments) == spec_filtered(lines, comments)"])},
           canaries=["len(result) == 0"], inputs=_text_inputs(),
           properties=["C05", "C04"])

M.contract(F, "_parsed_indents", params=dict(lines=SeqStr, comments=SeqStr), yields=SeqIndTok,
           ensures=["result == spec_parsed(lines, comments)"],
           loops={1: dict(match="_filtered_lines(lines, comments)",
                          inv=["_out + map_parsed(_rest1) == map_parsed(_it1)"])},
           canaries=["len(result) == 0"], inputs=_text_inputs(),
           properties=["C05", "C04"])

M.contract(F, "_stripped_indents", params=dict(lines=SeqStr, comments=SeqStr), yields=SeqOut, shards=8,
           locals=dict(indents=SeqInt, curr_level=INT, g_level=OptInt),
           ensures=["result == off_out(spec_parsed(lines, comments), [], 0, False)"],
           raises={"ParserError": ["off_err(spec_parsed(lines, comments), [], 0, False)"]},
           raises_ensures={"ParserError": ["result == off_out(spec_parsed(lines, comments), [], 0, False)"]},
           loops={
               1: dict(match="enumerate(_parsed_indents(lines, comments), start=1)",
                       inv=["curr_level == total(indents)",
                            "len(psum(indents)) == len(indents)",
                            "top(psum(indents)) == curr_level",
                            "off_err(_rest1, psum(indents), (g_level or 0), g_level is not None) == off_err(_it1, [], 0, False)",
                            "_out + off_out(_rest1, psum(indents), (g_level or 0), g_level is not None) == off_out(_it1, [], 0, False)"]),
               2: dict(match="curr_level > level and len(indents)",
                       inv=["curr_level == total(indents)",
                            "len(psum(indents)) == len(indents)",
                            "top(psum(indents)) == curr_level",
                            "dropgt(psum(indents), level) == dropgt(psum(entry(indents)), level)"],
                       decreases="len(indents)"),
           },
           canaries=["len(result) == 0"], inputs=_text_inputs(),
           properties=["C05", "C04"])

M.contract(F, "_stacked", params=dict(lines=SeqStr, comments=SeqStr), yields=SeqStack,
           locals=dict(stack=SeqStr),
           ensures=["result == stk_run(off_out(spec_parsed(lines, comments), [], 0, False), [])"],
           raises={"ParserError": ["off_err(spec_parsed(lines, comments), [], 0, False)"]},
           raises_ensures={"ParserError": ["result == stk_run(off_out(spec_parsed(lines, comments), [], 0, False), [])"]},
           loops={1: dict(match="_stripped_indents(lines, comments)",
                          inv=["nn(_rest1)", "_out + stk_run(_rest1, stack) == stk_run(_it1, [])"])},
           use=["nn_off_out"],
           canaries=["len(result) == 0"], inputs=_text_inputs(),
           properties=["C05", "C04"])


# ==================================================================================================================
# parse_to_tree: the nested-dict insertion (cursor idiom: `local_tree` walks into `tree`)
Tree = U.dict("Tree", STR, "Tree")
Splitter = U.opaque("Splitter")
split = M.opaque("split", [Splitter, STR], SeqStr, impl=lambda splitter, text: list(splitter(text)), note="the vendor's line splitter (opaque)")


@M.spec
def tget(t: Tree, p: SeqStr) -> Tree:
    return t if len(p) == 0 else tget(t[p[0]], p[1:])


@M.spec
def tset(t: Tree, p: SeqStr, k: STR, v: Tree) -> Tree:
    return dput(t, k, v) if len(p) == 0 else dput(t, p[0], tset(t[p[0]], p[1:], k, v))


@M.spec
def has_path(t: Tree, p: SeqStr) -> BOOL:
    return True if len(p) == 0 else (dhas(t, p[0]) and has_path(t[p[0]], p[1:]))


@M.spec
def ins(t: Tree, p: SeqStr) -> Tree:
    """insert a path: missing nodes are created at the end of their level, existing ones keep their place (repeated lines merge)"""
    return t if len(p) == 0 else dput(t, p[0], ins(t[p[0]] if dhas(t, p[0]) else odict(), p[1:]))


@M.spec
def fold_ins(stacks: SeqStack, t: Tree) -> Tree:
    return t if len(stacks) == 0 else fold_ins(stacks[1:], ins(t, stacks[0]))


M.lemma("ins_existing_path", vars=dict(t=Tree, p=SeqStr), hyps=["has_path(t, p)"], goal="ins(t, p) == t", induct="p",
        pattern="ins(t, p)", ih=[dict(t="t[p[0]]")], properties=["C05"])
M.lemma("has_path_after_create", vars=dict(t=Tree, p=SeqStr, k=STR, v=Tree), hyps=["has_path(t, p)"],
        goal="has_path(tset(t, p, k, v), p + [k])", induct="p", pattern="tset(t, p, k, v)", ih=[dict(t="t[p[0]]")], properties=["C05"])
M.lemma("key_present_after_create", vars=dict(t=Tree, p=SeqStr, k=STR, v=Tree), hyps=["has_path(t, p)"],
        goal="dhas(tget(tset(t, p, k, v), p), k)", induct="p", pattern="tget(tset(t, p, k, v), p)", ih=[dict(t="t[p[0]]")], properties=["C05"])
M.lemma("has_path_extend", vars=dict(t=Tree, p=SeqStr, k=STR), hyps=["has_path(t, p)", "dhas(tget(t, p), k)"],
        goal="has_path(t, p + [k])", induct="p", pattern="has_path(t, p + [k])", ih=[dict(t="t[p[0]]")], properties=["C05"])
M.lemma("create_then_insert", vars=dict(t=Tree, p=SeqStr, k=STR, s=SeqStr),
        hyps=["has_path(t, p)", "not dhas(tget(t, p), k)", "seq_prefix(p + [k], s)"],
        goal="ins(tset(t, p, k, {}), s) == ins(t, s)", induct="p", pattern="ins(tset(t, p, k, {}), s)",
        ih=[dict(t="t[p[0]]", s="s[1:]")], properties=["C05"])

M.contract(F, "<splitter>", params=dict(self=Splitter, text=STR), ret=SeqStr, trusted=True, callable_recv=True,
           ensures=["result == split(self, text)"], note="formatter.split: opaque", properties=["C05", "C04"])

M.contract(F, "parse_to_tree", params=dict(text=STR, splitter=Splitter, comments=SeqStr), defaults=dict(comments=("!", "#")), ret=Tree,
           locals=dict(tree=Tree), cursors={"local_tree": dict(root="tree", get="tget", set="tset")},
           calls={"splitter": None},
           ensures=["result == fold_ins(stk_run(off_out(spec_parsed(split(splitter, text), comments), [], 0, False), []), {})"],
           raises={"ParserError": ["off_err(spec_parsed(split(splitter, text), comments), [], 0, False)"]},
           loops={1: dict(match="_stacked(splitter(text), tuple(comments))", inv=["fold_ins(_rest1, tree) == fold_ins(_it1, {})"]),
                  2: dict(match="stack",
                          inv=["cpath(local_tree) + _rest2 == stack",
                               "has_path(tree, cpath(local_tree))",
                               "ins(tree, stack) == ins(entry(tree), stack)",
                               "fold_ins(_rest1, ins(entry(tree), stack)) == fold_ins(_it1, {})"])},
           use=["ins_existing_path", "has_path_after_create", "key_present_after_create", "has_path_extend", "create_then_insert"], shards=4,
           canaries=["len(result) == 0"], properties=["C05", "C04"])
_qq = {c.qual: c for c in M.contracts}
_qq["parse_to_tree"].calls["splitter"] = _qq["<splitter>"]
