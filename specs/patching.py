"""Sidecar contracts for annet/annlib/patching.py: diff list functions and ACL filtering (C02, C03, C06, C10, C16)."""
from collections import OrderedDict as odict

from pyvc.dsl import SpecModule, Lazy
from pyvc.types import *
from pyvc.values import V, PyConstObj
from pyvc.native import dhead, dtail, dcons, dhas

from annet.annlib import patching as _p
from annet.annlib.types import Op
from annet.annlib.lib import strip_annotation as _strip_annotation

M = SpecModule("patching")
U = M.U
F = "annet/annlib/patching.py"

OpT = U.enum("OpT", ["added", "removed", "affected", "moved", "unchanged"])
Match = U.opaque("Match")          # the rule match attached to a diff row (d_match)
Rules = U.opaque("Rules")          # compiled ACL rules of one level: {"local": ..., "global": ...}
DiffItem = U.tuple("DiffItem", [OpT, STR, "Diff", Match])
Diff = U.list("Diff", DiffItem)
Tree = U.dict("Tree", STR, "Tree")
SeqBool = SeqT(BOOL)
SeqStr = SeqT(STR)
AAttrs = U.record("AAttrs", dict(cant_delete=SeqBool))
AMatch = U.record("AMatch", dict(is_reverse=BOOL, attrs=AAttrs))
OptAMatch = U.union("OptAMatch", dict(none=None, some=AMatch))
MaclRes = U.tuple("MaclRes", [OptAMatch, Rules])

M.export(Op=Lazy(lambda: PyConstObj("Op", dict(ADDED=V(OpT, OpT.const("added")), REMOVED=V(OpT, OpT.const("removed")),
                                               AFFECTED=V(OpT, OpT.const("affected")), MOVED=V(OpT, OpT.const("moved")),
                                               UNCHANGED=V(OpT, OpT.const("unchanged"))))))

# match_row_to_acl: which ACL rule governs a row and which rules apply to its children.  Regex matching, the
# prio/specificity sort and the children-rule merge are outside the VC subset: opaque, pure (A6); the bounded layer of
# C06 compares it with an independent reference matcher.
macl = M.opaque("macl", [STR, Rules], MaclRes, impl=lambda row, rules: _p.match_row_to_acl(row, rules),
                note="match_row_to_acl(row, rules): (governing match | None, children rules)")
macl_conflict = M.opaque("macl_conflict", [STR, Rules], BOOL, impl=None,
                         note="match_row_to_acl(row, rules, exclusive=True) raises AclNotExclusiveError")
strip_annotation = M.opaque("strip_annotation", [STR], STR, impl=_strip_annotation, note="lib.strip_annotation (rsplit)")


def _macl_conflict_impl(row, rules):
    try:
        _p.match_row_to_acl(row, rules, True)
    except _p.AclNotExclusiveError:
        return True
    return False


macl_conflict.impl = _macl_conflict_impl


# ------------------------------------------------------------------------------------------------ spec functions
@M.spec
def spec_strip(d: Diff) -> Diff:
    """the diff without the rows whose op is UNCHANGED, at every depth; order kept"""
    if not d:
        return []
    if d[0][0] == Op.UNCHANGED:
        return spec_strip(d[1:])
    return [(d[0][0], d[0][1], spec_strip(d[0][2]), d[0][3])] + spec_strip(d[1:])


@M.spec
def spec_mark(d: Diff) -> Diff:
    """an AFFECTED block whose (marked) children are all UNCHANGED is itself UNCHANGED; nothing else changes"""
    if not d:
        return []
    it = d[0]
    if it[0] == Op.AFFECTED:
        children = spec_mark(it[2])
        op = Op.UNCHANGED if all(x[0] == Op.UNCHANGED for x in children) else Op.AFFECTED
        return [(op, it[1], children, it[3])] + spec_mark(d[1:])
    return [it] + spec_mark(d[1:])


@M.spec
def spec_acl_diff(diff: Diff, rules: Rules) -> Diff:
    """rows no ACL rule covers are dropped (with their sub-tree); a REMOVED row governed by rules that all forbid
    deletion becomes AFFECTED; children are filtered by the children rules of the governing match; order kept"""
    if not diff:
        return []
    it = diff[0]
    m = macl(it[1], rules)
    if m[0]:
        op = Op.AFFECTED if (it[0] == Op.REMOVED and all(m[0]["attrs"]["cant_delete"])) else it[0]
        return [(op, it[1], spec_acl_diff(it[2], m[1]), it[3])] + spec_acl_diff(diff[1:], rules)
    return spec_acl_diff(diff[1:], rules)


@M.spec
def spec_filter(config: Tree, rules: Rules, annot: BOOL) -> Tree:
    """sub-tree of config, in input order: a row is kept iff a rule governs it (and it is not the reverse form of an
    undeletable rule); its children are filtered by the children rules"""
    if not config:
        return odict()
    (row, children) = dhead(config)
    rest = spec_filter(dtail(config), rules, annot)
    m = macl(strip_annotation(row) if annot else row, rules)
    if m[0] and not (m[0]["is_reverse"] and all(m[0]["attrs"]["cant_delete"])):
        return dcons(row, spec_filter(children, m[1], annot), rest)
    return rest


@M.spec
def twf(t: Tree) -> BOOL:
    """a config tree is a nest of dicts: keys are distinct at every level"""
    return True if not t else (not dhas(dtail(t), dhead(t)[0]) and twf(dhead(t)[1]) and twf(dtail(t)))


@M.spec
def spec_exc(config: Tree, rules: Rules, fatal: BOOL, excl: BOOL, annot: BOOL) -> INT:
    """first exception in traversal order: 0 none, 1 AclError (strict mode, uncovered row at a covered parent),
    2 AclNotExclusiveError"""
    if not config:
        return 0
    (row, children) = dhead(config)
    t = strip_annotation(row) if annot else row
    if excl and macl_conflict(t, rules):
        return 2
    m = macl(t, rules)
    if m[0]:
        if not (m[0]["is_reverse"] and all(m[0]["attrs"]["cant_delete"])):
            e = spec_exc(children, m[1], fatal, excl, annot)
            if e == 1 or e == 2:
                return e
    elif fatal:
        return 1
    return spec_exc(dtail(config), rules, fatal, excl, annot)


@M.spec
def subtree(a: Tree, b: Tree) -> BOOL:
    """a is an order-preserving sub-tree of b: rows of a appear in b in the same order, children recursively"""
    if not a:
        return True
    if not b:
        return False
    return (dhead(a)[0] == dhead(b)[0] and subtree(dhead(a)[1], dhead(b)[1]) and subtree(dtail(a), dtail(b))) \
        or subtree(a, dtail(b))


@M.spec
def has_uncovered(config: Tree, rules: Rules, annot: BOOL) -> BOOL:
    """some row, visited in order at a covered parent, is governed by no rule"""
    if not config:
        return False
    (row, children) = dhead(config)
    m = macl(strip_annotation(row) if annot else row, rules)
    if m[0]:
        if not (m[0]["is_reverse"] and all(m[0]["attrs"]["cant_delete"])) and has_uncovered(children, m[1], annot):
            return True
        return has_uncovered(dtail(config), rules, annot)
    return True


# lemmas over the spec functions (L layer of C06): what the contract of apply_acl means for the property
M.lemma("filter_subtree", vars=dict(config=Tree, rules=Rules, annot=BOOL), hyps=[],
        goal="subtree(spec_filter(config, rules, annot), config)", induct="config", properties=["C06", "C02"])
M.lemma("filter_idempotent", vars=dict(config=Tree, rules=Rules, annot=BOOL), hyps=[],
        goal="spec_filter(spec_filter(config, rules, annot), rules, annot) == spec_filter(config, rules, annot)",
        induct="config", properties=["C06"])
M.lemma("exc_nonexclusive", vars=dict(config=Tree, rules=Rules, fatal=BOOL, annot=BOOL), hyps=[],
        goal="spec_exc(config, rules, fatal, False, annot) == 0 or spec_exc(config, rules, fatal, False, annot) == 1",
        induct="config", properties=["C06"])
M.lemma("strict_iff_uncovered", vars=dict(config=Tree, rules=Rules, annot=BOOL), hyps=[],
        goal="(spec_exc(config, rules, True, False, annot) == 1) == has_uncovered(config, rules, annot)",
        induct="config", use=["exc_nonexclusive"], properties=["C06", "C10"])
M.lemma("lenient_never_raises", vars=dict(config=Tree, rules=Rules, annot=BOOL), hyps=[],
        goal="spec_exc(config, rules, False, False, annot) == 0", induct="config", properties=["C06"])
M.lemma("strip_idempotent", vars=dict(d=Diff), hyps=[], goal="spec_strip(spec_strip(d)) == spec_strip(d)", induct="d",
        properties=["C03", "C16"])
M.lemma("acl_diff_never_removes_undeletable", vars=dict(d=Diff, rules=Rules), hyps=[],
        goal="no_undeletable_removed(spec_acl_diff(d, rules), rules)", induct="d", properties=["C02"])


@M.spec
def no_undeletable_removed(d: Diff, rules: Rules) -> BOOL:
    """no kept item is REMOVED while every flag of its governing rule forbids deletion (at every depth)"""
    if not d:
        return True
    m = macl(d[0][1], rules)
    if d[0][0] == Op.REMOVED and m[0] and all(m[0]["attrs"]["cant_delete"]):
        return False
    return (no_undeletable_removed(d[0][2], m[1]) if m[0] else True) and no_undeletable_removed(d[1:], rules)


# ------------------------------------------------------------------------------------------------ native inputs
def _mk(op, row, children=()):
    return (op, row, list(children), {"raw_rule": row, "key": (row,), "attrs": {}})


def _diffs(depth, width, rows=("a", "b")):
    ops = [Op.ADDED, Op.REMOVED, Op.AFFECTED, Op.UNCHANGED, Op.MOVED]
    import itertools
    if depth == 0:
        yield []
        return
    subs = list(_diffs(depth - 1, width, rows))[:6]
    items = [_mk(op, r, ch) for op in ops for r in rows[:1] for ch in subs]
    for n in range(0, width + 1):
        for combo in itertools.product(items, repeat=n):
            yield list(combo)


def _diff_inputs():
    import itertools
    for d in itertools.islice(_diffs(2, 2), 4000):
        yield dict(diff=d)


def _acl_rules():
    from annet.annlib.rbparser.acl import compile_acl_text
    texts = ["a\n", "a\n  b\n", "a %cant_delete=1\n  b\n", "~ %global\n", "a\n  ~\nb %cant_delete=1\n", "* %cant_delete=1\n  *\n",
             "undo_a %cant_delete=1\n"]
    return [compile_acl_text(t, "huawei") for t in texts]


def _trees(depth, rows=("a", "b", "undo a")):
    import itertools
    if depth == 0:
        yield odict()
        return
    subs = list(_trees(depth - 1, rows))[:5]
    for n in range(0, len(rows) + 1):
        for keys in itertools.combinations(rows, n):
            for chs in itertools.product(subs, repeat=len(keys)):
                yield odict(zip(keys, [odict(c) for c in chs]))


def _acl_diff_inputs():
    import itertools
    for rules in _acl_rules():
        for d in itertools.islice(_diffs(2, 2, rows=("a", "b")), 600):
            yield dict(diff=d, rules=rules)


def _apply_acl_inputs():
    import itertools
    for rules in _acl_rules():
        for t in itertools.islice(_trees(2), 400):
            for fatal in (False, True):
                yield dict(config=t, rules=rules, fatal_acl=fatal, exclusive=False, with_annotations=False, _path=())


# ------------------------------------------------------------------------------------------------ contracts
M.contract(F, "strip_unchanged", params=dict(diff=Diff), ret=Diff, locals=dict(passed=Diff),
           ensures=["result == spec_strip(diff)"],
           loops={1: dict(match="diff", inv=["passed + spec_strip(_rest1) == spec_strip(diff)"])},
           canaries=["result == diff"], inputs=_diff_inputs,
           properties=["C03", "C16", "C01"])

M.contract(F, "mark_unchanged", params=dict(diff=Diff), ret=Diff, locals=dict(passed=Diff),
           ensures=["result == spec_mark(diff)"],
           loops={1: dict(match="diff", inv=["passed + spec_mark(_rest1) == spec_mark(diff)"])},
           canaries=["result == diff"], inputs=_diff_inputs,
           properties=["C03", "C16", "C17"])

EXC = {"AclNotExclusiveError": "AclError"}

M.contract(F, "match_row_to_acl", params=dict(row=STR, rules=Rules, exclusive=BOOL), ret=MaclRes, defaults=dict(exclusive=False),
           ensures=["result == macl(row, rules)"],
           raises={"AclNotExclusiveError": ["exclusive", "macl_conflict(row, rules)"]},
           trusted=True, exc_parents=EXC,
           note="assumed contract (regex matching, metric sort, children-rule merge are opaque): compared with an independent "
                "reference matcher in the bounded layer of C06",
           properties=["C02", "C06", "C10"])

M.contract(F, "apply_acl_diff", params=dict(diff=Diff, rules=Rules), ret=Diff, locals=dict(passed=Diff),
           ensures=["result == spec_acl_diff(diff, rules)"],
           loops={1: dict(match="diff", inv=["passed + spec_acl_diff(_rest1, rules) == spec_acl_diff(diff, rules)"])},
           canaries=["result == diff"], inputs=_acl_diff_inputs, exc_parents=EXC, native_frame_skip=["rules"],
           properties=["C02"])

M.contract(F, "apply_acl",
           params=dict(config=Tree, rules=Rules, fatal_acl=BOOL, exclusive=BOOL, with_annotations=BOOL, _path=SeqStr),
           defaults=dict(fatal_acl=False, exclusive=False, with_annotations=False, _path=()),
           ret=Tree, locals=dict(passed=Tree),
           requires=["twf(config)"],
           ensures=["result == spec_filter(config, rules, with_annotations)"],
           raises={"AclError": ["spec_exc(config, rules, fatal_acl, exclusive, with_annotations) == 1"],
                   "AclNotExclusiveError": ["spec_exc(config, rules, fatal_acl, exclusive, with_annotations) == 2"]},
           loops={1: dict(match="config.items()",
                          inv=["twf(_rest1)", "ddisj(passed, _rest1)",
                               "spec_exc(_rest1, rules, fatal_acl, exclusive, with_annotations) == spec_exc(config, rules, fatal_acl, exclusive, with_annotations)",
                               "dapp(passed, spec_filter(_rest1, rules, with_annotations)) == spec_filter(config, rules, with_annotations)"])},
           canaries=["result == config"], inputs=_apply_acl_inputs, exc_parents=EXC, native_frame_skip=["rules"],
           properties=["C06", "C02", "C10"])
