"""Sidecar contracts for the patching-rulebook matcher in annet/annlib/patching.py: _rules_local_global, _find_rules_matches,
_match_row_to_rules (C03, C01): which rule a config row is attached to.  re.Pattern.match stays opaque."""
import itertools
import re
from collections import OrderedDict as odict

import z3
from pyvc.dsl import SpecModule, Lazy
from pyvc.types import *
from pyvc.values import V, PyConstObj, PyFn, NONE_V, coerce, PyTup
from pyvc.native import dhead, dtail, dput, dhas

M = SpecModule("rbmatch")
U = M.U
F = "annet/annlib/patching.py"

Regex = U.opaque("Regex")                    # a compiled re.Pattern
Mo = U.opaque("Mo")                          # a re.Match object (always truthy)
Mo.truthy_fn = lambda t: z3.BoolVal(True)
OptMo = U.union("OptMo", dict(none=None, some=Mo))
Key = U.opaque("Key")                        # match.groups()
ARest = U.opaque("ARest")
RAttrs = U.record("RAttrs", dict(regexp=Regex, rest=ARest))
Children = U.record("Children", {"local": "RulesD", "global": "RulesD"})
Rule = U.record("Rule", dict(type=STR, attrs=RAttrs, children=Children))
RulesD = U.dict("RulesD", STR, Rule)
Rules = U.record("Rules", {"local": RulesD, "global": RulesD})
Named = U.tuple("Named", [STR, Rule])
Item = U.tuple("Item", [Named, BOOL])        # ((raw_rule, rule), is_global)
Items = SeqT(Item)
RuleCr = U.tuple("RuleCr", [Rule, BOOL])     # (rule, is_cr_allowed)
Other = U.record("Other", dict(raw_rule=STR, key=Key))
MatchT = U.tuple("MatchT", [RuleCr, Other])
Matches = SeqT(MatchT)
SelO = U.opaque("SelO")
NonePair = U.tuple("NonePair", [NONE, NONE])
SelX = U.union("SelX", dict(nothing=NonePair, sel=SelO))

re_match = M.opaque("re_match", [Regex, STR], OptMo, impl=lambda rx, row: rx.match(row), note="re.Pattern.match(row)")
groups = M.opaque("groups", [Mo], Key, impl=lambda m: m.groups(), note="re.Match.groups()")
def _sel_impl(matches, rules):
    from annet.annlib import patching
    return patching._select_match(matches, rules)


sel = M.opaque("sel", [Matches, Rules], SelX, impl=_sel_impl, note="_select_match(matches, rules) (proved in specs.aclmatch)")

Regex.methods = {"match": lambda ex, recv, recv_node, args, kwargs, st, node: V(OptMo, re_match.decl()(recv.t, coerce(args[0], STR).t))}
Mo.methods = {"groups": lambda ex, recv, recv_node, args, kwargs, st, node: V(Key, groups.decl()(recv.t))}


@M.spec
def items_of(d: RulesD, is_global: BOOL) -> Items:
    return [] if not d else [((dhead(d)[0], dhead(d)[1]), is_global)] + items_of(dtail(d), is_global)


@M.spec
def ign(items: Items, row: STR) -> BOOL:
    """some rule of type `ignore` matches the row"""
    if not items:
        return False
    return (bool(re_match(items[0][0][1]["attrs"]["regexp"], row)) and items[0][0][1]["type"] == "ignore") or ign(items[1:], row)


@M.spec
def coll(items: Items, row: STR) -> Matches:
    """every rule whose regexp matches the row, in rulebook order (local rules, then global ones); a rule may hand its children
    rules down unless it is a global rule; the match remembers the rule text and the key = the regexp's groups"""
    if not items:
        return []
    m = re_match(items[0][0][1]["attrs"]["regexp"], row)
    here = [((items[0][0][1], not items[0][1]), {"raw_rule": items[0][0][0], "key": groups(m)})] if m else []
    return here + coll(items[1:], row)


def _mk_rules():
    def rule(pat, typ="normal", children=None):
        return {"type": typ, "attrs": {"regexp": re.compile(pat), "x": 1},
                "children": children or {"local": odict(), "global": odict()}}
    a = rule(r"^a\s+(\S+)$")
    b = rule(r"^a\s+1$")
    ig = rule(r"^a\s+2$", "ignore")
    g = rule(r"^(\S+)\s+1$")
    for local in ([], [("a *", a)], [("a *", a), ("a 1", b)], [("a 1", b), ("a 2", ig), ("a *", a)], [("a *", a), ("a 2", ig)]):
        for glob in ([], [("* 1", g)], [("a 2", ig)]):
            yield {"local": odict(local), "global": odict(glob)}


def _rlg_inputs():
    for r in _mk_rules():
        yield dict(rules=r)


def _frm_inputs():
    for r in _mk_rules():
        for row in ("a 1", "a 2", "a 3", "b 1", "c"):
            yield dict(row=row, rules=r)


M.contract(F, "_rules_local_global", params=dict(rules=Rules), yields=Items,
           ensures=["result == items_of(rules['local'], False) + items_of(rules['global'], True)"],
           loops={1: dict(match="rules[\"local\"].items()", inv=["_out + items_of(_rest1, False) == items_of(rules['local'], False)"]),
                  2: dict(match="rules[\"global\"].items()",
                          inv=["_out + items_of(_rest2, True) == items_of(rules['local'], False) + items_of(rules['global'], True)"])},
           canaries=["len(result) == 0"], inputs=_rlg_inputs, properties=["C03"])

M.contract(F, "_find_rules_matches", params=dict(row=STR, rules=Rules), ret=Matches, locals=dict(matches=Matches),
           ensures=["result == ([] if ign(items_of(rules['local'], False) + items_of(rules['global'], True), row) "
                    "else coll(items_of(rules['local'], False) + items_of(rules['global'], True), row))"],
           loops={1: dict(match="_rules_local_global(rules)",
                          inv=["ign(_rest1, row) == ign(_it1, row)", "matches + coll(_rest1, row) == coll(_it1, row)"])},
           canaries=["len(result) == 0"], inputs=_frm_inputs, properties=["C03"])

M.lemma("ign_app", vars=dict(a=Items, b=Items, row=STR), hyps=[], goal="ign(a + b, row) == (ign(a, row) or ign(b, row))", induct="a",
        properties=["C03"])
M.lemma("coll_app", vars=dict(a=Items, b=Items, row=STR), hyps=[], goal="coll(a + b, row) == coll(a, row) + coll(b, row)", induct="a",
        properties=["C03"])

M.contract(F, "<_select_match>", params=dict(matches=Matches, rules=Rules), ret=SelX, trusted=True, ensures=["result == sel(matches, rules)"],
           note="_select_match is proved in specs.aclmatch over its own (more abstract) types; here only its call is needed",
           properties=["C03"])
M.contract(F, "_match_row_to_rules", params=dict(row=STR, rules=Rules), ret=SelX,
           ensures=["result == (sel(coll(items_of(rules['local'], False) + items_of(rules['global'], True), row), rules) "
                    "if (not ign(items_of(rules['local'], False) + items_of(rules['global'], True), row) and "
                    "len(coll(items_of(rules['local'], False) + items_of(rules['global'], True), row)) > 0) else (None, None))"],
           canaries=["result == (None, None)"], properties=["C03"], inputs=_frm_inputs)

_q = {c.qual: c for c in M.contracts}
_q["_match_row_to_rules"].calls["_select_match"] = _q["<_select_match>"]
