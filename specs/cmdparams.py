"""Sidecar contracts for annet/deploy.py (C09): make_cmd_params / fill_cmd_params (each command carries the timeout and the dialog
answers of the deploy rule that matches it, or the defaults (30 s, no dialogs) when there is no rule) and apply_deploy_rulebook (the
command list handed to the driver is, group by group, the session wrapper's enter commands, the patch commands in patch order at their
depth, and the wrapper's leave commands)."""
import z3
from pyvc.dsl import SpecModule, Lazy
from pyvc.types import *
from pyvc.values import V, PyConstObj, PyFn, NONE_V, coerce, PyTup, Unsupported, lift, fresh
from pyvc.native import dhead, dtail, dput, dhas

M = SpecModule("cmdparams")
U = M.U
F = "annet/deploy.py"

Matcher = U.opaque("Matcher")
Answer = U.opaque("Answer")
Question = U.opaque("Question")
RulesO = U.opaque("RulesO")
Hw = U.opaque("Hw")
KeyO = U.opaque("KeyO")
Ctx = U.opaque("Ctx")
Ctx.empty_dict_term = lambda: z3.Const("the_empty_context", Ctx.sort())
Dialogs = U.dict("Dialogs", Matcher, Answer)
Attrs = U.record("Attrs", dict(dialogs=Dialogs, timeout=INT))
Rule = U.record("Rule", dict(attrs=Attrs))
RuleU = U.union("RuleU", dict(empty=None, some=Rule))       # {} / None  |  a compiled deploy rule
RuleU.truthy_tags = ("some",)
Qs = U.list("Qs", Question)
PFull = U.record("PFull", dict(questions=Qs, timeout=INT))
PPlain = U.record("PPlain", dict(timeout=INT))
Params = U.union("Params", dict(full=PFull, plain=PPlain))
OptQs = U.union("OptQs", dict(none=None, some=Qs))
OptInt = U.union("OptInt", dict(none=None, some=INT))
Cmd = U.record("Cmd", dict(cmd=STR, questions=OptQs, timeout=OptInt, level=OptInt))
Cmds = U.list("Cmds", Cmd)
QH = U.record("QH", dict(_dialogs=Dialogs))
SEQS = SeqT(STR)
PathDict = U.dict("PathDict", SEQS, Ctx)
Triple = U.tuple("Triple", [Cmd, Cmds, Cmds])               # (command, enter commands, leave commands of its session wrapper)
Triples = U.list("Triples", Triple)
RunP = U.tuple("RunP", [KeyO, Triples])
Runs = U.list("Runs", RunP)
RB = U.record("RB", dict(deploying=RulesO))


def _q2q(m, a):
    from annet import deploy
    return deploy.rb_question_to_question(m, a)


def _mdr(rules, path, ctx):
    from annet.rulebook import deploying
    return deploying.match_deploy_rule(rules, tuple(path), ctx)


def _wrap(i):
    def impl(rule, hw, dc, df):
        from annet import deploy
        return list(deploy.make_apply_commands(rule, hw, dc, df)[i])
    return impl


def _nl_ok(rules):
    return all(a.send_nl for r in rules.values() for a in r["attrs"]["dialogs"].values()) and all(_nl_ok(r["children"]) for r in rules.values())


q2q = M.opaque("q2q", [Matcher, Answer], Question, impl=_q2q, note="rb_question_to_question(matcher, answer)")
send_nl = M.opaque("send_nl", [Answer], BOOL, impl=lambda a: bool(a.send_nl), note="Answer.send_nl")
mdr = M.opaque("mdr", [RulesO, SEQS, Ctx], RuleU, impl=_mdr, note="deploying.match_deploy_rule(rules, path, context) (proved in specs/deployrule.py)")
bef = M.opaque("bef", [RuleU, Hw, BOOL, BOOL], Cmds, impl=_wrap(0), note="make_apply_commands(rule, hw, do_commit, do_finalize)[0]: the rule's apply logic")
aft = M.opaque("aft", [RuleU, Hw, BOOL, BOOL], Cmds, impl=_wrap(1), note="make_apply_commands(rule, hw, do_commit, do_finalize)[1]")
nl_ok = M.opaque("nl_ok", [RulesO], BOOL, impl=_nl_ok, note="every dialog answer of the rulebook has send_nl (the compiler's default)")
rb_of_hw = M.opaque("rb_of_hw", [Hw], RulesO, impl=lambda hw: _get_rulebook(hw)["deploying"], note="get_rulebook(hw)['deploying']")
keyof = M.opaque("keyof", [Triple], KeyO, impl=lambda t: (tuple(c.cmd for c in t[1]), tuple(c.cmd for c in t[2])), note="the groupby key")


def _get_rulebook(hw):
    from annet import deploy
    return deploy.get_rulebook(hw)


def _mkcmd_native(cmd, questions, timeout, level):
    from annet.annlib.command import Command
    c = Command(cmd, questions=questions, timeout=timeout)
    if level is not None:
        c.level = level
    return c


def _mkcmd(ex, args, kwargs, st, node):
    return V(Cmd, Cmd.mk(cmd=coerce(args[0], STR).t, questions=coerce(args[1], OptQs).t, timeout=coerce(args[2], OptInt).t,
                         level=coerce(args[3], OptInt).t))


def _view_native(x):
    """what the driver sees of a command (list): text, dialogs, timeout, depth"""
    if isinstance(x, (list, tuple)) or hasattr(x, "cmss"):
        return [_view_native(c) for c in x]
    return (x.cmd, x.questions, x.timeout, getattr(x, "level", None))


mkcmd = _mkcmd_native
view = _view_native


def lvl(c):
    """the depth attribute apply_deploy_rulebook attaches to a command (absent on a fresh Command)"""
    return getattr(c, "level", None)
EMPTY = {}


@M.spec
def all_nl(d: Dialogs) -> BOOL:
    return True if not d else (send_nl(dhead(d)[1]) and all_nl(dtail(d)))


@M.spec
def qs_of(d: Dialogs) -> Qs:
    """one Question per dialog of the rule, in the rule's order"""
    return [] if not d else [q2q(dhead(d)[0], dhead(d)[1])] + qs_of(dtail(d))


@M.spec
def params_of(rule: RuleU) -> Params:
    if not rule:
        return {"timeout": 30}
    return {"questions": qs_of(rule["attrs"]["dialogs"]), "timeout": rule["attrs"]["timeout"]}


@M.spec
def filled(rules: RulesO, c: Cmd) -> Cmd:
    """fill_cmd_params: the parameters of the rule matching the command's own text (as a one-element path, empty context)"""
    r = mdr(rules, [c.cmd], EMPTY)
    if not r:
        return c
    return mkcmd(c.cmd, qs_of(r["attrs"]["dialogs"]), r["attrs"]["timeout"], lvl(c))


@M.spec
def cmd_for(path: SEQS, rule: RuleU) -> Cmd:
    """the command sent for one path of the patch: its last row, at depth len(path) - 1, with its rule's parameters"""
    if not rule:
        return mkcmd(path[-1], None, 30, len(path) - 1)
    return mkcmd(path[-1], qs_of(rule["attrs"]["dialogs"]), rule["attrs"]["timeout"], len(path) - 1)


@M.spec
def triples(rest: PathDict, rules: RulesO, hw: Hw, dc: BOOL, df: BOOL) -> Triples:
    if not rest:
        return []
    r = mdr(rules, dhead(rest)[0], dhead(rest)[1])
    return [(cmd_for(dhead(rest)[0], r), bef(r, hw, dc, df), aft(r, hw, dc, df))] + triples(dtail(rest), rules, hw, dc, df)


@M.spec
def texts(cs: Cmds) -> SEQS:
    return [] if not cs else [cs[0].cmd] + texts(cs[1:])


@M.spec
def same_wrap(a: Triple, b: Triple) -> BOOL:
    """two commands belong to the same session wrapper: same enter texts, same leave texts"""
    return texts(a[1]) == texts(b[1]) and texts(a[2]) == texts(b[2])


@M.spec
def grp(x: Triple, acc: Triples, ys: Triples) -> Runs:
    """maximal runs of consecutive commands with the same wrapper; acc is the run being collected, x its first command"""
    if not ys:
        return [(keyof(x), acc)]
    if same_wrap(x, ys[0]):
        return grp(x, acc + [ys[0]], ys[1:])
    return [(keyof(x), acc)] + grp(ys[0], [ys[0]], ys[1:])


@M.spec
def runs(xs: Triples) -> Runs:
    return [] if not xs else grp(xs[0], [xs[0]], xs[1:])


@M.spec
def ne_runs(rs: Runs) -> BOOL:
    return True if not rs else (len(rs[0][1]) > 0 and ne_runs(rs[1:]))


@M.spec
def fills(cs: Cmds, rules: RulesO) -> Cmds:
    """wrapper commands are sent at depth 0 with the parameters of the rule matching their text"""
    return [] if not cs else [filled(rules, mkcmd(cs[0].cmd, cs[0].questions, cs[0].timeout, 0))] + fills(cs[1:], rules)


@M.spec
def firsts(ts: Triples) -> Cmds:
    return [] if not ts else [ts[0][0]] + firsts(ts[1:])


@M.spec
def emit(rs: Runs, rules: RulesO) -> Cmds:
    """per run: enter commands of its wrapper, the run's commands in order, leave commands"""
    if not rs:
        return []
    return fills(rs[0][1][0][1], rules) + (firsts(rs[0][1]) + (fills(rs[0][1][0][2], rules) + emit(rs[1:], rules)))


def _mk_qh(ex, args, kwargs, st, node):
    return V(QH, QH.mk(_dialogs=coerce(args[0], Dialogs).t))


def _match_deploy_rule(ex, args, kwargs, st, node):
    return V(RuleU, mdr.decl()(coerce(args[0], RulesO).t, coerce(args[1], SEQS).t, coerce(args[2], Ctx).t))


def _make_apply_commands(ex, args, kwargs, st, node):
    a = [coerce(args[0], RuleU).t, coerce(args[1], Hw).t, coerce(args[2], BOOL).t, coerce(args[3], BOOL).t]
    return PyTup([V(Cmds, bef.decl()(*a)), V(Cmds, aft.decl()(*a))])


def _command(ex, args, kwargs, st, node):
    """Command(text, **params): params is the Params value of make_cmd_params"""
    p = kwargs.get("**")
    if p is None or set(kwargs) != {"**"} or len(args) != 1:
        raise Unsupported("Command(...) in another shape than Command(text, **cmd_params)")
    p = coerce(p, Params)
    full = Params.is_(p.t, "full")
    pf, pp = Params.val(p.t, "full"), Params.val(p.t, "plain")
    qs = z3.If(full, OptQs.mk("some", PFull.get(pf, "questions")), OptQs.mk("none"))
    to = OptInt.mk("some", z3.If(full, PFull.get(pf, "timeout"), PPlain.get(pp, "timeout")))
    return V(Cmd, Cmd.mk(cmd=coerce(args[0], STR).t, questions=qs, timeout=to, level=OptInt.mk("none")))


def _cmdlist(ex, args, kwargs, st, node):
    return V(Cmds, Cmds.nil)


def _add_cmd(ex, recv, recv_node, args, kwargs, st, node):
    from pyvc.values import concat
    ex.assign_to(recv_node, concat(recv, PyTup([args[0]], True)), st)
    return NONE_V


Cmds.methods = {"add_cmd": _add_cmd}


def _groupby(ex, args, kwargs, st, node):
    """itertools.groupby(xs, key=f): maximal runs of consecutive elements with equal keys (model: spec `runs`); that the key function
    equates exactly the commands of one session wrapper (`same_wrap`) is an obligation, for two arbitrary elements"""
    if set(kwargs) != {"key"} or len(args) != 1 or not isinstance(kwargs["key"], PyFn):
        raise Unsupported("groupby() in another shape than groupby(xs, key=f)")
    xs = coerce(args[0], Triples)
    a, b = fresh(Triple, "grp_a"), fresh(Triple, "grp_b")
    from pyvc.values import eq as eq_values
    ka = kwargs["key"].call(ex, [a], {}, st, node)
    kb = kwargs["key"].call(ex, [b], {}, st, node)
    ex.ctx.oblige("safety", st, eq_values(ka, kb) == same_wrap.sym_call(ex, [a, b], {}, st, node).t, node.lineno,
                  "the groupby key equates exactly the commands with the same enter and leave command texts")
    return runs.sym_call(ex, [xs], {}, st, node)


def _get_rulebook_sym(ex, args, kwargs, st, node):
    return V(RB, RB.mk(deploying=rb_of_hw.decl()(coerce(args[0], Hw).t)))


M.export(RulebookQuestionHandler=PyFn("RulebookQuestionHandler", _mk_qh),
         deploying=PyConstObj("deploying", dict(match_deploy_rule=PyFn("match_deploy_rule", _match_deploy_rule))),
         make_apply_commands=PyFn("make_apply_commands", _make_apply_commands), Command=PyFn("Command", _command),
         CommandList=PyFn("CommandList", _cmdlist), get_rulebook=PyFn("get_rulebook", _get_rulebook_sym),
         itertools=PyConstObj("itertools", dict(groupby=PyFn("groupby", _groupby))),
         mkcmd=PyFn("mkcmd", _mkcmd), lvl=PyFn("lvl", lambda ex, args, kwargs, st, node: ex.getattr_(args[0], "level", st, node)), view=PyFn("view", lambda ex, args, kwargs, st, node: args[0]),
         EMPTY=Lazy(lambda: V(Ctx, Ctx.empty_dict_term())))

M.lemma("rulebook_answers_send_nl", vars=dict(rules=RulesO, p=SEQS, c=Ctx), hyps=["nl_ok(rules)"],
        goal="all_nl(mdr(rules, p, c)['attrs']['dialogs']) if mdr(rules, p, c) else True", assumed=True, pattern="mdr(rules, p, c)",
        properties=["C09"], note="a rulebook whose answers all have send_nl (what the compiler produces by default) only yields rules "
        "with such answers; rb_question_to_question raises otherwise")
M.lemma("groups_are_never_empty", vars=dict(x=Triple, acc=Triples, ys=Triples), hyps=["len(acc) > 0"], goal="ne_runs(grp(x, acc, ys))",
        induct="ys", general=["x", "acc"], ih=[dict(x="x", acc="acc + [ys[0]]"), dict(x="ys[0]", acc="[ys[0]]")], properties=["C09"])

M.lemma("runs_are_never_empty", vars=dict(xs=Triples), hyps=[], goal="ne_runs(runs(xs))", use=["groups_are_never_empty"],
        instances=[("groups_are_never_empty", dict(x="xs[0]", acc="[xs[0]]", ys="xs[1:]"))], pattern="grp(xs[0], [xs[0]], xs[1:])", properties=["C09"])
M.lemma("texts_comprehension", vars=dict(cs=Cmds), hyps=[], goal="[cmd.cmd for cmd in cs] == texts(cs)", induct="cs",
        pattern="[cmd.cmd for cmd in cs]", properties=["C09"])

Q2Q = M.contract(F, "rb_question_to_question", params=dict(q=Matcher, a=Answer), ret=Question, trusted=True,
                 requires=["send_nl(a)"], ensures=["result == q2q(q, a)"],
                 note="assumed: a function of (matcher, answer); raises for an answer without send_nl (excluded by the precondition)",
                 properties=["C09"])

MCP = M.contract(F, "make_cmd_params", params=dict(rule=RuleU), ret=Params, locals=dict(qa_list=Qs),
                 requires=["all_nl(rule['attrs']['dialogs']) if rule else True"],
                 ensures=["result == params_of(rule)"],
                 loops={1: dict(match="qa_handler._dialogs.items()",
                                inv=["qa_list + qs_of(_rest1) == qs_of(rule['attrs']['dialogs'])", "all_nl(_rest1)"])},
                 calls={"rb_question_to_question": Q2Q},
                 canaries=["result == {'timeout': 30}"], properties=["C09"],
                 note="a command's parameters are the rule's timeout and one Question per dialog, in order; (30 s, no dialogs) without a rule; "
                      "timeouts are numbers that are only copied and compared for equality (floats at run time, integers in the encoding)")

FCP = M.contract(F, "fill_cmd_params", params=dict(rules=RulesO, cmd=Cmd), ret=NONE, modifies=["cmd"],
                 requires=["nl_ok(rules)"], use=["rulebook_answers_send_nl"],
                 ensures=["view(cmd) == view(filled(rules, old(cmd)))"],
                 calls={"make_cmd_params": MCP},
                 canaries=["view(cmd) == view(old(cmd))"], properties=["C09"],
                 note="session-wrapper commands get the parameters of the rule matching their own text, and are left alone without one")

ADR = M.contract(F, "apply_deploy_rulebook", params=dict(hw=Hw, cmd_paths=PathDict, do_finalize=BOOL, do_commit=BOOL), ret=Cmds,
                 defaults=dict(do_finalize=True, do_commit=True), locals=dict(cmds_with_apply=Triples, cmdlist=Cmds),
                 requires=["nl_ok(rb_of_hw(hw))", "forall_paths_nonempty(cmd_paths)"],
                 use=["rulebook_answers_send_nl", "runs_are_never_empty", "texts_comprehension"],
                 ensures=["view(result) == view(emit(runs(triples(cmd_paths, rb_of_hw(hw), hw, do_commit, do_finalize)), rb_of_hw(hw)))"],
                 loops={1: dict(match="cmd_paths.items()",
                                inv=["cmds_with_apply + triples(_rest1, rules, hw, do_commit, do_finalize) == "
                                     "triples(cmd_paths, rules, hw, do_commit, do_finalize)", "forall_paths_nonempty(_rest1)"]),
                        2: dict(match="itertools.groupby(cmds_with_apply, key=_key)",
                                inv=["cmdlist + emit(_rest2, rules) == emit(_it2, rules)", "ne_runs(_rest2)"]),
                        3: dict(match="before", inv=["cmdlist + fills(_rest3, rules) == entry(cmdlist) + fills(before, rules)"]),
                        4: dict(match="cmd_before_after", inv=["cmdlist + firsts(_rest4) == entry(cmdlist) + firsts(cmd_before_after)"]),
                        5: dict(match="after", inv=["cmdlist + fills(_rest5, rules) == entry(cmdlist) + fills(after, rules)"])},
                 calls={"make_cmd_params": MCP, "fill_cmd_params": FCP},
                 canaries=["len(result) == 0"], properties=["C09"],
                 note="relative to match_deploy_rule (proved in specs/deployrule.py), the rule's apply logic (opaque pair of command lists; "
                      "common.apply is proved in specs/rbcommon.py), itertools.groupby modelled as maximal runs of equal keys")


@M.spec
def forall_paths_nonempty(d: PathDict) -> BOOL:
    """every command path has at least its own row"""
    return True if not d else (len(dhead(d)[0]) > 0 and forall_paths_nonempty(dtail(d)))


# ---- native evaluation
_DEPLOY = """
save                %timeout=77
    dialog: Are you sure? [Y/N] ::: Y
    dialog: /overwrite .*\\?/ ::: yes
commit              %timeout=90
interface *
    dialog: really? ::: y
    shutdown        %timeout=5
"""


def _rules():
    from bounded.common import setup_annet
    setup_annet()
    from annet.rulebook.deploying import compile_deploying_text
    return compile_deploying_text(_DEPLOY, "huawei")


def _mcp_inputs():
    rules = _rules()
    yield dict(rule={})
    yield dict(rule=None)
    for r in rules.values():
        yield dict(rule=r)
        for c in r["children"].values():
            yield dict(rule=c)
    from annet.rulebook import deploying
    yield dict(rule=deploying.match_deploy_rule(rules, ("nothing matches",), {}))


def _fcp_inputs():
    from annet.annlib.command import Command
    rules = _rules()
    for text in ("save", "save all", "commit", "q", "interface e1", "shutdown", ""):
        yield dict(rules=rules, cmd=Command(text))
        yield dict(rules=rules, cmd=Command(text, timeout=20, questions=[]))


MCP.native_inputs = _mcp_inputs
FCP.native_inputs = _fcp_inputs

ADR.owned_elements = {
    "before": "the Command objects of the list returned by the rule's apply logic are referenced by nothing else that is read afterwards "
              "(every shipped apply logic builds them with Command(...) in the call; the other path to them, cmd_before_after[i][1], is "
              "bound to the unused name _before)",
    "after": "as for `before` (cmd_before_after[i][2] is bound to the unused name _after)"}


def _adr_inputs():
    """command paths of small patch trees on several hardware models, incl. Aruba trees whose rows alternate between the two session
    wrappers of the shipped aruba rulebook (ap-env context / configuration mode)"""
    from bounded.common import setup_annet
    setup_annet()
    import bounded.gen_rb as g
    import bounded.c09 as b
    trees = [([["a 1", None]], ()), ([["a 1", None], ["b 2", None], ["c 3", None]], (1,)),
             ([["a 1", None], ["b 2", None], ["c 3", None], ["d 4", None]], (0, 2)),
             ([["interface e1", [["mtu 9000", None], ["shutdown", None]]], ["save", None], ["x", None]], (2,)),
             ([["a 1", None], ["interface e1", [["mtu 1", None]]], ["b 1", None]], (0, 2)), ([], ())]
    for model in ("Aruba", "Huawei CE6870", "Cisco", "Arista", "Juniper"):
        try:
            hw = g.hw_of(model)
            cmd_fmt = b._formatters(hw)[1]
        except Exception:
            continue
        for nested, tagged in trees:
            pt = b.pt_build_ctx(nested, set(tagged))
            paths = cmd_fmt.cmd_paths(pt)
            for dc, df in b.FLAGS:
                yield dict(hw=hw, cmd_paths=paths, do_finalize=df, do_commit=dc)


ADR.native_inputs = _adr_inputs
