"""Sidecar contracts for annet/deploy.py:make_cmd_params / fill_cmd_params (C09): each command carries the timeout and the dialog
answers of the deploy rule that matches it, or the defaults (30 s, no dialogs) when there is no rule."""
import z3
from pyvc.dsl import SpecModule, Lazy
from pyvc.types import *
from pyvc.values import V, PyConstObj, PyFn, NONE_V, coerce, PyTup
from pyvc.native import dhead, dtail, dput, dhas

M = SpecModule("cmdparams")
U = M.U
F = "annet/deploy.py"

Matcher = U.opaque("Matcher")
Answer = U.opaque("Answer")
Question = U.opaque("Question")
RulesO = U.opaque("RulesO")
Dialogs = U.dict("Dialogs", Matcher, Answer)
Attrs = U.record("Attrs", dict(dialogs=Dialogs, timeout=INT))
Rule = U.record("Rule", dict(attrs=Attrs))
RuleU = U.union("RuleU", dict(empty=None, some=Rule))       # {} / None  |  a compiled deploy rule
RuleU.truthy_tags = ("some",)
Qs = U.list("Qs", Question)
PFull = U.record("PFull", dict(questions=Qs, timeout=INT))
PPlain = U.record("PPlain", dict(timeout=INT))
Params = U.union("Params", dict(full=PFull, plain=PPlain))
OptQs = U.union("OptQs", dict(none=None, some=Qs))
OptInt = U.union("OptInt", dict(none=None, some=INT))
Cmd = U.record("Cmd", dict(cmd=STR, questions=OptQs, timeout=OptInt))
QH = U.record("QH", dict(_dialogs=Dialogs))
SEQS = SeqT(STR)
Ctx = U.opaque("Ctx")


def _q2q(m, a):
    from annet import deploy
    return deploy.rb_question_to_question(m, a)


def _mdr(rules, cmd):
    from annet.rulebook import deploying
    return deploying.match_deploy_rule(rules, (cmd,), {})


q2q = M.opaque("q2q", [Matcher, Answer], Question, impl=_q2q, note="rb_question_to_question(matcher, answer)")
send_nl = M.opaque("send_nl", [Answer], BOOL, impl=lambda a: bool(a.send_nl), note="Answer.send_nl")
rule_for = M.opaque("rule_for", [RulesO, STR], RuleU, impl=_mdr, note="match_deploy_rule(rules, (cmd,), {})")


@M.spec
def all_nl(d: Dialogs) -> BOOL:
    return True if not d else (send_nl(dhead(d)[1]) and all_nl(dtail(d)))


@M.spec
def qs_of(d: Dialogs) -> Qs:
    """one Question per dialog of the rule, in the rule's order"""
    return [] if not d else [q2q(dhead(d)[0], dhead(d)[1])] + qs_of(dtail(d))


@M.spec
def params_of(rule: RuleU) -> Params:
    if not rule:
        return {"timeout": 30}
    return {"questions": qs_of(rule["attrs"]["dialogs"]), "timeout": rule["attrs"]["timeout"]}


def _mk_qh(ex, args, kwargs, st, node):
    return V(QH, QH.mk(_dialogs=coerce(args[0], Dialogs).t))


def _match_deploy_rule(ex, args, kwargs, st, node):
    path = coerce(args[1], SEQS)
    return V(RuleU, rule_for.decl()(coerce(args[0], RulesO).t, path.t[0]))


M.export(RulebookQuestionHandler=PyFn("RulebookQuestionHandler", _mk_qh),
         deploying=PyConstObj("deploying", dict(match_deploy_rule=PyFn("match_deploy_rule", _match_deploy_rule))))

Q2Q = M.contract(F, "rb_question_to_question", params=dict(q=Matcher, a=Answer), ret=Question, trusted=True,
                 requires=["send_nl(a)"], ensures=["result == q2q(q, a)"],
                 note="assumed: a function of (matcher, answer); raises for an answer without send_nl (excluded by the precondition)",
                 properties=["C09"])

MCP = M.contract(F, "make_cmd_params", params=dict(rule=RuleU), ret=Params, locals=dict(qa_list=Qs),
                 requires=["all_nl(rule['attrs']['dialogs']) if rule else True"],
                 ensures=["result == params_of(rule)"],
                 loops={1: dict(match="qa_handler._dialogs.items()",
                                inv=["qa_list + qs_of(_rest1) == qs_of(rule['attrs']['dialogs'])", "all_nl(_rest1)"])},
                 calls={"rb_question_to_question": Q2Q},
                 canaries=["result == {'timeout': 30}"], properties=["C09"],
                 note="a command's parameters are the rule's timeout and one Question per dialog, in order; (30 s, no dialogs) without a rule; timeouts are numbers that are only copied and compared for equality (floats at run time, integers in the encoding)")

FCP = M.contract(F, "fill_cmd_params", params=dict(rules=RulesO, cmd=Cmd), ret=NONE, modifies=["cmd"],
                 requires=["all_nl(rule_for(rules, cmd.cmd)['attrs']['dialogs']) if rule_for(rules, cmd.cmd) else True"],
                 ensures=["cmd.cmd == old(cmd).cmd",
                          "(cmd.timeout == rule_for(rules, cmd.cmd)['attrs']['timeout'] and "
                          " cmd.questions == qs_of(rule_for(rules, cmd.cmd)['attrs']['dialogs'])) if rule_for(rules, cmd.cmd) else cmd == old(cmd)"],
                 calls={"make_cmd_params": MCP},
                 canaries=["cmd == old(cmd)"], properties=["C09"],
                 note="session-wrapper commands get the parameters of the rule matching their own text, and are left alone without one")


# ---- native evaluation
_DEPLOY = """
save                %timeout=77
    dialog: Are you sure? [Y/N] ::: Y
    dialog: /overwrite .*\\?/ ::: yes
commit              %timeout=90
interface *
    dialog: really? ::: y
    shutdown        %timeout=5
"""


def _rules():
    from bounded.common import setup_annet
    setup_annet()
    from annet.rulebook.deploying import compile_deploying_text
    return compile_deploying_text(_DEPLOY, "huawei")


def _mcp_inputs():
    rules = _rules()
    yield dict(rule={})
    yield dict(rule=None)
    for r in rules.values():
        yield dict(rule=r)
        for c in r["children"].values():
            yield dict(rule=c)
    from annet.rulebook import deploying
    yield dict(rule=deploying.match_deploy_rule(rules, ("nothing matches",), {}))


def _fcp_inputs():
    from annet.annlib.command import Command
    rules = _rules()
    for text in ("save", "save all", "commit", "q", "interface e1", "shutdown", ""):
        yield dict(rules=rules, cmd=Command(text))
        yield dict(rules=rules, cmd=Command(text, timeout=20, questions=[]))


MCP.native_inputs = _mcp_inputs
FCP.native_inputs = _fcp_inputs
