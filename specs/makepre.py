"""Sidecar contract for annet/annlib/patching.py:make_pre (C01, C16): grouping of diff rows by (rule, key)."""
import itertools
from collections import OrderedDict as odict

from pyvc.dsl import SpecModule, Lazy
from pyvc.types import *
from pyvc.values import V, PyConstObj
from pyvc.native import dhead, dtail, dput, dhas

from annet.annlib.types import Op

M = SpecModule("makepre")
U = M.U
F = "annet/annlib/patching.py"

OpT = U.enum("OpT", ["added", "removed", "affected", "moved", "unchanged"])
Key = U.opaque("Key")
AttrsRest = U.opaque("AttrsRest")
MAttrs = U.record("MAttrs", dict(multiline=BOOL, rest=AttrsRest))
Match = U.record("Match", dict(raw_rule=STR, key=Key, attrs=MAttrs))
OptMatch = U.union("OptMatch", dict(none=None, some=Match))
DiffItem = U.tuple("DiffItem", [OpT, STR, "Diff", Match])
Diff = U.list("Diff", DiffItem)
BItem = U.record("BItem", dict(row=STR, children="Pre"))
BList = U.list("BList", BItem)
Buckets = U.record("Buckets", dict(added=BList, removed=BList, moved=BList, affected=BList, unchanged=BList))
Items = U.dict("Items", Key, Buckets)
PreRule = U.record("PreRule", dict(attrs=MAttrs, items=Items))
Pre = U.dict("Pre", STR, PreRule)

M.export(Op=Lazy(lambda: PyConstObj("Op", dict(ADDED=V(OpT, OpT.const("added")), REMOVED=V(OpT, OpT.const("removed")),
                                               AFFECTED=V(OpT, OpT.const("affected")), MOVED=V(OpT, OpT.const("moved")),
                                               UNCHANGED=V(OpT, OpT.const("unchanged"))))))


@M.spec
def empty_buckets() -> Buckets:
    return {Op.ADDED: [], Op.REMOVED: [], Op.MOVED: [], Op.AFFECTED: [], Op.UNCHANGED: []}


@M.spec
def bucket_append(b: Buckets, op: OpT, item: BItem) -> Buckets:
    return {Op.ADDED: b[Op.ADDED] + [item] if op == Op.ADDED else b[Op.ADDED],
            Op.REMOVED: b[Op.REMOVED] + [item] if op == Op.REMOVED else b[Op.REMOVED],
            Op.MOVED: b[Op.MOVED] + [item] if op == Op.MOVED else b[Op.MOVED],
            Op.AFFECTED: b[Op.AFFECTED] + [item] if op == Op.AFFECTED else b[Op.AFFECTED],
            Op.UNCHANGED: b[Op.UNCHANGED] + [item] if op == Op.UNCHANGED else b[Op.UNCHANGED]}


@M.spec
def pre_add(pre: Pre, op: OpT, row: STR, chpre: Pre, match: Match) -> Pre:
    """one diff row goes to the bucket `op` of the group (raw_rule, key) of its match; rule and key entries are created at
    their first occurrence (so groups are in first-occurrence order) and keep the attrs of the first match"""
    r = pre[match["raw_rule"]] if dhas(pre, match["raw_rule"]) else {"attrs": match["attrs"], "items": odict()}
    b = r["items"][match["key"]] if dhas(r["items"], match["key"]) else empty_buckets()
    return dput(pre, match["raw_rule"],
                {"attrs": r["attrs"], "items": dput(r["items"], match["key"], bucket_append(b, op, {"row": row, "children": chpre}))})


@M.spec
def spec_pre(diff: Diff, acc: Pre) -> Pre:
    if not diff:
        return acc
    return spec_pre(diff[1:], pre_add(acc, diff[0][0], diff[0][1], spec_pre(diff[0][2], odict()), diff[0][3]))


@M.spec
def no_multiline(diff: Diff) -> BOOL:
    """no row of the diff (at any depth) is governed by a %multiline rule (those get the fake __MULTILINE_BODY__ match)"""
    return True if not diff else (not diff[0][3]["attrs"]["multiline"] and no_multiline(diff[0][2]) and no_multiline(diff[1:]))


def _mk(op, row, key, children=(), raw=None):
    return (op, row, list(children), {"raw_rule": raw or row.split()[0] + " *", "key": key, "attrs": {"multiline": False, "logic": None,
                                                                                                    "context": None, "comment": []}})


def _pre_inputs():
    ops = [Op.ADDED, Op.REMOVED, Op.AFFECTED, Op.UNCHANGED, Op.MOVED]
    leaves = [_mk(op, "a %d" % k, (str(k),)) for op in ops[:3] for k in (1, 2)] + [_mk(Op.ADDED, "b 1", ("1",))]
    blocks = [_mk(Op.AFFECTED, "a 1", ("1",), ch) for ch in ([leaves[0]], [leaves[1], leaves[6]])]
    items = leaves + blocks
    for n in range(0, 4):
        for combo in itertools.islice(itertools.product(items, repeat=n), 1500):
            yield dict(diff=list(combo), _parent_match=None)


M.contract(F, "make_pre", params=dict(diff=Diff, _parent_match=OptMatch), defaults=dict(_parent_match=None), ret=Pre,
           locals=dict(pre=Pre),
           requires=["no_multiline(diff)", "not (_parent_match and _parent_match['attrs']['multiline'])"],
           ensures=["result == spec_pre(diff, {})"],
           loops={1: dict(match="diff", inv=["no_multiline(_rest1)", "spec_pre(_rest1, pre) == spec_pre(diff, {})"])},
           canaries=["len(result) == 0"], inputs=_pre_inputs, properties=["C01", "C16"],
           note="restricted by precondition to diffs without %multiline rules (the fake-match branch is bounded only)")
