"""Sidecar contracts for annet/vendors/registry.py: which vendor Registry.match chooses (C18)."""
import itertools

import z3
from pyvc.dsl import SpecModule, Lazy
from pyvc.types import *
from pyvc.values import V, PyConstObj, PyFn, PyTup, NONE_V, coerce
from pyvc.native import dhead, dtail, dput, dhas

from annet.annlib.netdev.views.hardware import HardwareView
from annet.vendors.registry import sentinel, GENERIC_VENDOR

M = SpecModule("registry")
U = M.U
F = "annet/vendors/registry.py"

Vendor = U.opaque("Vendor")                   # a vendor object
HWV = U.opaque("HWV")                         # a HardwareView
HwArg = U.union("HwArg", dict(text=STR, view=HWV))
HwArg.pykinds = {"str": "text"}
Vendors = U.dict("Vendors", STR, Vendor)
Matchers = U.opaque("Matchers")               # the (unused) _matchers table
Reg = U.record("Reg", dict(vendors=Vendors, _matchers=Matchers))
Hit = U.tuple("Hit", [Vendor, INT])
Hits = SeqT(Hit)
OptVendor = U.union("OptVendor", dict(none=None, some=Vendor))
DefArg = U.union("DefArg", dict(sentinel=None, none=None, some=Vendor))     # the `default` argument
SEQS = SeqT(STR)

vmatch = M.opaque("vmatch", [Vendor], SEQS, impl=lambda v: list(v.match()), note="vendor.match(): the hardware paths a vendor claims")
hwm = M.opaque("hwm", [HWV, STR], BOOL, impl=lambda hw, item: bool(hw.match(item)), note="HardwareView.match(path)")
hv_of = M.opaque("hv_of", [STR], HWV, impl=lambda s: HardwareView(s, ""), note="HardwareView(model, '')")
sdesc = M.opaque("sdesc", [Hits], Hits, impl=lambda xs: sorted(xs, key=lambda x: x[1], reverse=True),
                 note="sorted(matched, key=itemgetter(1), reverse=True)")
generic = M.opaque("generic", [], Vendor, impl=lambda: GENERIC_VENDOR, note="the module constant GENERIC_VENDOR")


def _vendor_match(ex, recv, recv_node, args, kwargs, st, node):
    return V(SEQS, vmatch.decl()(recv.t))


def _hw_match(ex, recv, recv_node, args, kwargs, st, node):
    return V(BOOL, hwm.decl()(recv.t, coerce(args[0], STR).t))


Vendor.methods = {"match": _vendor_match}
HWV.methods = {"match": _hw_match}


def _hardware_view(ex, args, kwargs, st, node):
    return V(HWV, hv_of.decl()(coerce(args[0], STR).t))


def _sorted(ex, args, kwargs, st, node):
    # only the call shape used by Registry.match
    if set(kwargs) != {"key", "reverse"}:
        from pyvc.values import Unsupported
        raise Unsupported("sorted() in another shape than sorted(xs, key=itemgetter(1), reverse=True)")
    return V(Hits, sdesc.decl()(coerce(args[0], Hits).t))


def _iter(ex, args, kwargs, st, node):
    return args[0]


def _next(ex, args, kwargs, st, node):
    xs = coerce(args[0], Hits)
    ex.ctx.oblige("safety", st, z3.Length(xs.t) > 0, node.lineno, "next() of an empty iterator")
    return V(Hit, xs.t[0])


M.export(HardwareView=PyFn("HardwareView", _hardware_view), sorted=PyFn("sorted", _sorted), iter=PyFn("iter", _iter),
         next=PyFn("next", _next), itemgetter=PyFn("itemgetter", lambda ex, args, kwargs, st, node: NONE_V),
         sentinel=Lazy(lambda: V(DefArg, DefArg.mk("sentinel"))),
         GENERIC_VENDOR=Lazy(lambda: V(Vendor, generic.decl()())))


@M.spec
def hits_of(v: Vendor, items: SEQS, hw: HWV) -> Hits:
    """the paths of one vendor that the hardware matches, each with its number of dots (= depth in the hardware tree)"""
    if not items:
        return []
    return ([(v, items[0].count("."))] if hwm(hw, items[0]) else []) + hits_of(v, items[1:], hw)


@M.spec
def all_hits(vs: Vendors, hw: HWV) -> Hits:
    """in registration order"""
    return [] if not vs else hits_of(dhead(vs)[1], vmatch(dhead(vs)[1]), hw) + all_hits(dtail(vs), hw)


@M.spec
def max_dots(hs: Hits) -> INT:
    return -1 if not hs else (hs[0][1] if hs[0][1] >= max_dots(hs[1:]) else max_dots(hs[1:]))


@M.spec
def first_with(hs: Hits, n: INT) -> Vendor:
    """vendor of the first hit with n dots (hs has one)"""
    return hs[0][0] if (len(hs) <= 1 or hs[0][1] == n) else first_with(hs[1:], n)


@M.spec
def as_hw(hw: HwArg) -> HWV:
    return hv_of(hw) if isinstance(hw, str) else hw


@M.spec
def all_le(hs: Hits, n: INT) -> BOOL:
    return True if not hs else (hs[0][1] <= n and all_le(hs[1:], n))


@M.spec
def nonneg(hs: Hits) -> BOOL:
    return True if not hs else (hs[0][1] >= 0 and nonneg(hs[1:]))


@M.spec
def has_hit(hs: Hits, v: Vendor, n: INT) -> BOOL:
    return False if not hs else ((hs[0][0] == v and hs[0][1] == n) or has_hit(hs[1:], v, n))


# "the vendor chosen is the most specific registered one": no matching path of any registered vendor has more dots than the
# chosen vendor's, and the chosen vendor does own a matching path with that many dots
M.lemma("all_le_mono", vars=dict(hs=Hits, n=INT, m=INT), hyps=["all_le(hs, n)", "n <= m"], goal="all_le(hs, m)", induct="hs",
        properties=["C18"])
M.lemma("max_dots_bounds_every_hit", vars=dict(hs=Hits), hyps=[], goal="all_le(hs, max_dots(hs))", induct="hs",
        use=["all_le_mono"], properties=["C18"])
M.lemma("chosen_vendor_owns_a_most_specific_hit", vars=dict(hs=Hits), hyps=["len(hs) > 0", "nonneg(hs)"],
        goal="has_hit(hs, first_with(hs, max_dots(hs)), max_dots(hs))", induct="hs", properties=["C18"])


M.lemma("stable_sort_descending_head", vars=dict(hs=Hits), hyps=["len(hs) > 0"],
        goal="sdesc(hs)[0][0] == first_with(hs, max_dots(hs)) and len(sdesc(hs)) == len(hs)", assumed=True,
        pattern="sdesc(hs)", properties=["C18"],
        note="A3 for this call: list.sort / sorted is a stable permutation ordered by the key, so with reverse=True the head is the "
             "first element (in the original order) among those with the largest key")


def _reg_inputs():
    from annet.vendors.registry import Registry
    from annet.vendors import registry_connector
    import annet.vendors.library  # noqa: F401
    full = registry_connector.get()
    names = sorted(full.vendors)
    models = ["Cisco Nexus 3548", "Cisco ASR 9001", "Huawei OptiXtrans DC908", "Huawei CE6870", "Arista DCS-7050", "Juniper MX960",
              "Nokia 7750", "Unknown Box 1", "", "Cisco Catalyst 2960", "Huawei NE40E", "RouterOS CCR", "B4com CS2148", "H3C S6850"]
    orders = [names, names[::-1], names[3:] + names[:3], names[::2], names[1::2], names[:4], []]
    for order in orders:
        for model in models:
            for dflt in ("sentinel", None):
                r = Registry()
                for n in order:
                    r.vendors[n] = full.vendors[n]
                yield dict(self=r, hw=model, default=(sentinel if dflt == "sentinel" else None))


M.contract(F, "Registry.match", params=dict(self=Reg, hw=HwArg, default=DefArg), defaults=dict(default=Lazy(lambda: V(DefArg, DefArg.mk("sentinel")))),
           ret=DefArg, locals=dict(matched=Hits),
           ensures=["(result == first_with(all_hits(self.vendors, as_hw(hw)), max_dots(all_hits(self.vendors, as_hw(hw))))) "
                    "if len(all_hits(self.vendors, as_hw(hw))) > 0 else "
                    "(result == (GENERIC_VENDOR if default is sentinel else default))"],
           loops={1: dict(match="self.vendors.items()", inv=["matched + all_hits(_rest1, as_hw(hw)) == all_hits(self.vendors, as_hw(hw))"]),
                  2: dict(match="vendor.match()",
                          inv=["matched + hits_of(vendor, _rest2, as_hw(hw)) + all_hits(_rest1, as_hw(hw)) == all_hits(self.vendors, as_hw(hw))"])},
           use=["stable_sort_descending_head"],
           canaries=["result == default"], inputs=_reg_inputs, properties=["C18"],
           note="relative to vendor.match() / HardwareView.match (opaque) and the stable-sort axiom")
