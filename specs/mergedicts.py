"""Sidecar contract for annet/annlib/lib.py:merge_dicts on config trees (C10, C17, C19): the merge of several trees is their union."""
import itertools
from collections import OrderedDict as odict

import z3
from pyvc.dsl import SpecModule, Lazy
from pyvc.types import *
from pyvc.values import V, PyConstObj, PyFn, NONE_V, coerce, PyTup
from pyvc.native import dhead, dtail, dput, dhas

M = SpecModule("mergedicts")
U = M.U
F = "annet/annlib/lib.py"

Tree = U.dict("Tree", STR, "Tree")          # a config tree: every value is a (possibly empty) tree
TreeL = SeqT(Tree)
SEQS = SeqT(STR)


@M.spec
def sel(args: TreeL, key: STR) -> TreeL:
    """the sub-trees under `key` of the trees that have it"""
    return [x[key] for x in args if key in x]


@M.spec
def alleq(args: TreeL) -> BOOL:
    """every tree equals its successor"""
    return all(map(lambda x: x[0] == x[1], zip(args[:-1], args[1:])))


@M.spec
def mitems(d: Tree, args: TreeL, merged: Tree) -> Tree:
    """merged after the rows of d: each row maps to the merge of all sub-trees under that row"""
    return merged if not d else mitems(dtail(d), args, dput(merged, dhead(d)[0], mu(sel(args, dhead(d)[0]))))


@M.spec
def mfold(rest: TreeL, args: TreeL, merged: Tree) -> Tree:
    return merged if not rest else mfold(rest[1:], args, mitems(rest[0], args, merged))


@M.spec
def mu(args: TreeL) -> Tree:
    if len(args) == 0:
        return {}
    if len(args) == 1:
        return args[0]
    if alleq(args):
        return args[0]
    return mfold(args, args, {})


def _md_inputs():
    rows = ["a", "b", "c"]

    def trees(depth):
        yield odict()
        for n in (1, 2):
            for keys in itertools.permutations(rows, n):
                if depth == 0:
                    yield odict((k, odict()) for k in keys)
                else:
                    for i, sub in enumerate(itertools.islice(trees(depth - 1), 5)):
                        yield odict((k, (sub if j == 0 else odict())) for j, k in enumerate(keys))
    ts = list(itertools.islice(trees(1), 40))
    yield dict(args=[])
    for a in ts[:12]:
        yield dict(args=[a])
    for a in ts:
        for b in ts[::3]:
            yield dict(args=[a, b])
    for a in ts[::5]:
        for b in ts[::7]:
            for c in ts[::6]:
                yield dict(args=[a, b, c])


M.contract(F, "merge_dicts", params=dict(args=TreeL), star="args", ret=Tree, locals=dict(merged=Tree), comp_types={"*": TreeL},
           ensures=["result == mu(args)"],
           loops={1: dict(match="args", inv=["mfold(_rest1, args, merged) == mfold(args, args, {})"]),
                  2: dict(match="dictionary.items()", inv=["mfold(_rest1, args, mitems(_rest2, args, merged)) == mfold(args, args, {})"])},
           canaries=["len(result) == 0"], inputs=_md_inputs, properties=["C10", "C17"],
           note="on config trees (every value a dict): the list / scalar branches of merge_dicts are unreachable for this type and are "
                "bounded only")


# ---------------------------------------------------------------------------------------------------------------------
# "the merge is the union": lemmas over the spec (which the code is proved equal to)
@M.spec
def anyhas(args: TreeL, k: STR) -> BOOL:
    """some tree has row k at its top level"""
    return False if not args else (dhas(args[0], k) or anyhas(args[1:], k))


M.lemma("has_mitems", vars=dict(d=Tree, args=TreeL, m=Tree, k=STR), hyps=[],
        goal="dhas(mitems(d, args, m), k) == (dhas(m, k) or dhas(d, k))", induct="d", properties=["C10", "C17"])
M.lemma("has_mfold", vars=dict(rest=TreeL, args=TreeL, m=Tree, k=STR), hyps=[],
        goal="dhas(mfold(rest, args, m), k) == (dhas(m, k) or anyhas(rest, k))", induct="rest", use=["has_mitems"],
        properties=["C10", "C17"])
M.lemma("get_mitems", vars=dict(d=Tree, args=TreeL, m=Tree, k=STR), hyps=[],
        goal="mitems(d, args, m)[k] == (mu(sel(args, k)) if dhas(d, k) else m[k])", induct="d", properties=["C10", "C17"])
M.lemma("get_mfold", vars=dict(rest=TreeL, args=TreeL, m=Tree, k=STR), hyps=[],
        goal="mfold(rest, args, m)[k] == (mu(sel(args, k)) if anyhas(rest, k) else m[k])", induct="rest", use=["get_mitems"],
        properties=["C10", "C17"])


@M.spec
def has_path(t: Tree, p: SEQS) -> BOOL:
    """the block path p (row, row below it, ...) exists in the tree"""
    return True if not p else (dhas(t, p[0]) and has_path(t[p[0]], p[1:]))


@M.spec
def any_path(args: TreeL, p: SEQS) -> BOOL:
    return False if not args else (has_path(args[0], p) or any_path(args[1:], p))


M.lemma("first_row_of_a_path", vars=dict(args=TreeL, k=STR), hyps=[], goal="any_path(args, [k]) == anyhas(args, k)", induct="args",
        properties=["C10", "C17"])
M.lemma("paths_below_a_row", vars=dict(args=TreeL, k=STR, q=SEQS), hyps=[],
        goal="any_path(args, [k] + q) == any_path(sel(args, k), q)", induct="args", properties=["C10", "C17"])
M.lemma("no_row_no_subtrees", vars=dict(args=TreeL, k=STR), hyps=["not anyhas(args, k)"], goal="len(sel(args, k)) == 0", induct="args",
        properties=["C10", "C17"])
M.lemma("equal_trees_have_equal_paths", vars=dict(args=TreeL, p=SEQS), hyps=["alleq(args)", "len(args) > 0"],
        goal="any_path(args, p) == has_path(args[0], p)", induct="args", properties=["C10", "C17"])
M.lemma("merge_is_union_of_paths", vars=dict(p=SEQS, args=TreeL), hyps=["len(p) > 0"],
        goal="has_path(mu(args), p) == any_path(args, p)", induct="p", ih=[dict(args="sel(args, p[0])")],
        cases=["len(args) == 0", "len(args) == 1", "len(args) >= 2 and alleq(args)", "len(args) >= 2 and not alleq(args) and len(p) == 1",
               "len(args) >= 2 and not alleq(args) and len(p) > 1"],
        use=["has_mfold", "get_mfold", "first_row_of_a_path", "paths_below_a_row", "no_row_no_subtrees", "equal_trees_have_equal_paths"],
        properties=["C10", "C17"])
M.lemma("any_path_of_two", vars=dict(a=Tree, b=Tree, p=SEQS), hyps=[], goal="any_path([a, b], p) == (has_path(a, p) or has_path(b, p))",
        properties=["C17", "C10"])
M.lemma("explicit_lines_are_kept", vars=dict(p=SEQS, t=Tree, x=Tree), hyps=["len(p) > 0", "has_path(t, p)"],
        goal="has_path(mu([t, x]), p) and has_path(mu([x, t]), p)",
        instances=[("merge_is_union_of_paths", dict(p="p", args="[t, x]")), ("merge_is_union_of_paths", dict(p="p", args="[x, t]")),
                   ("any_path_of_two", dict(a="t", b="x", p="p")), ("any_path_of_two", dict(a="x", b="t", p="p"))], properties=["C17", "C10"])
M.lemma("nothing_else_appears", vars=dict(p=SEQS, t=Tree, x=Tree), hyps=["len(p) > 0", "has_path(mu([t, x]), p)"],
        goal="has_path(t, p) or has_path(x, p)",
        instances=[("merge_is_union_of_paths", dict(p="p", args="[t, x]")), ("any_path_of_two", dict(a="t", b="x", p="p"))], properties=["C17", "C10"])
M.lemma("merging_a_tree_with_itself_changes_nothing", vars=dict(t=Tree), hyps=[], goal="mu([t, t]) == t and mu([t]) == t",
        properties=["C17", "C10"])


# ==================================================================================================================
# RunGeneratorResult.config_tree: the device's desired configuration is the union of all partial generators' outputs (C10)
FR = "annet/generators/result.py"
GRest = U.opaque("GRest")
GR = U.record("GR", dict(config=Tree, safe_config=Tree, rest=GRest))
PR = U.dict("PR", STR, GR)
RGR = U.record("RGR", dict(partial_results=PR))


@M.spec
def cfg_of(gr: GR, safe: BOOL) -> Tree:
    return gr.safe_config if safe else gr.config


@M.spec
def ctree(rs: PR, safe: BOOL, acc: Tree) -> Tree:
    """the generators' outputs merged one after the other, in run order"""
    return acc if not rs else ctree(dtail(rs), safe, mu([acc, cfg_of(dhead(rs)[1], safe)]))


@M.spec
def any_gen_path(rs: PR, safe: BOOL, p: SEQS) -> BOOL:
    """some generator yielded the block path p"""
    return False if not rs else (has_path(cfg_of(dhead(rs)[1], safe), p) or any_gen_path(dtail(rs), safe, p))


def _ct_inputs():
    import types
    from annet.generators.result import RunGeneratorResult
    ts = [c["args"] for c in itertools.islice(_md_inputs(), 60, 400, 7) if len(c["args"]) == 2]
    for a, b in ts:
        for safe in (False, True):
            r = RunGeneratorResult()
            r.partial_results["g1"] = types.SimpleNamespace(config=a, safe_config=b, name="g1")
            r.partial_results["g2"] = types.SimpleNamespace(config=b, safe_config=a, name="g2")
            r.partial_results["g3"] = types.SimpleNamespace(config=a, safe_config=a, name="g3")
            yield dict(self=r, safe=safe)


M.contract(FR, "RunGeneratorResult.config_tree", inputs=_ct_inputs, params=dict(self=RGR, safe=BOOL), defaults=dict(safe=False), ret=Tree, locals=dict(tree=Tree),
           ensures=["result == ctree(self.partial_results, safe, {})"],
           loops={1: dict(match="self.partial_results.values()", inv=["ctree(_rest1, safe, tree) == ctree(self.partial_results, safe, {})"])},
           canaries=["len(result) == 0"], properties=["C10"])
_mq = {c.qual: c for c in M.contracts}
_mq["RunGeneratorResult.config_tree"].calls["merge_dicts"] = _mq["merge_dicts"]

M.lemma("desired_config_is_the_union_of_the_generators_outputs", vars=dict(rs=PR, safe=BOOL, acc=Tree, p=SEQS), hyps=["len(p) > 0"],
        goal="has_path(ctree(rs, safe, acc), p) == (has_path(acc, p) or any_gen_path(rs, safe, p))", induct="rs",
        ih=[dict(acc="mu([acc, cfg_of(dhead(rs)[1], safe)])")],
        instances=[("merge_is_union_of_paths", dict(p="p", args="[acc, cfg_of(dhead(rs)[1], safe)]")),
                   ("any_path_of_two", dict(a="acc", b="cfg_of(dhead(rs)[1], safe)", p="p"))], properties=["C10"])
