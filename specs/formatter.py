"""Sidecar contracts for the flattening side of annet/annlib/tabparser.py: _indent_blocks and cmd_paths (C09, C01, C04)."""
import itertools
from collections import OrderedDict as odict

from pyvc.dsl import SpecModule, Lazy
from pyvc.types import *
from pyvc.values import V
from pyvc.native import dput

from annet.annlib import tabparser as _t
from annet.annlib.tabparser import BlockBegin, BlockEnd

M = SpecModule("formatter")
U = M.U
F = "annet/annlib/tabparser.py"

Tok = U.union("Tok", dict(Row=STR, Begin=None, End=None))
Tok.pykinds = {"str": "Row"}
Ctx = U.opaque("Ctx")
OptCtx = U.union("OptCtx", dict(none=None, some=Ctx))
TokCtx = U.tuple("TokCtx", [Tok, OptCtx])
SeqTok = SeqT(Tok)
SeqTokCtx = SeqT(TokCtx)
SeqStr = SeqT(STR)
Fmt = U.record("Fmt", dict(_indent=STR))
PatchT = U.opaque("PatchT")
PathDict = U.dict("PathDict", SeqStr, OptCtx)
LvlRow = U.tuple("LvlRow", [INT, STR])
SeqLvlRow = SeqT(LvlRow)

M.export(BlockBegin=Lazy(lambda: V(Tok, Tok.mk("Begin"))), BlockEnd=Lazy(lambda: V(Tok, Tok.mk("End"))))

stream = M.opaque("stream", [Fmt, PatchT, BOOL], SeqTokCtx, impl=lambda self, patch, is_patch: list(self.blocks_and_context(patch, is_patch)),
                  note="the token stream of blocks_and_context (row / BlockBegin / BlockEnd with contexts)")


@M.spec
def spec_indent(blocks: SeqTok, level: INT, indent: STR) -> SeqTok:
    """markers are passed through; a row at nesting level n gets n copies of the indent in front"""
    if len(blocks) == 0:
        return []
    t = blocks[0]
    if t is BlockBegin:
        return [t] + spec_indent(blocks[1:], level + 1, indent)
    if t is BlockEnd:
        return [t] + spec_indent(blocks[1:], level - 1, indent)
    return [indent * level + t] + spec_indent(blocks[1:], level, indent)


@M.spec
def wbn(toks: SeqTokCtx, n: INT) -> BOOL:
    """what cmd_paths needs from the stream: a block begins only after some row of its level, and ends are matched
    (n = length of the path stack)"""
    if len(toks) == 0:
        return True
    t = toks[0][0]
    if t is BlockBegin:
        return n >= 1 and wbn(toks[1:], n + 1)
    if t is BlockEnd:
        return n >= 2 and wbn(toks[1:], n - 1)
    return wbn(toks[1:], n if n >= 1 else 1)


@M.spec
def step_path(path: SeqStr, t: Tok) -> SeqStr:
    """the stack of the last row of every open level"""
    if t is BlockBegin:
        return path + [path[-1]]
    if t is BlockEnd:
        return path[:-1]
    return (path[:-1] if len(path) > 0 else path) + [t]


@M.spec
def paths_dict(toks: SeqTokCtx, path: SeqStr, acc: PathDict) -> PathDict:
    """every row token is recorded under the path of its enclosing rows, in stream order"""
    if len(toks) == 0:
        return acc
    t = toks[0][0]
    p2 = step_path(path, t)
    return paths_dict(toks[1:], p2, acc if (t is BlockBegin or t is BlockEnd) else dput(acc, p2, toks[0][1]))


@M.spec
def path_levels(toks: SeqTokCtx, path: SeqStr) -> SeqLvlRow:
    """(nesting depth, row) of every command, as cmd_paths sees it"""
    if len(toks) == 0:
        return []
    t = toks[0][0]
    p2 = step_path(path, t)
    if t is BlockBegin or t is BlockEnd:
        return path_levels(toks[1:], p2)
    return [(len(p2) - 1, t)] + path_levels(toks[1:], p2)


@M.spec
def shown_levels(toks: SeqTokCtx, level: INT) -> SeqLvlRow:
    """(nesting depth, row) of every line, as patch() / _indent_blocks shows it"""
    if len(toks) == 0:
        return []
    t = toks[0][0]
    if t is BlockBegin:
        return shown_levels(toks[1:], level + 1)
    if t is BlockEnd:
        return shown_levels(toks[1:], level - 1)
    return [(level, t)] + shown_levels(toks[1:], level)


# L-C09a: the depth at which a command is sent equals the depth at which it is shown, for every well-bracketed stream
M.lemma("sent_depth_is_shown_depth", vars=dict(toks=SeqTokCtx, path=SeqStr, level=INT),
        hyps=["wbn(toks, len(path))", "level >= 0", "len(path) == level + 1 or (level == 0 and len(path) == 0)"],
        goal="path_levels(toks, path) == shown_levels(toks, level)", induct="toks", properties=["C09", "C01"],
        ih=[dict(path="step_path(path, toks[0][0])", level="level"),
            dict(path="step_path(path, toks[0][0])", level="level + 1"),
            dict(path="step_path(path, toks[0][0])", level="level - 1")])


def _streams(max_len=5):
    toks = ["a", "b", BlockBegin, BlockEnd]
    for n in range(0, max_len + 1):
        for combo in itertools.product(toks, repeat=n):
            yield list(combo)


def _indent_inputs():
    f = _t.CommonFormatter()
    for s in _streams(5):
        # only well-bracketed prefixes matter, but the function is total on any stream
        yield dict(self=f, blocks=s)


def _patch_trees():
    from annet.annlib.patching import PatchTree
    def mk(spec):
        t = PatchTree()
        for row, ch in spec:
            if ch is None:
                t.add(row, {})
            else:
                t.add_block(row, mk(ch), {})
        return t
    shapes = [[], [("a", None)], [("a", [])], [("a", [("b", None)])], [("a", [("b", [("c", None)])]), ("d", None)],
              [("a", None), ("a", None)], [("a", [("b", None), ("c", [("d", None)])]), ("e", [("f", None)])]]
    for s in shapes:
        yield mk(s)


def _cmd_inputs():
    for cls in (_t.CommonFormatter, _t.HuaweiFormatter, _t.CiscoFormatter, _t.AsrFormatter):
        for pt in _patch_trees():
            yield dict(self=cls(), patch=pt)


M.contract(F, "CommonFormatter._indent_blocks", params=dict(self=Fmt, blocks=SeqTok), yields=SeqTok,
           ensures=["result == spec_indent(blocks, 0, self._indent)"],
           loops={1: dict(match="blocks", inv=["_out + spec_indent(_rest1, _level, self._indent) == spec_indent(blocks, 0, self._indent)"])},
           canaries=["result == blocks"], inputs=_indent_inputs, properties=["C09", "C04", "C01"])

M.contract(F, "CommonFormatter.blocks_and_context", params=dict(self=Fmt, tree=PatchT, is_patch=BOOL), yields=SeqTokCtx, trusted=True,
           ensures=["result == stream(self, tree, is_patch)", "wbn(result, 0)"],
           note="assumed contract of the producer (recursive generator sharing a mutable FormatterContext between yields: outside the "
                "list-semantics subset): the stream is well bracketed; checked at run time on enumerated PatchTrees",
           properties=["C09", "C01"])

M.contract(F, "CommonFormatter.cmd_paths", params=dict(self=Fmt, patch=PatchT), ret=PathDict, locals=dict(ret=PathDict, path=SeqStr),
           calls={"self.blocks_and_context": None},
           ensures=["result == paths_dict(stream(self, patch, True), [], {})"],
           loops={1: dict(match="self.blocks_and_context(patch, is_patch=True)",
                          inv=["wbn(_rest1, len(path))", "paths_dict(_rest1, path, ret) == paths_dict(_it1, [], {})"])},
           canaries=["len(result) == 0"], inputs=_cmd_inputs, properties=["C09", "C01"])

_q = {c.qual: c for c in M.contracts}
_q["CommonFormatter.cmd_paths"].calls["self.blocks_and_context"] = _q["CommonFormatter.blocks_and_context"]


# ==================================================================================================================
# the text side: patch() / join() = "\n".join(rows of the indented token stream)
@M.spec
def toks_of(tc: SeqTokCtx) -> SeqTok:
    return [] if len(tc) == 0 else [tc[0][0]] + toks_of(tc[1:])


@M.spec
def rows_only(blocks: SeqTok) -> SeqStr:
    """the rows of a token stream, block markers dropped"""
    if len(blocks) == 0:
        return []
    return ([blocks[0]] if isinstance(blocks[0], str) else []) + rows_only(blocks[1:])


M.lemma("filter_is_rows_only", vars=dict(blocks=SeqTok), hyps=[], goal="[b for b in blocks if isinstance(b, str)] == rows_only(blocks)",
        induct="blocks", pattern="[b for b in blocks if isinstance(b, str)]", comp_types={"*": SeqStr}, properties=["C09", "C04"])

M.contract(F, "_filtered_block_marks", params=dict(blocks=SeqTok), ret=SeqStr, comp_types={"*": SeqStr},
           ensures=["result == rows_only(blocks)"], use=["filter_is_rows_only"],
           canaries=["len(result) == len(blocks)"], properties=["C09", "C04"],
           inputs=lambda: (dict(blocks=s) for s in _streams(4)), native_fn=lambda blocks: list(_t._filtered_block_marks(blocks)))

M.contract(F, "CommonFormatter._blocks", params=dict(self=Fmt, tree=PatchT, is_patch=BOOL), yields=SeqTok,
           calls={"self.blocks_and_context": None},
           ensures=["result == toks_of(stream(self, tree, is_patch))"],
           loops={1: dict(match="self.blocks_and_context(tree, is_patch)", inv=["_out + toks_of(_rest1) == toks_of(_it1)"])},
           canaries=["len(result) == 0"], properties=["C09", "C04"],
           inputs=lambda: (dict(self=c["self"], tree=c["patch"], is_patch=True) for c in _cmd_inputs()))

M.contract(F, "CommonFormatter.patch", params=dict(self=Fmt, patch=PatchT), ret=STR,
           ensures=["result == '\\n'.join(rows_only(spec_indent(toks_of(stream(self, patch, True)), 0, self._indent)))"],
           canaries=["len(result) == 0"], properties=["C09", "C01"], inputs=_cmd_inputs,
           note="the text shown for a patch: one line per row of the token stream, indented by its nesting level")
M.contract(F, "CommonFormatter.join", params=dict(self=Fmt, config=PatchT), ret=STR,
           ensures=["result == '\\n'.join(rows_only(spec_indent(toks_of(stream(self, config, False)), 0, self._indent)))"],
           canaries=["len(result) == 0"], properties=["C04"],
           note="the text of a config tree (relative to blocks_and_context)")

_q = {c.qual: c for c in M.contracts}
_q["CommonFormatter._blocks"].calls["self.blocks_and_context"] = _q["CommonFormatter.blocks_and_context"]
for _fn in ("CommonFormatter.patch", "CommonFormatter.join"):
    _q[_fn].calls["self._blocks"] = _q["CommonFormatter._blocks"]
    _q[_fn].calls["self._indent_blocks"] = _q["CommonFormatter._indent_blocks"]
    _q[_fn].calls["_filtered_block_marks"] = _q["_filtered_block_marks"]
