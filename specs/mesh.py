"""Sidecar contracts for annet/mesh/basemodel.py: the field mergers (C15)."""
import itertools

import z3
from pyvc.dsl import SpecModule, Lazy
from pyvc.types import *
from pyvc.values import V, PyConstObj
from pyvc.native import dhead, dtail, dput, dhas

from annet.mesh import basemodel as _b

M = SpecModule("mesh")
U = M.U
F = "annet/mesh/basemodel.py"

Elem = U.opaque("Elem")
Val = U.opaque("Val")                       # a field value of any type that supports ==
OptVal = U.union("OptVal", dict(NOT_SET=None, some=Val))      # Special.NOT_SET | value
SeqElem = SeqT(Elem)                        # Concat fields (tuples / lists)
SetElem = SetT(Elem)                        # Unite fields (sets)
Name = STR
Self = U.opaque("Self")
DVal = U.dict("DVal", STR, Val)             # DictMerge fields
DSelf = U.record("DSelf", dict(value_merger=Self))

M.export(Special=Lazy(lambda: PyConstObj("Special", dict(NOT_SET=V(OptVal, OptVal.mk("NOT_SET"))))),
         copy=None)

# the value merger of a DictMerge / the subclass hook of Merger.__call__: an arbitrary Merger._merge, opaque
vmerge = M.opaque("vmerge", [Self, STR, Val, Val], Val, impl=None, note="self._merge / self.value_merger.__call__ of the declared merger")
vmerge_forbidden = M.opaque("vmerge_forbidden", [Self, STR, Val, Val], BOOL, impl=None, note="the merger raises MergeForbiddenError")


@M.spec
def spec_call(s: Self, name: STR, x: OptVal, y: OptVal) -> OptVal:
    """unset never overrides set; two set values are combined by the merger"""
    if x is Special.NOT_SET:
        return y
    if y is Special.NOT_SET:
        return x
    return vmerge(s, name, x, y)


@M.spec
def spec_dictmerge(s: Self, x: DVal, y: DVal) -> DVal:
    """keys of x in place, new keys of y appended in y's order; common keys merged by the value merger"""
    if not y:
        return x
    (k, v) = dhead(y)
    return spec_dictmerge(s, dput(x, k, vmerge(s, k, x[k], v) if dhas(x, k) else v), dtail(y))


@M.spec
def dm_forbidden(s: Self, x: DVal, y: DVal) -> BOOL:
    if not y:
        return False
    (k, v) = dhead(y)
    if dhas(x, k) and vmerge_forbidden(s, k, x[k], v):
        return True
    return dm_forbidden(s, dput(x, k, vmerge(s, k, x[k], v) if dhas(x, k) else v), dtail(y))


EXC = {"MergeForbiddenError": "Exception"}

M.contract(F, "Merger._merge", params=dict(self=Self, name=STR, x=Val, y=Val), ret=Val, trusted=True,
           ensures=["result == vmerge(self, name, x, y)"], raises={"MergeForbiddenError": ["vmerge_forbidden(self, name, x, y)"]},
           note="abstract hook: stands for the _merge of whichever subclass is used", properties=["C15"])

M.contract(F, "Merger.__call__", params=dict(self=Self, name=STR, x=OptVal, y=OptVal), ret=OptVal,
           calls={"self._merge": None},
           ensures=["result == spec_call(self, name, x, y)"],
           raises={"MergeForbiddenError": ["x is not Special.NOT_SET", "y is not Special.NOT_SET", "vmerge_forbidden(self, name, x, y)"]},
           canaries=["result == x"], properties=["C15"], exc_parents=EXC)

M.contract(F, "UseFirst._merge", params=dict(self=Self, name=STR, x=Val, y=Val), ret=Val, ensures=["result == x"],
           canaries=["result == y"], properties=["C15"])
M.contract(F, "UseLast._merge", params=dict(self=Self, name=STR, x=Val, y=Val), ret=Val, ensures=["result == y"],
           canaries=["result == x"], properties=["C15"])
M.contract(F, "Forbid._merge", params=dict(self=Self, name=STR, x=Val, y=Val), ret=Val, ensures=["False"],
           raises={"MergeForbiddenError": []}, properties=["C15"], exc_parents=EXC)
M.contract(F, "ForbidChange._merge", params=dict(self=Self, name=STR, x=Val, y=Val), ret=Val,
           ensures=["result == x", "x == y"], raises={"MergeForbiddenError": ["x != y"]},
           canaries=["x != y"], properties=["C15"], exc_parents=EXC)
M.contract(F, "Concat._merge", params=dict(self=Self, name=STR, x=SeqElem, y=SeqElem), ret=SeqElem, ensures=["result == x + y"],
           canaries=["result == y + x"], properties=["C15"])
M.contract(F, "Unite._merge", params=dict(self=Self, name=STR, x=SetElem, y=SetElem), ret=SetElem, ensures=["result == (x | y)"],
           canaries=["result == x"], properties=["C15"])
M.contract(F, "DictMerge._merge", params=dict(self=DSelf, name=STR, x=DVal, y=DVal), ret=DVal, locals=dict(result=DVal),
           calls={"self.value_merger": None, "copy": None},
           ensures=["result == spec_dictmerge(self.value_merger, x, y)"],
           raises={"MergeForbiddenError": ["dm_forbidden(self.value_merger, x, y)"]},
           loops={1: dict(match="y.items()", inv=["spec_dictmerge(self.value_merger, result, _rest1) == spec_dictmerge(self.value_merger, x, y)",
                                                   "dm_forbidden(self.value_merger, result, _rest1) == dm_forbidden(self.value_merger, x, y)"])},
           canaries=["result == x"], properties=["C15"], exc_parents=EXC)

# value_merger(key, a, b) on two SET values: Merger.__call__ with both set = the merger's _merge
M.contract(F, "<value_merger>", params=dict(self=Self, name=STR, x=Val, y=Val), ret=Val, trusted=True, callable_recv=True,
           ensures=["result == vmerge(self, name, x, y)"], raises={"MergeForbiddenError": ["vmerge_forbidden(self, name, x, y)"]},
           note="self.value_merger(key, a, b) with both values set: Merger.__call__ reduces to _merge (proved above)",
           properties=["C15"])
M.contract(F, "<copy>", params=dict(x=DVal), ret=DVal, trusted=True, ensures=["result == x"],
           note="copy.copy of a dict: a one-level copy (A5); the original is not mutated by later stores into the copy",
           properties=["C15"])

_by_qual = {c.qual: c for c in M.contracts}
_by_qual["Merger.__call__"].calls["self._merge"] = _by_qual["Merger._merge"]
_by_qual["DictMerge._merge"].calls["self.value_merger"] = _by_qual["<value_merger>"]
_by_qual["DictMerge._merge"].calls["copy"] = _by_qual["<copy>"]

# ---- laws over the spec (L layer of C15)
M.lemma("unset_never_overrides", vars=dict(s=Self, name=STR, x=OptVal), hyps=[],
        goal="spec_call(s, name, x, Special.NOT_SET) == x and spec_call(s, name, Special.NOT_SET, x) == x", properties=["C15"])
M.lemma("call_is_merge_when_both_set", vars=dict(s=Self, name=STR, x=Val, y=Val), hyps=[],
        goal="spec_call(s, name, x, y) == vmerge(s, name, x, y)", properties=["C15"])

M.lemma("unite_commutes_and_is_idempotent", vars=dict(x=SetElem, y=SetElem), hyps=[],
        goal="(x | y) == (y | x) and (x | x) == x", properties=["C15"])
M.lemma("unite_associative", vars=dict(x=SetElem, y=SetElem, z=SetElem), hyps=[], goal="((x | y) | z) == (x | (y | z))", properties=["C15"])
M.lemma("concat_associative", vars=dict(x=SeqElem, y=SeqElem, z=SeqElem), hyps=[], goal="((x + y) + z) == (x + (y + z))", properties=["C15"])
