"""Sidecar contract for annet/annlib/jsontools.py:_resolve_json_pointers (C13): a globbed pointer resolves to exactly the paths that
exist in the document and whose parts match the pattern parts, in document order.  fnmatch, escaping and the JsonPointer class
are opaque."""
import itertools

import z3
from pyvc.dsl import SpecModule, Lazy
from pyvc.types import *
from pyvc.values import V, PyConstObj, PyFn, NONE_V, coerce, PyTup
from pyvc.native import dhead, dtail, dput, dhas

import fnmatch            # noqa: E402  (native evaluation of the spec functions)
import jsonpointer        # noqa: E402
from collections.abc import Mapping, Sequence        # noqa: E402

M = SpecModule("jsonptr")
U = M.U
F = "annet/annlib/jsontools.py"

Scalar = U.opaque("Scalar")
DObj = U.dict("DObj", STR, "Doc")
DArr = U.list("DArr", "Doc")
Doc = U.union("Doc", dict(obj=DObj, arr=DArr, sc=Scalar))
Doc.pykinds = {"Mapping": "obj", "Sequence": "arr"}
SEQS = SeqT(STR)
Ent = U.tuple("Ent", [SEQS, Doc])             # (matched parts so far, the document below them)
Ents = U.list("Ents", Ent)
KD = U.tuple("KD", [STR, Doc])
KDs = U.list("KDs", KD)
Ptr = U.opaque("Ptr")
Ptrs = SeqT(Ptr)

fnm = M.opaque("fnm", [STR, STR], BOOL, impl=fnmatch.fnmatchcase, note="fnmatch.fnmatchcase(key, pattern)")
esc = M.opaque("esc", [STR], STR, impl=jsonpointer.escape, note="jsonpointer.escape(part)")
ptr_of = M.opaque("ptr_of", [STR], Ptr, impl=jsonpointer.JsonPointer, note="jsonpointer.JsonPointer(text)")
pparts = M.opaque("pparts", [Ptr], SEQS, impl=lambda p: p.parts, note="JsonPointer.parts")

Ptr.attrs = {"parts": lambda v: V(SEQS, pparts.decl()(v.t))}
M.export(fnmatch=PyConstObj("fnmatch", dict(fnmatchcase=fnm)),
         jsonpointer=PyConstObj("jsonpointer", dict(JsonPointer=ptr_of, escape=esc)),
         Mapping=PyConstObj("Mapping"), Sequence=PyConstObj("Sequence"))


@M.spec
def kids_obj(doc: DObj, part: STR) -> KDs:
    """members of an object whose key matches the pattern part, in document order"""
    return [(key, doc[key]) for key in doc.keys() if fnmatch.fnmatchcase(key, part)]


@M.spec
def kids_arr(doc: DArr, part: STR) -> KDs:
    """elements of an array whose index (as text) matches the pattern part"""
    return [(str(i), doc[i]) for i in range(len(doc)) if fnmatch.fnmatchcase(str(i), part)]


@M.spec
def kids(doc: Doc, part: STR) -> KDs:
    return kids_obj(doc, part) if isinstance(doc, Mapping) else (kids_arr(doc, part) if isinstance(doc, Sequence) else [])


@M.spec
def below(kds: KDs, prefix: SEQS, parts: SEQS) -> Ents:
    """all matches below the given children of one node"""
    return [] if not kds else rp(parts, prefix + [kds[0][0]], kds[0][1]) + below(kds[1:], prefix, parts)


@M.spec
def rp(parts: SEQS, prefix: SEQS, doc: Doc) -> Ents:
    """the paths below `doc` that match the remaining pattern parts (depth first, document order), each with the node it reaches"""
    return [(prefix, doc)] if not parts else below(kids(doc, parts[0]), prefix, parts[1:])


@M.spec
def expand(ms: Ents, parts: SEQS) -> Ents:
    return [] if not ms else rp(parts, ms[0][0], ms[0][1]) + expand(ms[1:], parts)


@M.spec
def ptrs(ms: Ents) -> Ptrs:
    return [] if not ms else [jsonpointer.JsonPointer("/" + "/".join(jsonpointer.escape(part) for part in ms[0][0]))] + ptrs(ms[1:])


def _jp_inputs():
    docs = [
        {},
        {"foo": {"bar": {"baz": [1, 2]}, "qux": {"baz": [3, 4]}}},
        {"a*": {"p": 1, "*": 2}, "ab": {"p": 3}, "b": [{"x": 1}, {"x": 2}], "s": "text"},
        {"q/r": {"m~n": 1}, "t": {"u": {"v": {}}}},
    ]
    pats = ["", "/*", "/f*/*/baz", "/f*/q*/baz/*", "/a*", "/a*/*", "/b/*/x", "/b/1", "/s/*", "/q~1r/*", "/t/*/*", "/nope", "/*/*/*/*"]
    for d in docs:
        for p in pats:
            yield dict(pattern=p, content=d)


M.lemma("expand_app", vars=dict(a=Ents, b=Ents, ps=SEQS), hyps=[], goal="expand(a + b, ps) == expand(a, ps) + expand(b, ps)", induct="a",
        pattern="expand(a + b, ps)", properties=["C13"])
M.lemma("expand_snoc", vars=dict(a=Ents, e=Ent, ps=SEQS), hyps=[], goal="expand(a + [e], ps) == expand(a, ps) + rp(ps, e[0], e[1])", induct="a",
        pattern="expand(a + [e], ps)", properties=["C13"])
M.lemma("expand_nil", vars=dict(ms=Ents), hyps=[], goal="expand(ms, []) == ms", induct="ms", pattern="expand(ms, [])", properties=["C13"])

M.contract(F, "_resolve_json_pointers", params=dict(pattern=STR, content=DObj), ret=Ptrs,
           locals=dict(matched=Ents, new_matched=Ents, keys_and_docs=KDs, ret=Ptrs), comp_types={1: KDs, 2: KDs},
           ensures=["result == ptrs(rp(pparts(ptr_of(pattern)), [], content))"],
           loops={1: dict(match="parts", inv=["expand(matched, _rest1) == rp(pparts(ptr_of(pattern)), [], content)"]),
                  2: dict(match="matched",
                          inv=["expand(new_matched, _rest1) + expand(_rest2, [part] + _rest1) == expand(matched, [part] + _rest1)"]),
                  3: dict(match="keys_and_docs",
                          inv=["expand(new_matched, _rest1) + below(_rest3, matched_parts, _rest1) == "
                               "expand(entry(new_matched), _rest1) + below(keys_and_docs, matched_parts, _rest1)"]),
                  4: dict(match="matched", inv=["ret + ptrs(_rest4) == ptrs(matched)"])},
           use=["expand_snoc", "expand_nil"],
           canaries=["len(result) == 0"], properties=["C13"], inputs=_jp_inputs,
           note="relative to fnmatch.fnmatchcase, jsonpointer.escape and the JsonPointer class (opaque); MODEL: a document is an object, "
                "an array or a scalar that is neither - a Python str scalar IS a Sequence (of characters) and is descended into by "
                "the real code, which the property's domain excludes (pointers address objects); the run-time contract covers it")
