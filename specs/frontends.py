"""Sidecar contracts for annet/api/__init__.py: the two front ends _diff_and_patch (device mode) and _read_old_new_diff_patch
(file mode) as compositions of the same pipeline (C16).  The pipeline stages are opaque functions here (their own contracts live in
specs.diffrb / specs.makepre / specs.patching); what is proved is that both front ends feed them the same way."""
import z3
from pyvc.dsl import SpecModule, Lazy
from pyvc.types import *
from pyvc.values import V, PyConstObj, PyFn, NONE_V, coerce, PyTup

M = SpecModule("frontends")
U = M.U
F = "annet/api/__init__.py"

Tree = U.opaque("Tree")
HW = U.opaque("HW")
Device = U.record("Device", dict(hw=HW))
Rb = U.opaque("Rb")
OptRb = U.union("OptRb", dict(none=None, some=Rb))
Acl = U.opaque("Acl")
OptAcl = U.union("OptAcl", dict(none=None, some=Acl))
AclList = SeqT(OptAcl)
DiffO = U.opaque("DiffO")
Pre = U.opaque("Pre")
PatchT = U.opaque("PatchT")
Ref = U.opaque("Ref")
OptRef = U.union("OptRef", dict(none=None, some=Ref))

def _grb(hw):
    from annet import rulebook
    return rulebook.get_rulebook(hw)


def _aacl(tree, acl, ann):
    from annet.annlib import patching
    return patching.apply_acl(tree, acl, with_annotations=ann)


def _mdiff(old, new, rb, acls):
    from annet.annlib import patching
    return patching.make_diff(old, new, rb, acls)


def _mpre(diff):
    from annet.annlib import patching
    return patching.make_pre(diff)


def _pfp(pre, hw, rb, ac, ref, dc):
    from annet import api
    return api.patch_from_pre(pre, hw, rb, ac, ref, dc).to_json()


def _su(diff):
    from annet.annlib import patching
    return patching.strip_unchanged(diff)


grb = M.opaque("grb", [HW], Rb, impl=_grb, note="rulebook.get_rulebook(hw) (deterministic per hw: C18)")
aacl = M.opaque("aacl", [Tree, Acl, BOOL], Tree, impl=_aacl, note="patching.apply_acl(config, rules, with_annotations=..) (specs.patching)")
mdiff = M.opaque("mdiff", [Tree, Tree, Rb, AclList], DiffO, impl=_mdiff, note="patching.make_diff (specs.diffrb)")
mpre = M.opaque("mpre", [DiffO], Pre, impl=_mpre, note="patching.make_pre (specs.makepre)")
pfp = M.opaque("pfp", [Pre, HW, Rb, BOOL, OptRef, BOOL], PatchT, impl=_pfp, note="patch_from_pre -> make_patch (not under contract)")
su = M.opaque("su", [DiffO], DiffO, impl=_su, note="patching.strip_unchanged (specs.patching)")

M.contract(F, "<get_rulebook>", params=dict(hw=HW), ret=Rb, trusted=True, ensures=["result == grb(hw)"], properties=["C16", "C02"],
           note="assumed: the provider returns an equal rulebook for the same hw (C18) and callers do not modify it (C20)")
M.contract(F, "<apply_acl>", params=dict(config=Tree, rules=Acl, with_annotations=BOOL), defaults=dict(with_annotations=False), ret=Tree,
           trusted=True, ensures=["result == aacl(config, rules, with_annotations)"], properties=["C16", "C02"], note="proved in specs.patching; pure")
M.contract(F, "<make_diff>", params=dict(old=Tree, new=Tree, rb=Rb, acl_rules_list=AclList), ret=DiffO, trusted=True,
           ensures=["result == mdiff(old, new, rb, acl_rules_list)"], properties=["C16", "C02"],
           note="proved in specs.diffrb: a function of its arguments, which it does not modify")
M.contract(F, "<make_pre>", params=dict(diff=DiffO), ret=Pre, trusted=True, fresh_result=True, ensures=["result == mpre(diff)"], properties=["C16", "C02"],
           note="proved in specs.makepre: builds a fresh pre, diff unmodified")
M.contract(F, "<patch_from_pre>", params=dict(pre=Pre, hw=HW, rb=Rb, add_comments=BOOL, ref_track=OptRef, do_commit=BOOL),
           defaults=dict(ref_track=None, do_commit=True), ret=PatchT, trusted=True, modifies=["pre"],
           ensures=["result == pfp(old(pre), hw, rb, add_comments, ref_track, do_commit)"], properties=["C16", "C02"],
           note="ASSUMED: the patch is a function of (pre, hw, rb, flags); logic functions may modify the pre they are given, nothing else")
M.contract(F, "<strip_unchanged>", params=dict(diff=DiffO), ret=DiffO, trusted=True, ensures=["result == su(diff)"], properties=["C16", "C02"],
           note="proved in specs.patching; pure")

def _fe_cases():
    import types
    from bounded.common import setup_annet
    setup_annet()        # connectors (rulebook provider, vendor registry) as the bounded layer sets them up; idempotent
    from collections import OrderedDict as odict
    from annet.annlib.netdev.views.hardware import HardwareView
    from annet.annlib import tabparser
    from annet.annlib.rbparser import acl as _acl
    from annet.vendors import registry_connector
    texts = ["", "sysname a\ninterface 100GE1/0/1\n  mtu 9000\n  description x\n",
             "sysname b\ninterface 100GE1/0/1\n  mtu 1500\ninterface 100GE1/0/2\n  description y\nntp server 1.1.1.1\n"]
    for model, vendor in (("Huawei CE6870", "huawei"), ("Cisco Catalyst 2960", "cisco")):
        hw = HardwareView(model, "")
        split = registry_connector.get().match(hw).make_formatter().split
        trees = [tabparser.parse_to_tree(t, split) for t in texts]
        acls = [None, _acl.compile_acl_text("interface *\n    ~\nsysname *\n", vendor)]
        for old in trees:
            for new in trees:
                yield hw, old, new, acls


def _dap_inputs():
    import types
    for hw, old, new, acls in _fe_cases():
        for acl in acls:
            yield dict(device=types.SimpleNamespace(hw=hw), old=old, new=new, acl_rules=acl, filter_acl_rules=None, add_comments=False,
                       ref_track=None, do_commit=True, rb=None)


def _rd_inputs():
    for hw, old, new, _acls in _fe_cases():
        yield dict(old=old, new=new, hw=hw, add_comments=False)


def _dap_native(**kw):
    from annet import api
    d, p = api._diff_and_patch(**kw)
    return (d, p.to_json())


def _rd_native(**kw):
    from annet import api
    rb, d, pre, p = api._read_old_new_diff_patch(**kw)
    return (rb, d, pre, p.to_json())


M.contract(F, "_diff_and_patch", inputs=_dap_inputs, native_fn=_dap_native, native_frame_skip=["acl_rules", "filter_acl_rules", "device"],
           params=dict(device=Device, old=Tree, new=Tree, acl_rules=OptAcl, filter_acl_rules=OptAcl, add_comments=BOOL, ref_track=OptRef,
                       do_commit=BOOL, rb=OptRb),
           defaults=dict(ref_track=None, do_commit=True, rb=None), ret=U.tuple("DP2", [DiffO, PatchT]), locals=dict(),
           ensures=["result[0] == su(mdiff(aacl(old, acl_rules, False) if acl_rules is not None else old, "
                    "aacl(new, acl_rules, add_comments) if acl_rules is not None else new, "
                    "rb if rb is not None else grb(device.hw), [acl_rules, filter_acl_rules]))",
                    "result[1] == pfp(mpre(mdiff(aacl(old, acl_rules, False) if acl_rules is not None else old, "
                    "aacl(new, acl_rules, add_comments) if acl_rules is not None else new, "
                    "rb if rb is not None else grb(device.hw), [acl_rules, filter_acl_rules])), device.hw, "
                    "rb if rb is not None else grb(device.hw), add_comments, ref_track, do_commit)"],
           canaries=["result[0] == mdiff(old, new, grb(device.hw), [acl_rules, filter_acl_rules])"], properties=["C16", "C02"],
           note="device mode: the patch is built from the FULL diff; unchanged rows are stripped for display afterwards")
M.contract(F, "_read_old_new_diff_patch", params=dict(old=Tree, new=Tree, hw=HW, add_comments=BOOL), inputs=_rd_inputs, native_fn=_rd_native,
           ret=U.tuple("RD4", [Rb, DiffO, Pre, PatchT]),
           ensures=["result[0] == grb(hw)",
                    "result[1] == su(mdiff(old, new, grb(hw), []))",
                    "result[2] == mpre(su(mdiff(old, new, grb(hw), [])))",
                    "result[3] == pfp(mpre(mdiff(old, new, grb(hw), [])), hw, grb(hw), add_comments, None, True)"],
           canaries=["result[3] == pfp(mpre(su(mdiff(old, new, grb(hw), []))), hw, grb(hw), add_comments, None, True)"], properties=["C16", "C02"],
           note="file mode: the same pipeline (this is what fix 99d10ce established); the pre shown to the user is rebuilt from the stripped diff")

_q = {c.qual: c for c in M.contracts}
for fn in ("_diff_and_patch", "_read_old_new_diff_patch"):
    _q[fn].calls["rulebook.get_rulebook"] = _q["<get_rulebook>"]
    _q[fn].calls["patching.apply_acl"] = _q["<apply_acl>"]
    _q[fn].calls["patching.make_diff"] = _q["<make_diff>"]
    _q[fn].calls["patching.make_pre"] = _q["<make_pre>"]
    _q[fn].calls["patch_from_pre"] = _q["<patch_from_pre>"]
    _q[fn].calls["patching.strip_unchanged"] = _q["<strip_unchanged>"]
M.export(rulebook=PyConstObj("rulebook"), patching=PyConstObj("patching"))

M.lemma("absent_acls_do_not_filter", vars=dict(o=Tree, n=Tree, rb=Rb), hyps=[], goal="mdiff(o, n, rb, [None, None]) == mdiff(o, n, rb, [])",
        assumed=True, pattern="mdiff(o, n, rb, [None, None])", properties=["C16", "C02"],
        note="from make_diff's proved contract in specs.diffrb (lemma none_acls_are_skipped: None entries of the ACL list are skipped)")
M.lemma("front_ends_agree", vars=dict(old=Tree, new=Tree, hw=HW, ac=BOOL), hyps=[],
        goal="su(mdiff(old, new, grb(hw), [None, None])) == su(mdiff(old, new, grb(hw), [])) and "
             "pfp(mpre(mdiff(old, new, grb(hw), [None, None])), hw, grb(hw), ac, None, True) == "
             "pfp(mpre(mdiff(old, new, grb(hw), [])), hw, grb(hw), ac, None, True)",
        use=["absent_acls_do_not_filter"], properties=["C16", "C02"])
