"""Sidecar contracts for annet/rulebook/huawei/vlandb.py: _parse_vlancfg_actions and _process_vlandb (C11): the removal command is
built from exactly the VLANs of the removed lines that no added line has, the add command from exactly those of the added lines that
no removed line has.  Parsing a line into (prefix, VLAN set), collapsing a set into range texts and chunking are opaque here
(collapse_vlandb is proved in specs.vlandb: its ranges denote exactly the set)."""
import z3
from pyvc.dsl import SpecModule, Lazy
from pyvc.types import *
from pyvc.values import V, PyConstObj, PyFn, NONE_V, coerce, PyTup
from pyvc.native import dhead, dtail, dput, dhas

from annet.annlib.types import Op      # noqa: E402  (native evaluation of the spec functions)

M = SpecModule("vlanlogic")
U = M.U
F = "annet/rulebook/huawei/vlandb.py"

OpT = U.enum("OpT", ["added", "removed", "affected", "moved", "unchanged"])
Pre = U.opaque("Pre")
Key = U.opaque("Key")
OptPre = U.union("OptPre", dict(none=None, some=Pre))
BItem = U.record("BItem", dict(row=STR, children=Pre))
SeqB = SeqT(BItem)
DiffB = U.record("DiffB", dict(added=SeqB, removed=SeqB, affected=SeqB, moved=SeqB, unchanged=SeqB))
DiffB.key_list = ["added", "removed", "affected", "moved", "unchanged"]
Rule = U.record("Rule", dict(reverse=STR))
Cmd = U.tuple("Cmd", [BOOL, STR, OptPre])
SeqCmd = SeqT(Cmd)
OptStr = U.union("OptStr", dict(none=None, some=STR))
OptInt = U.union("OptInt", dict(none=None, some=INT))
VSet = SetT(INT)
SEQS = SeqT(STR)
Chunks = SeqT(SEQS)
PV = U.tuple("PV", [STR, VSet])
PA = U.tuple("PA", [OptStr, VSet])

M.export(Op=Lazy(lambda: PyConstObj("Op", dict(ADDED=V(OpT, OpT.const("added")), REMOVED=V(OpT, OpT.const("removed")),
                                               AFFECTED=V(OpT, OpT.const("affected")), MOVED=V(OpT, OpT.const("moved")),
                                               UNCHANGED=V(OpT, OpT.const("unchanged"))))),
         set=PyFn("set", lambda ex, args, kwargs, st, node: V(VSet, z3.EmptySet(z3.IntSort()))))

def _hv():
    from annet.rulebook.huawei import vlandb
    return vlandb


pfx = M.opaque("pfx", [STR], STR, impl=lambda row: _hv()._parse_vlancfg(row)[0], note="_parse_vlancfg(row)[0]: the command words before the VLAN list")
vset = M.opaque("vset", [STR], VSet, impl=lambda row: _hv()._parse_vlancfg(row)[1], note="_parse_vlancfg(row)[1]: the VLANs of the line (expand_vlandb; bounded only)")
coll = M.opaque("coll", [VSet], SEQS, impl=lambda s: _hv().collapse_vlandb(s), note="huawei_collapse_vlandb(set): range texts (proved in specs.vlandb to denote exactly the set)")
chunks = M.opaque("chunks", [SEQS, OptInt], Chunks, impl=lambda items, size: [items[i:i + size] for i in range(0, len(items), size)], note="_chunked(items, size): consecutive slices")


@M.spec
def aset(actions: SeqB) -> VSet:
    """all VLANs named by the lines of one bucket"""
    return set() if not actions else (vset(actions[0]["row"]) | aset(actions[1:]))


@M.spec
def last_prefix(actions: SeqB, acc: OptStr) -> OptStr:
    return acc if not actions else last_prefix(actions[1:], pfx(actions[0]["row"]))


@M.spec
def ch(multi: BOOL, collapsed: SEQS, n: OptInt) -> Chunks:
    return chunks(collapsed, n) if multi else [collapsed]


@M.spec
def undo_cmds(prefix: OptStr, chs: Chunks) -> SeqCmd:
    return [] if not chs else [(False, "undo %s %s" % (prefix, " ".join(chs[0])), None)] + undo_cmds(prefix, chs[1:])


@M.spec
def add_cmds(prefix: OptStr, chs: Chunks) -> SeqCmd:
    return [] if not chs else [(True, "%s %s" % (prefix, " ".join(chs[0])), None)] + add_cmds(prefix, chs[1:])


@M.spec
def general(diff: DiffB, multi: BOOL, n: OptInt) -> SeqCmd:
    """remove exactly old minus new, then add exactly new minus old (old / new = the VLANs of the removed / added lines)"""
    removed = aset(diff[Op.REMOVED]).difference(aset(diff[Op.ADDED]))
    added = aset(diff[Op.ADDED]).difference(aset(diff[Op.REMOVED]))
    u = undo_cmds(last_prefix(diff[Op.REMOVED], None), ch(multi, coll(removed), n)) if removed else []
    a = add_cmds(last_prefix(diff[Op.ADDED], None), ch(multi, coll(added), n)) if added else []
    return u + a


@M.spec
def spec_pv(rule: Rule, key: Key, diff: DiffB, multi: BOOL, multi_all: BOOL, n: OptInt) -> SeqCmd:
    if diff[Op.REMOVED] and not diff[Op.ADDED]:
        if multi and multi_all:
            return [(False, rule["reverse"].format(*key) + " all", None)]
        if not multi and not multi_all:
            return [(False, rule["reverse"].format(*key), None)]
    return general(diff, multi, n)


M.contract(F, "<_parse_vlancfg>", params=dict(row=STR), ret=PV, trusted=True, ensures=["result == (pfx(row), vset(row))"],
           note="string parsing (split / isdigit / expand_vlandb): bounded only", properties=["C11"])
M.contract(F, "<collapse_vlandb>", params=dict(vlans=VSet), ret=SEQS, trusted=True, requires=["bool(vlans)"], ensures=["result == coll(vlans)"],
           note="annlib.lib.huawei_collapse_vlandb: proved in specs.vlandb (asserts a non-empty input)", properties=["C11"])
M.contract(F, "_chunked", params=dict(items=SEQS, size=OptInt), yields=Chunks, trusted=True, ensures=["result == chunks(items, size)"],
           note="range(0, len, size) slicing: bounded only", properties=["C11"])

M.contract(F, "_parse_vlancfg_actions", params=dict(actions=SeqB), ret=PA, locals=dict(prefix=OptStr, vlandb=VSet, part=VSet),
           ensures=["result == (last_prefix(actions, None), aset(actions))"],
           loops={1: dict(match="actions", inv=["(vlandb | aset(_rest1)) == aset(actions)", "last_prefix(_rest1, prefix) == last_prefix(actions, None)"])},
           canaries=["result[0] is None"], properties=["C11"])

M.contract(F, "_process_vlandb", params=dict(rule=Rule, key=Key, diff=DiffB, multi=BOOL, multi_all=BOOL, multi_chunk=OptInt), yields=SeqCmd,
           locals=dict(removed=VSet, added=VSet, old=VSet, new=VSet, collapsed=SEQS, prefix_add=OptStr, prefix_del=OptStr),
           raises={"AssertionError": ["len(diff[Op.AFFECTED]) != 0 or (not multi and (len(diff[Op.ADDED]) > 1 or len(diff[Op.REMOVED]) > 1))"]},
           ensures=["result == spec_pv(rule, key, diff, multi, multi_all, multi_chunk)"],
           loops={1: dict(match="(Op.ADDED, Op.REMOVED)", inv=[]),      # literal tuple: unrolled
                  2: dict(match="_chunked(collapsed, multi_chunk) if multi else [collapsed]",
                          inv=["_out + undo_cmds(prefix_del, _rest2) == undo_cmds(prefix_del, _it2)"]),
                  3: dict(match="_chunked(collapsed, multi_chunk) if multi else [collapsed]",
                          inv=["_out + add_cmds(prefix_add, _rest3) == (undo_cmds(prefix_del, ch(multi, coll(removed), multi_chunk)) if removed else []) "
                               "+ add_cmds(prefix_add, _it3)"])},
           canaries=["len(result) == 0"], properties=["C11"],
           note="relative to _parse_vlancfg / collapse_vlandb / _chunked (opaque)")

_q = {c.qual: c for c in M.contracts}
_q["_parse_vlancfg_actions"].calls["_parse_vlancfg"] = _q["<_parse_vlancfg>"]
_q["_process_vlandb"].calls["collapse_vlandb"] = _q["<collapse_vlandb>"]


def _pv_inputs():
    import itertools
    rows = ["port trunk allow-pass vlan 2 to 4", "port trunk allow-pass vlan 10", "port trunk allow-pass vlan 3 to 12 20", "port trunk allow-pass vlan 4094"]

    def bucket(rs):
        return [{"row": r, "children": None} for r in rs]
    rule = {"reverse": "undo port trunk allow-pass vlan"}
    for na in range(0, 3):
        for added in itertools.combinations(rows, na):
            for nr in range(0, 3):
                for removed in itertools.combinations(rows, nr):
                    for affected in ([], rows[:1]):
                        diff = {"added": bucket(added), "removed": bucket(removed), "affected": bucket(affected), "moved": [], "unchanged": []}
                        for multi, multi_all, n in ((False, False, None), (True, False, 10), (True, True, 10), (True, False, 1)):
                            yield dict(rule=rule, key=(), diff=diff, multi=multi, multi_all=multi_all, multi_chunk=n)


_q["_process_vlandb"].native_inputs = _pv_inputs
_q["_parse_vlancfg_actions"].native_inputs = lambda: (dict(actions=c["diff"]["added"] + c["diff"]["removed"]) for c in _pv_inputs() if c["multi_chunk"] == 1)

_wr = dict(params=dict(rule=Rule, key=Key, diff=DiffB), yields=SeqCmd, ignore_kwargs=True, properties=["C11"],
           raises={"AssertionError": []}, canaries=["len(result) == 0"])
M.contract(F, "single", ensures=["result == spec_pv(rule, key, diff, False, False, None)"],
           **dict(_wr, raises={"AssertionError": ["len(diff[Op.AFFECTED]) != 0 or len(diff[Op.ADDED]) > 1 or len(diff[Op.REMOVED]) > 1"]}))
M.contract(F, "multi", ensures=["result == spec_pv(rule, key, diff, True, False, 10)"],
           **dict(_wr, raises={"AssertionError": ["len(diff[Op.AFFECTED]) != 0"]}))
M.contract(F, "multi_all", ensures=["result == spec_pv(rule, key, diff, True, True, 10)"],
           **dict(_wr, raises={"AssertionError": ["len(diff[Op.AFFECTED]) != 0"]}))


# ==================================================================================================================
# vlan_diff (%diff_logic of `vlan *` / `vlan batch *`): a globally declared VLAN that stays in a `vlan batch` line is never removed
Tree = U.dict("Tree", STR, "Tree")
MatchO = U.opaque("MatchO")
DiffPreO = U.opaque("DiffPreO")
PopsO = U.opaque("PopsO")
DItem = U.tuple("DItem", [OpT, STR, "DiffL", MatchO], fields=["op", "row", "children", "diff_pre"])
DiffL = U.list("DiffL", DItem)
OptItem = U.union("OptItem", dict(none=None, some=DItem))
dd = M.opaque("dd", [Tree, Tree, DiffPreO, PopsO], DiffL, impl=None, note="common.default_diff(old, new, diff_pre, _pops) (proved in specs.basediff)")
M.export(DiffItem=PyFn("DiffItem", lambda ex, args, kwargs, st, node: PyTup(list(args))), common=PyConstObj("common"))


@M.spec
def batch_of(t: Tree) -> VSet:
    """the VLANs kept by the `vlan batch` lines of the new configuration"""
    if not t:
        return set()
    row = dhead(t)[0]
    return (vset(row) if pfx(row) == "vlan batch" else set()) | batch_of(dtail(t))


@M.spec
def vd(items: DiffL, batch: VSet) -> DiffL:
    """a removed `vlan N` that the batch still holds is only AFFECTED; a `vlan N` without options that the batch holds is not listed at
    all; everything else is passed through"""
    if not items:
        return []
    it = items[0]
    kept = bool(batch.intersection(vset(it.row)))
    if pfx(it.row) == "vlan" and it.op == Op.REMOVED and kept:
        here = [(Op.AFFECTED, it.row, it.children, it.diff_pre)]
    elif pfx(it.row) == "vlan" and kept and not it.children:
        here = []
    else:
        here = [it]
    return here + vd(items[1:], batch)


M.contract(F, "<default_diff>", params=dict(old=Tree, new=Tree, diff_pre=DiffPreO, _pops=PopsO), ret=DiffL, trusted=True,
           ensures=["result == dd(old, new, diff_pre, _pops)"], note="specs.basediff; here a function of its arguments", properties=["C11"])
M.contract(F, "vlan_diff", params=dict(old=Tree, new=Tree, diff_pre=DiffPreO, _pops=PopsO), ret=DiffL,
           locals=dict(batch_new=VSet, ret=DiffL, result_item=OptItem, vlans=VSet, vlan_ids=VSet),
           ensures=["result == vd(dd(old, new, diff_pre, _pops), batch_of(new))"],
           loops={1: dict(match="new", inv=["(batch_new | batch_of(_rest1)) == batch_of(new)"]),
                  2: dict(match="common.default_diff(old, new, diff_pre, _pops)", inv=["ret + vd(_rest2, batch_new) == vd(_it2, batch_new)"])},
           canaries=["len(result) == 0"], properties=["C11"],
           note="relative to _parse_vlancfg and default_diff (opaque)")
_q = {c.qual: c for c in M.contracts}
_q["vlan_diff"].calls["_parse_vlancfg"] = _q["<_parse_vlancfg>"]
_q["vlan_diff"].calls["common.default_diff"] = _q["<default_diff>"]


def _dd_impl(old, new, dp, pops):
    from annet.annlib.rulebook import common as _c
    return _c.default_diff(old, new, dp, pops)


dd.impl = _dd_impl


def _vd_inputs():
    import itertools
    from collections import OrderedDict as odict
    from annet.annlib.rulebook import common as _c
    rows = ["vlan 10", "vlan 20", "vlan batch 10 30", "vlan batch 20", "sysname x"]

    def dpre(old, new):
        out = odict()
        for t in (old, new):
            for r in t:
                out.setdefault(r, {"match": {"attrs": {"ignore_case": False, "diff_logic": _c.default_diff}, "rule": r}, "subtree": odict()})
        for r in out:
            out[r]["subtree"] = dpre(old.get(r, odict()), new.get(r, odict()))
        return out
    for no in range(0, 3):
        for o in itertools.combinations(rows, no):
            for nn in range(0, 3):
                for n in itertools.combinations(rows, nn):
                    for with_children in (False, True):
                        old = odict((r, odict([("description d", odict())]) if (with_children and r.startswith("vlan 1")) else odict()) for r in o)
                        new = odict((r, odict()) for r in n)
                        yield dict(old=old, new=new, diff_pre=dpre(old, new), _pops=(Op.AFFECTED,))


_q["vlan_diff"].native_inputs = _vd_inputs
_q["vlan_diff"].native_frame_skip = ["diff_pre"]
