"""Sidecar contracts for annet/generators/result.py: which Entire generator wins a path (C19)."""
import itertools

from pyvc.dsl import SpecModule
from pyvc.types import *
from pyvc.native import dhead, dtail, dput, dhas

M = SpecModule("results")
U = M.U
F = "annet/generators/result.py"

EntRes = U.record("EntRes", dict(path=STR, prio=INT, output=STR, reload=STR, is_safe=BOOL))
EntDict = U.dict("EntDict", STR, EntRes)
Results = U.record("Results", dict(entire_results=EntDict))
FileT = U.tuple("FileT", [STR, STR])
FileDict = U.dict("FileDict", STR, FileT)
EntList = U.list("EntList", EntRes)


@M.spec
def add1(m: EntDict, r: EntRes) -> EntDict:
    """a result replaces the planned one for its path only with a strictly larger priority; an empty path is ignored"""
    if r.path and (not dhas(m, r.path) or r.prio > m[r.path].prio):
        return dput(m, r.path, r)
    return m


@M.spec
def fold_add(m: EntDict, rs: EntList) -> EntDict:
    return m if not rs else fold_add(add1(m, rs[0]), rs[1:])


@M.spec
def dominated(m: EntDict, rs: EntList) -> BOOL:
    """every result with a path is present under its path with at least its priority"""
    if not rs:
        return True
    return ((not rs[0].path) or (dhas(m, rs[0].path) and m[rs[0].path].prio >= rs[0].prio)) and dominated(m, rs[1:])


@M.spec
def keyed_by_path(m: EntDict) -> BOOL:
    """representation invariant of entire_results: every entry sits under its own path"""
    return True if not m else (dhead(m)[0] == dhead(m)[1].path and keyed_by_path(dtail(m)))


@M.spec
def spec_nf(ents: EntDict, acc: FileDict, safe: BOOL) -> FileDict:
    if not ents:
        return acc
    gr = dhead(ents)[1]
    return spec_nf(dtail(ents), dput(acc, gr.path, (gr.output, gr.reload)) if (not safe or gr.is_safe) else acc, safe)


M.lemma("add_keeps_larger", vars=dict(m=EntDict, rs=EntList, p=STR), hyps=["dhas(m, p)"],
        goal="dhas(fold_add(m, rs), p) and fold_add(m, rs)[p].prio >= m[p].prio", induct="rs", properties=["C19"])
M.lemma("dominated_mono", vars=dict(m=EntDict, rs=EntList, r=EntRes), hyps=["dominated(m, rs)"],
        goal="dominated(add1(m, r), rs)", induct="rs", properties=["C19"])
M.lemma("fold_dominates", vars=dict(m=EntDict, rs=EntList), hyps=[], goal="dominated(fold_add(m, rs), rs)", induct="rs",
        use=["add_keeps_larger", "dominated_mono"], properties=["C19"])


def _mk_res(path, prio, safe=True):
    from annet.types import GeneratorEntireResult
    return GeneratorEntireResult(name="g%s%d" % (path, prio), tags=[], path=path, output="out-%s-%d" % (path, prio),
                                 reload="reload %s" % path, prio=prio, perf=None, is_safe=safe)


def _add_inputs():
    from annet.generators.result import RunGeneratorResult
    for pre in itertools.product([None, ("a", 1), ("a", 5), ("b", 3)], repeat=2):
        for path, prio in [("a", 0), ("a", 1), ("a", 3), ("a", 9), ("b", 3), ("b", 4), ("", 7), ("c", 1)]:
            r = RunGeneratorResult()
            for x in pre:
                if x:
                    r.entire_results[x[0]] = _mk_res(*x)
            yield dict(self=r, result=_mk_res(path, prio))


def _nf_inputs():
    from annet.generators.result import RunGeneratorResult
    for combo in itertools.product([None, ("a", 1, True), ("a", 2, False), ("b", 3, True), ("c", 1, False)], repeat=3):
        for safe in (False, True):
            r = RunGeneratorResult()
            for x in combo:
                if x:
                    r.entire_results[x[0]] = _mk_res(*x)
            yield dict(self=r, safe=safe)


M.contract(F, "RunGeneratorResult.add_entire", params=dict(self=Results, result=EntRes), ret=NONE, modifies=["self"],
           ensures=["self.entire_results == add1(old(self).entire_results, result)"],
           canaries=["self.entire_results == old(self).entire_results"], inputs=_add_inputs, properties=["C19"],
           note="a None path is modelled as the empty string (both falsy, never used as a key)")

M.contract(F, "RunGeneratorResult.new_files", params=dict(self=Results, safe=BOOL), defaults=dict(safe=False), ret=FileDict,
           locals=dict(files=FileDict),
           ensures=["result == spec_nf(self.entire_results, {}, safe)"],
           loops={1: dict(match="self.entire_results.values()", inv=["spec_nf(_rest1, files, safe) == spec_nf(self.entire_results, {}, safe)"])},
           canaries=["len(result) == 0"], inputs=_nf_inputs, properties=["C19"])


# ---- OldNewResult: which plan the deploy / diff code is handed (the safe filter must select the safe plan, nothing else)
FT = "annet/types.py"
FragD = U.opaque("FragD")
AclO = U.opaque("AclO")
ONR = U.record("ONR", dict(new_files=FileDict, safe_new_files=FileDict, new_json_fragment_files=FragD,
                           safe_new_json_fragment_files=FragD, acl_rules=AclO, acl_safe_rules=AclO))

def _onr_inputs():
    import types
    for safe in (False, True):
        for nf, snf in (({}, {}), ({"/a": ("x", "r")}, {}), ({"/a": ("x", "r")}, {"/a": ("y", "r")}), ({}, {"/b": ("z", "")})):
            yield dict(self=types.SimpleNamespace(new_files=nf, safe_new_files=snf, new_json_fragment_files={"f": ({"k": 1}, None)},
                                                  safe_new_json_fragment_files={}, acl_rules=None, acl_safe_rules=None), safe=safe)


M.contract(FT, "OldNewResult.get_new_files", inputs=_onr_inputs, params=dict(self=ONR, safe=BOOL), defaults=dict(safe=False), ret=FileDict,
           ensures=["result == (self.safe_new_files if safe else self.new_files)"], canaries=["result == self.new_files"],
           properties=["C19"])
M.contract(FT, "OldNewResult.get_new_file_fragments", inputs=_onr_inputs, params=dict(self=ONR, safe=BOOL), defaults=dict(safe=False), ret=FragD,
           ensures=["result == (self.safe_new_json_fragment_files if safe else self.new_json_fragment_files)"],
           canaries=["result == self.new_json_fragment_files"], properties=["C19"])
