"""Sidecar contracts for annet/annlib/rulebook/common.py: base_diff, default_diff, ordered_diff, _ignore_case (C03, C01)."""
import itertools
from collections import OrderedDict as odict

import z3
from pyvc.dsl import SpecModule, Lazy
from pyvc.types import *
from pyvc.values import V, PyConstObj, PyFn, PyTup, NONE_V, coerce
from pyvc.native import dhead, dtail, dput, dhas

from annet.annlib.rulebook import common as _c
from annet.annlib.types import Op

M = SpecModule("basediff")
U = M.U
F = "annet/annlib/rulebook/common.py"

OpT = U.enum("OpT", ["added", "removed", "affected", "moved", "unchanged"])
MRest = U.opaque("MRest")
MAttrs = U.record("MAttrs", dict(ignore_case=BOOL, rest=MRest))
MatchO = U.record("MatchO", dict(attrs=MAttrs, rest=MRest))
Tree = U.dict("Tree", STR, "Tree")
DP = U.record("DP", dict(match=MatchO, subtree="DiffPre"))     # diff_pre[row]
DiffPre = U.dict("DiffPre", STR, DP)
DiffItem = U.tuple("DiffItem", [OpT, STR, "Diff", MatchO], fields=["op", "row", "children", "diff_pre"])
Diff = U.list("Diff", DiffItem)
IdxItem = U.tuple("IdxItem", [INT, DiffItem])
SeqIdx = SeqT(IdxItem)
SeqOp = SeqT(OpT)
IdxMap = U.dict("IdxMap", STR, INT)


def _op():
    return PyConstObj("Op", dict(ADDED=V(OpT, OpT.const("added")), REMOVED=V(OpT, OpT.const("removed")),
                                 AFFECTED=V(OpT, OpT.const("affected")), MOVED=V(OpT, OpT.const("moved")),
                                 UNCHANGED=V(OpT, OpT.const("unchanged"))))


def _mk_item(ex, args, kwargs, st, node):
    return PyTup([kwargs["op"], kwargs["row"], kwargs["children"], kwargs["diff_pre"]])


# list.sort() of (index, DiffItem) pairs: left opaque (A3: a permutation, ordered by index, ties by the item's own comparison)
isort = M.opaque("isort", [SeqIdx], SeqIdx, impl=lambda xs: sorted(xs), note="list.sort() on (index, DiffItem) tuples (A3)")
cdl = M.opaque("cdl", [DiffPre, Tree, Tree, SeqOp], Diff, impl=lambda dp, old, new, pops: _c.call_diff_logic(dp, old, new, tuple(pops)),
               note="call_diff_logic: the children's diff by their own %diff_logic")


def _seq_sort(ex, recv, recv_node, args, kwargs, st, node):
    ex.assign_to(recv_node, V(SeqIdx, isort.decl()(recv.t)), st)
    return NONE_V


SeqIdx.methods = {"sort": _seq_sort}
M.export(Op=Lazy(_op), DiffItem=PyFn("DiffItem", _mk_item))


@M.spec
def covered(t: Tree, dp: DiffPre) -> BOOL:
    """every row of the level has its rule attached (apply_diff_rb pruned the others)"""
    return True if not t else (dhas(dp, dhead(t)[0]) and covered(dtail(t), dp))


@M.spec
def no_ic(rest: DiffPre, dp: DiffPre) -> BOOL:
    """no rule of the level (looked up by its row, as the code does) asks for %ignore_case"""
    return True if not rest else (not dp[dhead(rest)[0]]["match"]["attrs"]["ignore_case"] and no_ic(dtail(rest), dp))


@M.spec
def rem_items(rest: Tree, old: Tree, new: Tree, dp: DiffPre, pops: SeqOp, i: INT) -> SeqIdx:
    """rows of old that are absent from new: REMOVED, at their index in old, children diffed against nothing"""
    if not rest:
        return []
    row = dhead(rest)[0]
    tail = rem_items(dtail(rest), old, new, dp, pops, i + 1)
    if dhas(new, row):
        return tail
    return [(i, (Op.REMOVED, row, cdl(dp[row]["subtree"], old[row], {}, pops + [Op.REMOVED]), dp[row]["match"]))] + tail


@M.spec
def new_items(rest: Tree, new: Tree, old: Tree, dp: DiffPre, pops: SeqOp, i: INT, disorder: BOOL, mta: BOOL) -> SeqIdx:
    """rows of new, at their index in new: ADDED if absent from old; once a row was added or sits at another index than in old,
    this and all later common rows are MOVED (or keep the parent's op when moves are not tracked); else the parent's op"""
    if not rest:
        return []
    row = dhead(rest)[0]
    if not dhas(old, row):
        op = Op.ADDED
        d2 = True
    elif disorder or i != pos(old, row, 0):
        op = (pops[-1] if mta else Op.MOVED)
        d2 = True
    else:
        op = pops[-1]
        d2 = disorder
    return [(i, (op, row, cdl(dp[row]["subtree"], old[row] if dhas(old, row) else {}, new[row], pops + [op]), dp[row]["match"]))] \
        + new_items(dtail(rest), new, old, dp, pops, i + 1, d2, mta)


@M.spec
def pos(t: Tree, row: STR, i: INT) -> INT:
    """index of a row in its level"""
    return i if (not t or dhead(t)[0] == row) else pos(dtail(t), row, i + 1)


# ---- the property's "ops are exact" clauses as lemmas over the proved postcondition (the item lists before the index sort;
#      the sort itself is a permutation by A3, so it neither adds nor drops an item)
@M.spec
def removed_exact(items: SeqIdx, old: Tree, new: Tree) -> BOOL:
    """every item is a REMOVED row that old has and new lacks"""
    return True if not items else (items[0][1][0] == Op.REMOVED and dhas(old, items[0][1][1]) and not dhas(new, items[0][1][1])
                                   and removed_exact(items[1:], old, new))


@M.spec
def subkeys(rest: Tree, t: Tree) -> BOOL:
    return True if not rest else (dhas(t, dhead(rest)[0]) and subkeys(dtail(rest), t))


@M.spec
def added_exact(items: SeqIdx, old: Tree, new: Tree) -> BOOL:
    """every item is a row of new; it is ADDED exactly if old lacks it"""
    return True if not items else (dhas(new, items[0][1][1]) and ((items[0][1][0] == Op.ADDED) == (not dhas(old, items[0][1][1])))
                                   and added_exact(items[1:], old, new))


@M.spec
def all_op(items: SeqIdx, op: OpT) -> BOOL:
    return True if not items else (items[0][1][0] == op and all_op(items[1:], op))


M.lemma("removed_only_if_absent_from_new", vars=dict(rest=Tree, old=Tree, new=Tree, dp=DiffPre, pops=SeqOp, i=INT),
        hyps=["subkeys(rest, old)"], goal="removed_exact(rem_items(rest, old, new, dp, pops, i), old, new)", induct="rest",
        properties=["C03", "C01"])
M.lemma("added_iff_absent_from_old", vars=dict(rest=Tree, old=Tree, new=Tree, dp=DiffPre, pops=SeqOp, i=INT, dis=BOOL, mta=BOOL),
        hyps=["subkeys(rest, new)", "len(pops) > 0", "pops[-1] != Op.ADDED"],
        goal="added_exact(new_items(rest, new, old, dp, pops, i, dis, mta), old, new)", induct="rest", properties=["C03", "C01"])
M.lemma("nothing_removed_when_all_rows_stay", vars=dict(rest=Tree, old=Tree, new=Tree, dp=DiffPre, pops=SeqOp, i=INT),
        hyps=["subkeys(rest, new)"], goal="rem_items(rest, old, new, dp, pops, i) == []", induct="rest", properties=["C03", "C01"])

# ---- "comparing a configuration with itself reports no change" (per level; the children are diffed the same way by call_diff_logic)
from pyvc.native import dapp, dcons, dwf       # noqa: E402

M.lemma("wf_app_fresh_key", vars=dict(pre=Tree, k=STR, v=Tree, tl=Tree), hyps=["dwf(dapp(pre, dcons(k, v, tl)))"],
        goal="not dhas(pre, k)", induct="pre", properties=["C03"])
M.lemma("pos_after_prefix", vars=dict(pre=Tree, k=STR, v=Tree, tl=Tree, i=INT), hyps=["not dhas(pre, k)"],
        goal="pos(dapp(pre, dcons(k, v, tl)), k, i) == i + len(pre)", induct="pre", properties=["C03"])
M.lemma("snoc_then_rest", vars=dict(pre=Tree, k=STR, v=Tree, tl=Tree, e=Tree), hyps=["not e"],
        goal="dapp(dapp(pre, dcons(k, v, e)), tl) == dapp(pre, dcons(k, v, tl)) and len(dapp(pre, dcons(k, v, e))) == len(pre) + 1",
        induct="pre", properties=["C03"])
M.lemma("self_diff_keeps_the_parent_op", vars=dict(rest=Tree, pre=Tree, dp=DiffPre, pops=SeqOp, mta=BOOL, e=Tree),
        hyps=["dwf(dapp(pre, rest))", "len(pops) > 0", "not e"],
        goal="all_op(new_items(rest, dapp(pre, rest), dapp(pre, rest), dp, pops, len(pre), False, mta), pops[-1])", induct="rest",
        ih=[dict(pre="dapp(pre, dcons(dhead(rest)[0], dhead(rest)[1], e))")],
        instances=[("wf_app_fresh_key", dict(pre="pre", k="dhead(rest)[0]", v="dhead(rest)[1]", tl="dtail(rest)")),
                   ("pos_after_prefix", dict(pre="pre", k="dhead(rest)[0]", v="dhead(rest)[1]", tl="dtail(rest)", i="0")),
                   ("snoc_then_rest", dict(pre="pre", k="dhead(rest)[0]", v="dhead(rest)[1]", tl="dtail(rest)", e="e"))],
        properties=["C03"])
M.lemma("subkeys_of_a_suffix", vars=dict(rest=Tree, pre=Tree, e=Tree), hyps=["not e"], goal="subkeys(rest, dapp(pre, rest))", induct="rest",
        ih=[dict(pre="dapp(pre, dcons(dhead(rest)[0], dhead(rest)[1], e))")], properties=["C03"])
M.lemma("self_diff_reports_no_change", vars=dict(t=Tree, dp=DiffPre, pops=SeqOp, mta=BOOL, e=Tree), hyps=["dwf(t)", "len(pops) > 0", "not e"],
        goal="rem_items(t, t, t, dp, pops, 0) == [] and all_op(new_items(t, t, t, dp, pops, 0, False, mta), pops[-1])",
        instances=[("self_diff_keeps_the_parent_op", dict(rest="t", pre="e", dp="dp", pops="pops", mta="mta", e="e")),
                   ("subkeys_of_a_suffix", dict(rest="t", pre="e", e="e")),
                   ("nothing_removed_when_all_rows_stay", dict(rest="t", old="t", new="t", dp="dp", pops="pops", i="0"))],
        properties=["C03"])

M.lemma("index_map_is_pos", vars=dict(t=Tree, row=STR, i=INT), hyps=["dhas(t, row)"],
        goal="imap(t, i)[row] == pos(t, row, i)", induct="t", properties=["C03"], pattern="imap(t, i)[row]")
M.lemma("index_map_has", vars=dict(t=Tree, row=STR, i=INT), hyps=[],
        goal="dhas(imap(t, i), row) == dhas(t, row)", induct="t", properties=["C03"], pattern="dhas(imap(t, i), row)")


def _imap_call(ex, args, kwargs, st, node):
    from pyvc.execu import _comp_cache
    from pyvc.defs import rec_function, add_definition
    d = coerce(args[0], Tree)
    key = "idxmap_%s_%s" % (Tree.name, IdxMap.name)
    if key not in _comp_cache:
        f = rec_function(key, Tree.sort(), z3.IntSort(), IdxMap.sort())
        dd = z3.Const(key + "_d", Tree.sort())
        ii = z3.Int(key + "_i")
        add_definition(f, [dd, ii], z3.If(Tree.is_nil(dd), IdxMap.nil, IdxMap.cons(Tree.k(dd), ii, f(Tree.tl(dd), ii + 1))))
        _comp_cache[key] = (f, IdxMap)
    return V(IdxMap, _comp_cache[key][0](d.t, coerce(args[1], INT).t))


M.export(imap=PyFn("imap", _imap_call))

# ---- native inputs (run-time evaluation of the same contracts on the real functions: bounded, and the CPython cross-check)
def _trees(depth):
    rows = ["a", "b", "c"]
    yield odict()
    for n in (1, 2, 3):
        for perm in itertools.permutations(rows, n):
            if depth <= 0:
                yield odict((r, odict()) for r in perm)
            else:
                yield odict((r, odict()) for r in perm)
                yield odict((r, (odict([("x", odict())]) if i == 0 else odict([("y", odict()), ("x", odict())]))) for i, r in enumerate(perm))


def _dpre(old, new, logic, ic=False):
    out = odict()
    for t in (old, new):
        for r, ch in t.items():
            if r not in out:
                out[r] = {"match": {"attrs": {"ignore_case": ic, "diff_logic": logic, "rule": r}}, "subtree": odict()}
    for r in out:
        out[r]["subtree"] = _dpre(old.get(r, odict()), new.get(r, odict()), logic, ic)
    return out


def _bd_inputs():
    # levels with %ignore_case rules: rows differing only in case are the same row
    for rows_o, rows_n in ((["A", "b"], ["a", "B"]), (["Ab", "c"], ["c", "aB"]), (["x"], ["X", "y"]), (["P", "q"], ["q"])):
        old = odict((r, odict()) for r in rows_o)
        new = odict((r, odict()) for r in rows_n)
        for ic_all in (True, False):
            dp = _dpre(old, new, _c.default_diff, ic=ic_all)
            if not ic_all:
                dp[rows_o[0]]["match"]["attrs"]["ignore_case"] = True
            for mta in (False, True):
                yield dict(old=old, new=new, diff_pre=dp, pops=[Op.AFFECTED], moved_to_affected=mta)
    for old in _trees(1):
        for new in _trees(1):
            for logic in (_c.default_diff, _c.ordered_diff):
                for pops in ([Op.AFFECTED], [Op.AFFECTED, Op.MOVED]):
                    for mta in (False, True):
                        yield dict(old=old, new=new, diff_pre=_dpre(old, new, logic), pops=list(pops), moved_to_affected=mta)
def _dd_inputs():
    for case in _bd_inputs():
        if case["moved_to_affected"]:
            yield dict(old=case["old"], new=case["new"], diff_pre=case["diff_pre"], _pops=case["pops"])


def _ic_inputs():
    for old in _trees(0):
        for new in _trees(0):
            yield dict(diff_pre=_dpre(old, new, _c.default_diff), cfg=old)
    # levels with %ignore_case rules and mixed-case rows
    for rows in (["A", "b"], ["Ab", "aB", "c"], ["x"], ["X", "x"]):
        for ic_rows in ([], rows[:1], rows):
            cfg = odict((r, odict()) for r in rows)
            dp = _dpre(cfg, odict(), _c.default_diff)
            for r in ic_rows:
                dp[r]["match"]["attrs"]["ignore_case"] = True
            yield dict(diff_pre=dp, cfg=cfg)


def _nat(fn, pops_name):
    def call(**kw):
        kw[pops_name] = tuple(kw[pops_name])
        return fn(**kw)
    return call


M.contract(F, "call_diff_logic", params=dict(diff_pre=DiffPre, old=Tree, new=Tree, pops=SeqOp), ret=Diff, trusted=True,
           ensures=["result == cdl(diff_pre, old, new, pops)"],
           note="assumed: groups rows by their %diff_logic and dispatches (function values stored in the rulebook): bounded only",
           properties=["C03", "C01"])

TD = U.tuple("TD", [Tree, DiffPre])


@M.spec
def lcf(rest: Tree, cfg: Tree, ret: Tree, dp: DiffPre) -> TD:
    """the level with the rows of %ignore_case rules lower-cased (values kept), and diff_pre extended so that every new row carries
    the rule of the row it came from"""
    if not rest:
        return (ret, dp)
    row = dhead(rest)[0]
    new_row = row.lower() if dp[row]["match"]["attrs"]["ignore_case"] else row
    return lcf(dtail(rest), cfg, dput(ret, new_row, cfg[row]), dput(dp, new_row, dp[row]))


M.lemma("covered_after_put", vars=dict(t=Tree, dp=DiffPre, k=STR, v=DP), hyps=["covered(t, dp)"], goal="covered(t, dput(dp, k, v))",
        induct="t", pattern="covered(t, dput(dp, k, v))", properties=["C03"])

@M.spec
def ic(cfg: Tree, dp: DiffPre) -> TD:
    """_ignore_case as a function: (the level as compared, diff_pre as extended)"""
    return (cfg, dp) if no_ic(dp, dp) else lcf(cfg, cfg, {}, dp)


M.lemma("covered_lcf_keeps", vars=dict(rest=Tree, cfg=Tree, ret=Tree, dp=DiffPre, t=Tree), hyps=["covered(t, dp)", "covered(rest, dp)"],
        goal="covered(t, lcf(rest, cfg, ret, dp)[1])", induct="rest", ih=[dict(ret="dput(ret, (dhead(rest)[0].lower() if dp[dhead(rest)[0]]['match']['attrs']['ignore_case'] else dhead(rest)[0]), cfg[dhead(rest)[0]])",
                                                                       dp="dput(dp, (dhead(rest)[0].lower() if dp[dhead(rest)[0]]['match']['attrs']['ignore_case'] else dhead(rest)[0]), dp[dhead(rest)[0]])")],
        use=["covered_after_put"], pattern="covered(t, lcf(rest, cfg, ret, dp)[1])", properties=["C03"])
M.lemma("covered_put_both", vars=dict(t=Tree, dp=DiffPre, k=STR, v=Tree, w=DP), hyps=["covered(t, dp)"],
        goal="covered(dput(t, k, v), dput(dp, k, w))", induct="t", use=["covered_after_put"], properties=["C03"])
M.lemma("covered_lcf_result", vars=dict(rest=Tree, cfg=Tree, ret=Tree, dp=DiffPre), hyps=["covered(ret, dp)", "covered(rest, dp)"],
        goal="covered(lcf(rest, cfg, ret, dp)[0], lcf(rest, cfg, ret, dp)[1])", induct="rest",
        ih=[dict(ret="dput(ret, (dhead(rest)[0].lower() if dp[dhead(rest)[0]]['match']['attrs']['ignore_case'] else dhead(rest)[0]), cfg[dhead(rest)[0]])",
                 dp="dput(dp, (dhead(rest)[0].lower() if dp[dhead(rest)[0]]['match']['attrs']['ignore_case'] else dhead(rest)[0]), dp[dhead(rest)[0]])")],
        use=["covered_after_put", "covered_put_both"], pattern="lcf(rest, cfg, ret, dp)", properties=["C03"])
M.lemma("ic_keeps_covered", vars=dict(cfg=Tree, dp=DiffPre, t=Tree), hyps=["covered(t, dp)", "covered(cfg, dp)"],
        goal="covered(t, ic(cfg, dp)[1]) and covered(ic(cfg, dp)[0], ic(cfg, dp)[1])",
        instances=[("covered_lcf_keeps", dict(rest="cfg", cfg="cfg", ret="{}", dp="dp", t="t")),
                   ("covered_lcf_result", dict(rest="cfg", cfg="cfg", ret="{}", dp="dp"))], properties=["C03"])

M.contract(F, "_ignore_case", params=dict(diff_pre=DiffPre, cfg=Tree), ret=Tree, modifies=["diff_pre"], locals=dict(ret=Tree),
           requires=["covered(cfg, diff_pre)"],
           ensures=["implies(no_ic(old(diff_pre), old(diff_pre)), result == cfg and diff_pre == old(diff_pre))",
                    "implies(not no_ic(old(diff_pre), old(diff_pre)), result == lcf(cfg, cfg, {}, old(diff_pre))[0] and "
                    "diff_pre == lcf(cfg, cfg, {}, old(diff_pre))[1])"],
           loops={1: dict(match="diff_pre", inv=["(has_ignore_case or not no_ic(_rest1, diff_pre)) == (not no_ic(diff_pre, diff_pre))"]),
                  2: dict(match="cfg", inv=["covered(_rest2, diff_pre)",
                                            "lcf(_rest2, cfg, ret, diff_pre) == lcf(cfg, cfg, {}, old(diff_pre))"])},
           use=["covered_after_put"],
           canaries=["len(result) == 0"], properties=["C03", "C01"], inputs=_ic_inputs,
           note="both branches: without an %ignore_case rule the level is returned as it is; with one, rows of such rules are lower-cased")

_BD = ("[x[1] for x in isort(rem_items(ic(old, old(diff_pre))[0], ic(old, old(diff_pre))[0], ic(new, ic(old, old(diff_pre))[1])[0], "
       "ic(new, ic(old, old(diff_pre))[1])[1], %(pops)s, 0) + new_items(ic(new, ic(old, old(diff_pre))[1])[0], "
       "ic(new, ic(old, old(diff_pre))[1])[0], ic(old, old(diff_pre))[0], ic(new, ic(old, old(diff_pre))[1])[1], %(pops)s, 0, False, %(mta)s))]")

M.contract(F, "base_diff", params=dict(old=Tree, new=Tree, diff_pre=DiffPre, pops=SeqOp, moved_to_affected=BOOL),
           defaults=dict(moved_to_affected=False), ret=Diff, locals=dict(diff_indexed=SeqIdx, old_indexes=IdxMap, block_in_disorder=BOOL),
           index_map_type=IdxMap, comp_types={"*": Diff}, modifies=["diff_pre"],
           requires=["covered(old, diff_pre)", "covered(new, diff_pre)", "len(pops) > 0"],
           ensures=["result == " + _BD % dict(pops="pops", mta="moved_to_affected"),
                    "diff_pre == ic(new, ic(old, old(diff_pre))[1])[1]"],
           loops={1: dict(match="enumerate(old)",
                          inv=["covered(_rest1, diff_pre)",
                               "diff_indexed + rem_items(_rest1, old, new, diff_pre, pops, _i1) == rem_items(old, old, new, diff_pre, pops, 0)"]),
                  2: dict(match="enumerate(new)",
                          inv=["covered(_rest2, diff_pre)",
                               "diff_indexed + new_items(_rest2, new, old, diff_pre, pops, _i2, block_in_disorder, moved_to_affected) == "
                               "rem_items(old, old, new, diff_pre, pops, 0) + new_items(new, new, old, diff_pre, pops, 0, False, moved_to_affected)"])},
           use=["index_map_is_pos", "index_map_has", "covered_lcf_keeps", "covered_lcf_result"], inputs=_bd_inputs,
           ghost_after={"_ignore_case#1": [("covered_lcf_result", dict(rest="old", cfg="old", ret="{}", dp="diff_pre")),
                                           ("covered_lcf_keeps", dict(rest="old", cfg="old", ret="{}", dp="diff_pre", t="new"))],
                        "_ignore_case#2": [("covered_lcf_result", dict(rest="new", cfg="new", ret="{}", dp="diff_pre")),
                                           ("covered_lcf_keeps", dict(rest="new", cfg="new", ret="{}", dp="diff_pre", t="old"))]},
           native_fn=_nat(_c.base_diff, "pops"),
           canaries=["len(result) == 0"], properties=["C03", "C01"],
           note="old and new are compared as _ignore_case returns them (rows of %ignore_case rules lower-cased; diff_pre extended)")

M.contract(F, "default_diff", params=dict(old=Tree, new=Tree, diff_pre=DiffPre, _pops=SeqOp), ret=Diff, modifies=["diff_pre"],
           requires=["covered(old, diff_pre)", "covered(new, diff_pre)", "len(_pops) > 0"],
           ensures=["result == " + _BD % dict(pops="_pops", mta="True")],
           comp_types={"*": Diff}, canaries=["len(result) == 0"], properties=["C03", "C01"], inputs=_dd_inputs, native_fn=_nat(_c.default_diff, "_pops"))
M.contract(F, "ordered_diff", params=dict(old=Tree, new=Tree, diff_pre=DiffPre, _pops=SeqOp), ret=Diff, modifies=["diff_pre"],
           requires=["covered(old, diff_pre)", "covered(new, diff_pre)", "len(_pops) > 0"],
           ensures=["result == " + _BD % dict(pops="_pops", mta="False")],
           comp_types={"*": Diff}, canaries=["len(result) == 0"], properties=["C03", "C01"], inputs=_dd_inputs, native_fn=_nat(_c.ordered_diff, "_pops"))
