"""Sidecar contract for annet/annlib/patching.py:Orderer.order_config (C08): ordering a configuration only permutes the rows of
every block: the result holds, per block, exactly the rows of the input, stably sorted by the rank get_order gives them (negated
rows by the mirrored rank, before direct rows of the same rank), children ordered by the child rules get_order hands down.

get_order itself (best matching ordering rule: regex matches, character-set weights, float('inf') for block exits) stays an
ASSUMED contract: three uninterpreted functions of (rules, vendor, row, direct)."""
import z3
from pyvc.dsl import SpecModule, Lazy
from pyvc.types import *
from pyvc.values import V, PyConstObj, PyFn, NONE_V, coerce, PyTup, Unsupported, lift, fresh
from pyvc.native import dhead, dtail, dput, dhas

M = SpecModule("ordercfg")
U = M.U
F = "annet/annlib/patching.py"

Rb = U.opaque("Rb")                                   # a compiled ordering rulebook (odict raw_rule -> rule)
RuleO = U.opaque("RuleO")
VendorRec = U.record("VendorRec", dict(reverse=STR, exit=STR))
Reg = U.dict("Reg", STR, VendorRec)                   # the vendor registry
Ord = U.record("Ord", dict(rb=Rb, vendor=STR))        # an Orderer
Tree = U.dict("Tree", STR, "Tree")
Item = U.record("Item", dict(row=STR, children=Tree, direct=BOOL, order=INT))
Items = U.list("Items", Item)
Pair = U.tuple("Pair", [STR, Tree])
Pairs = U.list("Pairs", Pair)
OptStr = U.union("OptStr", dict(none=None, some=STR))
GO = U.tuple("GO", [INT, BOOL, Rb, RuleO])


def _real_get_order(rb, vendor, row, cd):
    from annet.annlib.patching import Orderer
    return Orderer(rb, vendor).get_order(row, cd)


ord_of = M.opaque("ord_of", [Rb, STR, STR, BOOL], INT, impl=lambda rb, v, row, cd: _real_get_order(rb, v, row, cd)[0],
                  note="Orderer(rb, vendor).get_order(row, direct)[0]: rank of the best matching ordering rule")
dir_of = M.opaque("dir_of", [Rb, STR, STR, BOOL], BOOL, impl=lambda rb, v, row, cd: _real_get_order(rb, v, row, cd)[1],
                  note="get_order(...)[1]: whether the row counts as a direct command")
rb_of = M.opaque("rb_of", [Rb, STR, STR, BOOL], Rb, impl=lambda rb, v, row, cd: _real_get_order(rb, v, row, cd)[2],
                 note="get_order(...)[2]: the ordering rules handed down to the row's children")
rule_of = M.opaque("rule_of", [Rb, STR, STR, BOOL], RuleO, impl=lambda rb, v, row, cd: _real_get_order(rb, v, row, cd)[3])


def _the_registry():
    return V(Reg, z3.Const("the_vendor_registry", Reg.sort()))


@M.spec
def kle(a: Item, b: Item) -> BOOL:
    """a's sort key (rank if direct else -rank, direct) is <= b's, tuples compared lexicographically, False < True"""
    ka = a["order"] if a["direct"] else -a["order"]
    kb = b["order"] if b["direct"] else -b["order"]
    return ka < kb or (ka == kb and (not a["direct"] or b["direct"]))


@M.spec
def oins(x: Item, ys: Items) -> Items:
    """x, which stood before all of ys, goes before the first element whose key is not smaller (stability)"""
    if not ys or kle(x, ys[0]):
        return [x] + ys
    return [ys[0]] + oins(x, ys[1:])


@M.spec
def osort(xs: Items) -> Items:
    """stable sort by the key"""
    return [] if not xs else oins(xs[0], osort(xs[1:]))


@M.spec
def pairs_of(xs: Items) -> Pairs:
    return [] if not xs else [(xs[0]["row"], xs[0]["children"])] + pairs_of(xs[1:])


@M.spec
def from_pairs(ps: Pairs, acc: Tree) -> Tree:
    """odict(pairs): inserted from left to right"""
    return acc if not ps else from_pairs(ps[1:], dput(acc, ps[0][0], ps[0][1]))


@M.spec
def items_of(rest: Tree, rb: Rb, vendor: STR) -> Items:
    """every row with its rank, its direction and its children ordered by the rules handed down to them"""
    if not rest:
        return []
    row = dhead(rest)[0]
    cd = not row.startswith(REG[vendor].reverse + " ")       # a removal: the vendor's negation WORD, then the command
    return [{"row": row, "children": oc(dhead(rest)[1], rb_of(rb, vendor, row, cd), vendor), "direct": dir_of(rb, vendor, row, cd),
             "order": ord_of(rb, vendor, row, cd)}] + items_of(dtail(rest), rb, vendor)


@M.spec
def oc(config: Tree, rb: Rb, vendor: STR) -> Tree:
    if vendor not in REG:
        return config
    if not config:
        return {}
    return from_pairs(pairs_of(osort(items_of(config, rb, vendor))), {})


# ---- the code's library calls
def _sorted(ex, args, kwargs, st, node):
    """sorted(xs, key=<lambda>) over Items: modelled as the stable insertion sort `osort` by `kle` (assumption A3: list.sort/sorted is
    a stable sort by the key); that the lambda's key order IS kle is an obligation, for two arbitrary items"""
    if set(kwargs) != {"key"} or len(args) != 1 or not isinstance(kwargs["key"], PyFn):
        raise Unsupported("sorted() in another shape than sorted(xs, key=lambda ...)")
    xs = coerce(args[0], Items)
    a, b = fresh(Item, "sort_a"), fresh(Item, "sort_b")
    ka = lift(kwargs["key"].call(ex, [a], {}, st, node))
    kb = lift(kwargs["key"].call(ex, [b], {}, st, node))
    if not (isinstance(ka, PyTup) and isinstance(kb, PyTup) and len(ka.items) == len(kb.items)):
        raise Unsupported("sort key is not a tuple")
    le = z3.BoolVal(True)
    for x, y in reversed(list(zip(ka.items, kb.items))):
        x, y = lift(x), lift(y)
        if x.ty is INT and y.ty is INT:
            lt, eq = x.t < y.t, x.t == y.t
        elif x.ty is BOOL and y.ty is BOOL:
            lt, eq = z3.And(z3.Not(x.t), y.t), x.t == y.t
        else:
            raise Unsupported("sort key component of type %s" % x.ty)
        le = z3.Or(lt, z3.And(eq, le))
    ex.ctx.oblige("safety", st, le == kle.sym_call(ex, [a, b], {}, st, node).t, node.lineno,
                  "the key of sorted() orders two items as the statement says: (rank if direct else -rank, direct)")
    return osort.sym_call(ex, [xs], {}, st, node)


def _odict(ex, args, kwargs, st, node):
    if not args:
        return PyTup([], True)
    return from_pairs.sym_call(ex, [coerce(args[0], Pairs), V(Tree, Tree.nil)], {}, st, node)


def _orderer(ex, args, kwargs, st, node):
    return V(Ord, Ord.mk(rb=coerce(args[0], Rb).t, vendor=coerce(args[1], STR).t))


M.export(REG=Lazy(_the_registry), sorted=PyFn("sorted", _sorted), odict=PyFn("odict", _odict), Orderer=PyFn("Orderer", _orderer),
         registry_connector=PyConstObj("registry_connector", dict(get=PyFn("registry_connector.get",
                                                                          lambda ex, args, kwargs, st, node: _the_registry()))))


def __getattr__(name):          # native side: the registry is whatever registry_connector.get() returns
    if name == "REG":
        from bounded.common import setup_annet
        setup_annet()
        from annet.vendors import registry_connector
        return registry_connector.get()
    raise AttributeError(name)


# ---- lemmas
M.lemma("pairs_comprehension", vars=dict(xs=Items), hyps=[],
        goal="[(item['row'], item['children']) for item in xs] == pairs_of(xs)", induct="xs",
        pattern="[(item['row'], item['children']) for item in xs]", comp_types={"*": Pairs}, properties=["C08"])

@M.spec
def in_items(r: STR, xs: Items) -> BOOL:
    return False if not xs else (xs[0]["row"] == r or in_items(r, xs[1:]))


@M.spec
def in_pairs(r: STR, ps: Pairs) -> BOOL:
    return False if not ps else (ps[0][0] == r or in_pairs(r, ps[1:]))


@M.spec
def ascending(xs: Items) -> BOOL:
    """every element's key is <= its successor's"""
    return True if (not xs or not xs[1:]) else (kle(xs[0], xs[1:][0]) and ascending(xs[1:]))


@M.spec
def child_of(r: STR, xs: Items, dflt: Tree) -> Tree:
    """children of the LAST item whose row is r (what odict(pairs) keeps)"""
    return dflt if not xs else child_of(r, xs[1:], xs[0]["children"] if xs[0]["row"] == r else dflt)


M.lemma("insert_keeps_rows", vars=dict(r=STR, x=Item, ys=Items), hyps=[],
        goal="in_items(r, oins(x, ys)) == (x['row'] == r or in_items(r, ys))", induct="ys", properties=["C08"])
M.lemma("sort_keeps_rows", vars=dict(r=STR, xs=Items), hyps=[], goal="in_items(r, osort(xs)) == in_items(r, xs)", induct="xs",
        use=["insert_keeps_rows"], properties=["C08"],
        note="sorting loses and invents no row")
M.lemma("items_are_the_rows", vars=dict(r=STR, t=Tree, rb=Rb, vendor=STR), hyps=[],
        goal="in_items(r, items_of(t, rb, vendor)) == dhas(t, r)", induct="t", properties=["C08"])
M.lemma("pairs_keep_rows", vars=dict(r=STR, xs=Items), hyps=[], goal="in_pairs(r, pairs_of(xs)) == in_items(r, xs)", induct="xs",
        properties=["C08"])
M.lemma("odict_of_pairs_has_their_keys", vars=dict(r=STR, ps=Pairs, acc=Tree), hyps=[],
        goal="dhas(from_pairs(ps, acc), r) == (dhas(acc, r) or in_pairs(r, ps))", induct="ps", general=["acc"], properties=["C08"])
M.lemma("odict_of_pairs_is_a_dict", vars=dict(ps=Pairs, acc=Tree), hyps=["dwf(acc)"], goal="dwf(from_pairs(ps, acc))", induct="ps",
        general=["acc"], properties=["C08"])
M.lemma("ordering_only_permutes_the_rows_of_a_block", vars=dict(r=STR, config=Tree, rb=Rb, vendor=STR), hyps=[],
        goal="dhas(oc(config, rb, vendor), r) == dhas(config, r)",
        use=["sort_keeps_rows", "items_are_the_rows", "pairs_keep_rows", "odict_of_pairs_has_their_keys"], properties=["C08"],
        note="C08: ordering a configuration loses no row of a block and adds none (the result being a dict, none is duplicated)")
M.lemma("ordered_config_is_a_dict", vars=dict(config=Tree, rb=Rb, vendor=STR), hyps=["dwf(config)"], goal="dwf(oc(config, rb, vendor))",
        use=["odict_of_pairs_is_a_dict"], properties=["C08"],
        instances=[("odict_of_pairs_is_a_dict", dict(ps="pairs_of(osort(items_of(config, rb, vendor)))", acc="from_pairs([], {})"))])
M.lemma("total_order_on_keys", vars=dict(a=Item, b=Item), hyps=[], goal="kle(a, b) or kle(b, a)", properties=["C08"])
M.lemma("insert_keeps_ascending", vars=dict(x=Item, ys=Items), hyps=["ascending(ys)"], goal="ascending(oins(x, ys))", induct="ys",
        use=["total_order_on_keys"], properties=["C08"])
M.lemma("sorted_rows_ascend_by_rank", vars=dict(xs=Items), hyps=[], goal="ascending(osort(xs))", induct="xs",
        use=["insert_keeps_ascending"], properties=["C08"],
        note="C08: in the sorted block a row of smaller key (rank if direct else -rank, direct) never follows one of larger key")


M.lemma("insert_in_front", vars=dict(x=Item, ys=Items), hyps=["not ys or kle(x, ys[0])"], goal="oins(x, ys) == [x] + ys",
        properties=["C08"])
M.lemma("tail_of_ascending", vars=dict(xs=Items), hyps=["ascending(xs)", "len(xs) > 0"],
        goal="ascending(xs[1:]) and (not xs[1:] or kle(xs[0], xs[1:][0]))", properties=["C08"])
M.lemma("sorting_an_ascending_list_changes_nothing", vars=dict(xs=Items), hyps=["ascending(xs)"], goal="osort(xs) == xs", induct="xs",
        use=["insert_in_front", "tail_of_ascending"], properties=["C08"],
        instances=[("tail_of_ascending", dict(xs="xs")), ("insert_in_front", dict(x="xs[0]", ys="xs[1:]"))], note="stability: rows already in key order (in particular rows of equal key) keep their relative order")
M.lemma("sorting_twice_is_sorting_once", vars=dict(xs=Items), hyps=[], goal="osort(osort(xs)) == osort(xs)",
        use=["sorting_an_ascending_list_changes_nothing", "sorted_rows_ascend_by_rank"], properties=["C08"],
        instances=[("sorting_an_ascending_list_changes_nothing", dict(xs="osort(xs)")), ("sorted_rows_ascend_by_rank", dict(xs="xs"))],
        note="C08: the sort step of order_config is idempotent (idempotence of the whole of order_config, through get_order and the children, "
             "is decided by the bounded layer)")

GET_ORDER = M.contract(
    F, "Orderer.get_order", params=dict(self=Ord, row=STR, cmd_direct=BOOL, scope=OptStr), defaults=dict(scope=None), ret=GO, trusted=True,
    ensures=["result[0] == ord_of(self.rb, self.vendor, row, cmd_direct) if scope is None else True",
             "result[1] == dir_of(self.rb, self.vendor, row, cmd_direct) if scope is None else True",
             "result[2] == rb_of(self.rb, self.vendor, row, cmd_direct) if scope is None else True"],
    note="assumed HERE: get_order is a function of (rules, vendor, row, direct); that is what the contract of get_order in "
         "specs/getorder.py establishes (result == a fold over the rules, the registry entry of the vendor and the arguments)",
    properties=["C08"])

ORDER_CONFIG = M.contract(
    F, "Orderer.order_config", params=dict(self=Ord, config=Tree), ret=Tree, locals=dict(ordered=Items),
    comp_types={"*": Pairs}, use=["pairs_comprehension"],
    ensures=["result == oc(config, self.rb, self.vendor)"],
    loops={1: dict(match="config.items()",
                   inv=["ordered + items_of(_rest1, self.rb, self.vendor) == items_of(config, self.rb, self.vendor)"])},
    canaries=["len(result) == 0"], properties=["C08"],
    note="relative to the assumed contract of get_order, the stable-sort model of sorted() and left-to-right odict(pairs)")
ORDER_CONFIG.calls = {"self.get_order": GET_ORDER, "child_orderer.order_config": ORDER_CONFIG}


# ---- native evaluation
def _oc_inputs():
    from collections import OrderedDict as odict
    from bounded.common import setup_annet
    setup_annet()
    from annet.vendors import registry_connector
    globals()["REG"] = registry_connector.get()
    from annet.annlib.patching import Orderer
    from annet.annlib.rbparser.ordering import compile_ordering_text
    import bounded.gen_rb as g
    texts = ["""
a *
b *      %order_reverse
c
    x *
    y *  %order_reverse
    z
d ~      %global
""", """
c
    z
    x *
vlan *
a *
"""]

    def tree(nested):
        return odict((r, tree(ch or [])) for r, ch in nested)
    texts.append("""
first *
p *
    first *
    q *
        first *
        r2 *
        r1 *
{neg}tify *
""")
    cfgs = [[], [["b 1", None], ["a 2", None], ["zz", None], ["a 1", None]],
            [["p 1", [["q 1", [["r1 a", None], ["r2 b", None]]]]]],                                   # a block that is an only child
            [["zz", None], ["p 1", [["q 1", [["r1 a", None], ["r2 b", None], ["{neg} r1 c", None]]]]], ["{neg}tify 1", None],
             ["{neg} {neg}tify 1", None], ["first 1", None]],
            [["{neg} b 1", None], ["{neg} a 1", None], ["a 1", None], ["b 2", None], ["{neg} b 2", None]],
            [["zz", None], ["c", [["z", None], ["{neg} y 1", None], ["y 2", None], ["x 1", None], ["d 5", None], ["q", None]]], ["a 1", None],
             ["d 1 2", None]],
            [["vlan 2", [["x 1", None]]], ["c", [["x 1", None], ["z", None]]], ["yy", None], ["xx", None]]]
    for vendor in ("huawei", "cisco", "juniper", "nosuchvendor"):
        neg = {"huawei": "undo", "cisco": "no", "juniper": "delete"}.get(vendor, "no")
        for text in texts:
            rb = compile_ordering_text(text.replace("{neg}", neg), vendor) if vendor != "nosuchvendor" else odict()
            for cfg in cfgs:
                def sub(n):
                    return [[r.replace("{neg}", neg), sub(ch) if ch else None] for r, ch in n]
                yield dict(self=Orderer(rb, vendor), config=tree(sub(cfg)))
    seen = set()
    for s in g.corpus():
        if s["model"] in seen:
            continue
        seen.add(s["model"])
        from annet.patching import Orderer as HwOrderer
        yield dict(self=HwOrderer.from_hw(g.hw_of(s["model"])), config=g.to_tree(s["new"]))


ORDER_CONFIG.native_inputs = _oc_inputs
