"""Sidecar contracts for annet/annlib/lib.py: collapse_vlandb (C11) - the ranges denote exactly the sorted distinct VLANs."""
import itertools

import z3
from pyvc.dsl import SpecModule, Lazy
from pyvc.types import *
from pyvc.values import V, PyConstObj, PyFn, PyTup, NONE_V, coerce

M = SpecModule("vlandb")
U = M.U
F = "annet/annlib/lib.py"

SEQI = SeqT(INT)
Pair = U.tuple("Pair", [INT, INT])
Pair.item_store = True        # the code's `row = [lo, hi]` is a list of fixed shape, updated by `row[1] = vlan`
Pairs = SeqT(Pair)
SEQS = SeqT(STR)

sortuniq = M.opaque("sortuniq", [SEQI], SEQI, impl=lambda xs: sorted(set(xs)), note="sorted(set(vlans))")


def _set(ex, args, kwargs, st, node):
    return args[0]          # only as the argument of sorted(): see _sorted


def _sorted(ex, args, kwargs, st, node):
    if kwargs:
        from pyvc.values import Unsupported
        raise Unsupported("sorted() with keywords")
    return V(SEQI, sortuniq.decl()(coerce(args[0], SEQI).t))


M.export(sorted=PyFn("sorted", _sorted), set=PyFn("set", _set))


@M.spec
def inc(xs: SEQI) -> BOOL:
    """strictly increasing"""
    return True if len(xs) <= 1 else (xs[0] < xs[1] and inc(xs[1:]))


@M.spec
def rg(rest: SEQI, lo: INT, hi: INT, tiny_ranges: BOOL) -> Pairs:
    """ranges for the run lo..hi seen so far followed by the VLANs of rest: a VLAN that continues the run extends it; else the run
    is closed (as two single VLANs if it has exactly two members and tiny ranges are off) and a new one starts"""
    if not rest:
        return [(lo, hi)]
    if hi == rest[0] - 1:
        return rg(rest[1:], lo, rest[0], tiny_ranges)
    if not tiny_ranges and hi - lo == 1:
        return [(lo, lo), (hi, hi)] + rg(rest[1:], rest[0], rest[0], tiny_ranges)
    return [(lo, hi)] + rg(rest[1:], rest[0], rest[0], tiny_ranges)


@M.spec
def in_rs(v: INT, rs: Pairs) -> BOOL:
    """is VLAN v denoted by the list of ranges"""
    return False if not rs else ((rs[0][0] <= v and v <= rs[0][1]) or in_rs(v, rs[1:]))


@M.spec
def mem(v: INT, xs: SEQI) -> BOOL:
    return False if not xs else (xs[0] == v or mem(v, xs[1:]))


@M.spec
def wf_rs(rs: Pairs) -> BOOL:
    """every range has lo <= hi"""
    return True if not rs else (rs[0][0] <= rs[0][1] and wf_rs(rs[1:]))


@M.spec
def render(res: Pairs, range_sep: STR) -> SEQS:
    return [x[0] != x[1] and "%s%s%s" % (x[0], range_sep, x[1]) or str(x[0]) for x in res]


M.lemma("sorted_set_is_strictly_increasing", vars=dict(xs=SEQI), hyps=[], goal="inc(sortuniq(xs)) and (len(sortuniq(xs)) > 0) == (len(xs) > 0)",
        assumed=True, pattern="sortuniq(xs)", properties=["C11"],
        note="A3 + set semantics: sorted(set(xs)) lists the distinct members of xs in strictly increasing order")
# the property's "expand(collapse(S)) == S" on the range level: a VLAN is denoted by the produced ranges iff it is in the current
# run lo..hi or among the VLANs still to come -- for the whole call: iff it is one of sorted(set(vlans))
M.lemma("ranges_denote_exactly_the_vlans", vars=dict(rest=SEQI, lo=INT, hi=INT, tiny=BOOL, v=INT), hyps=["lo <= hi"],
        goal="in_rs(v, rg(rest, lo, hi, tiny)) == ((lo <= v and v <= hi) or mem(v, rest))", induct="rest",
        ih=[dict(lo="lo", hi="rest[0]"), dict(lo="rest[0]", hi="rest[0]")],
        cases=["hi == rest[0] - 1", "hi != rest[0] - 1 and not tiny and hi - lo == 1", "hi != rest[0] - 1 and not (not tiny and hi - lo == 1)"],
        properties=["C11"])
M.lemma("collapse_denotes_exactly_its_input", vars=dict(xs=SEQI, tiny=BOOL, v=INT), hyps=["len(xs) > 0"],
        goal="in_rs(v, rg(xs[1:], xs[0], xs[0], tiny)) == mem(v, xs)", use=["ranges_denote_exactly_the_vlans"], properties=["C11"])
M.lemma("ranges_are_well_formed", vars=dict(rest=SEQI, lo=INT, hi=INT, tiny=BOOL), hyps=["lo <= hi", "inc(rest)", "len(rest) == 0 or hi < rest[0]"],
        goal="wf_rs(rg(rest, lo, hi, tiny))", induct="rest",
        ih=[dict(lo="lo", hi="rest[0]"), dict(lo="rest[0]", hi="rest[0]")], properties=["C11"])


def _cv_inputs():
    pool = [1, 2, 3, 5, 6, 9, 10, 11, 4094]
    for n in range(1, 6):
        for combo in itertools.islice(itertools.combinations(pool, n), 60):
            for tiny in (True, False):
                for sep in ("-", " to "):
                    yield dict(vlans=list(reversed(combo)) + [combo[0]], range_sep=sep, tiny_ranges=tiny, chunk_len=0)


M.contract(F, "collapse_vlandb", params=dict(vlans=SEQI, range_sep=STR, tiny_ranges=BOOL, chunk_len=INT),
           defaults=dict(tiny_ranges=True, chunk_len=0), ret=SEQS, locals=dict(res=Pairs, row=Pair),
           requires=["chunk_len == 0"],
           raises={"AssertionError": ["len(vlans) == 0"]},
           ensures=["result == render(rg(sortuniq(vlans)[1:], sortuniq(vlans)[0], sortuniq(vlans)[0], tiny_ranges), range_sep)"],
           loops={1: dict(match="vlans[1::]",
                          inv=["res + rg(_rest1, row[0], row[1], tiny_ranges) == rg(vlans[1:], vlans[0], vlans[0], tiny_ranges)"])},
           use=["sorted_set_is_strictly_increasing"],
           canaries=["len(result) == 0"], inputs=_cv_inputs, properties=["C11"],
           note="restricted by precondition to chunk_len == 0 (the chunking comprehension is bounded only); string rendering of a range "
                "is the code's own expression (A7: % formatting and str(int) opaque)")

M.contract(F, "cisco_collapse_vlandb", params=dict(vlans=SEQI, tiny_ranges=BOOL), defaults=dict(tiny_ranges=True), ret=SEQS,
           raises={"AssertionError": ["len(vlans) == 0"]},
           ensures=["result == render(rg(sortuniq(vlans)[1:], sortuniq(vlans)[0], sortuniq(vlans)[0], tiny_ranges), '-')"],
           canaries=["len(result) == 0"], properties=["C11"],
           inputs=lambda: (dict(vlans=c["vlans"], tiny_ranges=c["tiny_ranges"]) for c in _cv_inputs() if c["range_sep"] == "-"))
M.contract(F, "huawei_collapse_vlandb", params=dict(vlans=SEQI, chunk_len=INT), defaults=dict(chunk_len=0), ret=SEQS,
           requires=["chunk_len == 0"], raises={"AssertionError": ["len(vlans) == 0"]},
           ensures=["result == render(rg(sortuniq(vlans)[1:], sortuniq(vlans)[0], sortuniq(vlans)[0], True), ' to ')"],
           canaries=["len(result) == 0"], properties=["C11"],
           inputs=lambda: (dict(vlans=c["vlans"], chunk_len=0) for c in _cv_inputs() if c["range_sep"] == "-" and c["tiny_ranges"]))
