"""Sidecar contracts for annet/annlib/patching.py: apply_diff_rb and make_diff (C03, C20): every row gets the rule that matches it,
rows no rule matches are dropped from both sides, and the caller's trees are left alone."""
import itertools
from collections import OrderedDict as odict

import z3
from pyvc.dsl import SpecModule, Lazy
from pyvc.types import *
from pyvc.values import V, PyConstObj, PyFn, NONE_V, coerce, PyTup
from pyvc.native import dhead, dtail, dput, dhas, ddel

M = SpecModule("diffrb")
U = M.U
F = "annet/annlib/patching.py"

Tree = U.dict("Tree", STR, "Tree")
MatchO = U.opaque("MatchO")                  # what _select_match returns as the match: {"attrs":.., "raw_rule":.., "key":..}
MatchO.truthy_fn = lambda t: z3.BoolVal(True)
OptM = U.union("OptM", dict(none=None, some=MatchO))
RulesT = U.opaque("RulesT")                  # {"local":.., "global":..}
Rb = U.record("Rb", dict(patching=RulesT))
MR = U.tuple("MR", [OptM, RulesT])
DP = U.record("DP", dict(match=MatchO, subtree="DiffPre"))
DiffPre = U.dict("DiffPre", STR, DP)
SEQS = SeqT(STR)
TT = U.tuple("TT", [Tree, Tree])

from annet.annlib import patching as _p

mm = M.opaque("mm", [STR, RulesT], OptM, impl=lambda row, rules: _p._match_row_to_rules(row, rules)[0], note="_match_row_to_rules(row, rules)[0]: the governing rule's match or None")
mc = M.opaque("mc", [STR, RulesT], RulesT, impl=lambda row, rules: _p._match_row_to_rules(row, rules)[1], note="_match_row_to_rules(row, rules)[1]: the children rules of the match")


@M.spec
def ks(t: Tree) -> SEQS:
    return [] if not t else [dhead(t)[0]] + ks(dtail(t))


@M.spec
def nk(b: Tree, a: Tree) -> SEQS:
    """keys of b that a lacks"""
    return [] if not b else ([dhead(b)[0]] if not dhas(a, dhead(b)[0]) else []) + nk(dtail(b), a)


@M.spec
def ukeys(a: Tree, b: Tree) -> SEQS:
    """uniq(a, b): the rows of old, then the rows only new has"""
    return ks(a) + nk(b, a)


@M.spec
def sub(t: Tree, row: STR) -> Tree:
    return t[row] if dhas(t, row) else {}


@M.spec
def fp(keys: SEQS, old: Tree, new: Tree, rules: RulesT) -> TT:
    """(old, new) after the rows `keys` have been processed: a row no rule matches is deleted from both trees; below a matched row
    both sub-trees are processed the same way with the children rules of the match"""
    if not keys:
        return (old, new)
    row = keys[0]
    if mm(row, rules):
        ch = fp(ukeys(sub(old, row), sub(new, row)), sub(old, row), sub(new, row), mc(row, rules))
        return fp(keys[1:], dput(old, row, ch[0]) if dhas(old, row) else old, dput(new, row, ch[1]) if dhas(new, row) else new, rules)
    return fp(keys[1:], ddel(old, row), ddel(new, row), rules)


@M.spec
def dpf(keys: SEQS, old: Tree, new: Tree, rules: RulesT, acc: DiffPre) -> DiffPre:
    """diff_pre: for every matched row its match and, recursively, the diff_pre of its two sub-trees"""
    if not keys:
        return acc
    row = keys[0]
    if mm(row, rules):
        so = sub(old, row)
        sn = sub(new, row)
        ch = fp(ukeys(so, sn), so, sn, mc(row, rules))
        return dpf(keys[1:], dput(old, row, ch[0]) if dhas(old, row) else old, dput(new, row, ch[1]) if dhas(new, row) else new, rules,
                   dput(acc, row, {"match": mm(row, rules), "subtree": dpf(ukeys(so, sn), so, sn, mc(row, rules), {})}))
    return dpf(keys[1:], ddel(old, row), ddel(new, row), rules, acc)


@M.spec
def mem(k: STR, xs: SEQS) -> BOOL:
    return False if not xs else (xs[0] == k or mem(k, xs[1:]))


# "unknown rows are dropped from both sides" / "known rows are kept", per level:
M.lemma("row_kept_iff_matched_old", vars=dict(keys=SEQS, old=Tree, new=Tree, r=RulesT, k=STR), hyps=["dwf(old)", "dwf(new)"],
        goal="dhas(fp(keys, old, new, r)[0], k) == (dhas(old, k) and (not mem(k, keys) or bool(mm(k, r))))", induct="keys",
        properties=["C03"])
M.lemma("row_kept_iff_matched_new", vars=dict(keys=SEQS, old=Tree, new=Tree, r=RulesT, k=STR), hyps=["dwf(old)", "dwf(new)"],
        goal="dhas(fp(keys, old, new, r)[1], k) == (dhas(new, k) and (not mem(k, keys) or bool(mm(k, r))))", induct="keys",
        properties=["C03"])
M.lemma("mem_app", vars=dict(a=SEQS, b=SEQS, k=STR), hyps=[], goal="mem(k, a + b) == (mem(k, a) or mem(k, b))", induct="a", properties=["C03"])
M.lemma("keys_are_listed", vars=dict(t=Tree, k=STR), hyps=[], goal="mem(k, ks(t)) == dhas(t, k)", induct="t", properties=["C03"])
M.lemma("new_keys_are_listed", vars=dict(b=Tree, a=Tree, k=STR), hyps=[], goal="mem(k, nk(b, a)) == (dhas(b, k) and not dhas(a, k))",
        induct="b", properties=["C03"])
M.lemma("unknown_rows_dropped_known_rows_kept", vars=dict(old=Tree, new=Tree, r=RulesT, k=STR), hyps=["dwf(old)", "dwf(new)"],
        goal="dhas(fp(ukeys(old, new), old, new, r)[0], k) == (dhas(old, k) and bool(mm(k, r))) and "
             "dhas(fp(ukeys(old, new), old, new, r)[1], k) == (dhas(new, k) and bool(mm(k, r)))",
        use=["row_kept_iff_matched_old", "row_kept_iff_matched_new", "mem_app", "keys_are_listed", "new_keys_are_listed"],
        properties=["C03"])


M.contract(F, "<_match_row_to_rules>", params=dict(row=STR, rules=RulesT), ret=MR, trusted=True,
           ensures=["result == (mm(row, rules), mc(row, rules))"],
           note="_match_row_to_rules is proved in specs.rbmatch (== _select_match of the matching rules); here its two results are "
                "opaque functions of (row, rules)", properties=["C03"])
M.contract(F, "<uniq>", params=dict(a=Tree, b=Tree), ret=SEQS, trusted=True, ensures=["result == ukeys(a, b)"],
           note="lib.uniq(old, new): generator with a `seen` set (outside the subset): the keys of old, then those only new has",
           properties=["C03"])


def _native_rules():
    import re
    def rule(pat, typ="normal", local=None):
        return {"type": typ, "attrs": {"regexp": re.compile(pat), "x": 1},
                "children": {"local": odict(local or []), "global": odict()}}
    x = rule(r"^x\s+(\S+)$")
    a = rule(r"^a\s+(\S+)$", local=[("x *", x)])
    ig = rule(r"^a\s+2$", "ignore")
    g = rule(r"^(\S+)\s+9$")
    yield {"local": odict([("a *", a)]), "global": odict()}
    yield {"local": odict([("a 2", ig), ("a *", a)]), "global": odict([("* 9", g)])}
    yield {"local": odict(), "global": odict()}


def _native_trees():
    rows = ["a 1", "a 2", "b 9", "c"]
    subs = [odict(), odict([("x 1", odict())]), odict([("y", odict()), ("x 2", odict())])]
    yield odict()
    for n in (1, 2, 3):
        for combo in itertools.permutations(rows, n):
            for k in range(len(subs)):
                yield odict((r, __import__("copy").deepcopy(subs[(i + k) % len(subs)])) for i, r in enumerate(combo))


def _adr_inputs():
    trees = list(_native_trees())
    for rules in _native_rules():
        for i, old in enumerate(trees):
            for new in trees[i % 7::7]:
                yield dict(old=old, new=new, rb={"patching": rules})


M.contract(F, "apply_diff_rb", params=dict(old=Tree, new=Tree, rb=Rb), ret=DiffPre, modifies=["old", "new"], locals=dict(diff_pre=DiffPre),
           ensures=["result == dpf(ukeys(old(old), old(new)), old(old), old(new), rb['patching'], {})",
                    "(old, new) == fp(ukeys(old(old), old(new)), old(old), old(new), rb['patching'])"],
           loops={1: dict(match="list(uniq(old, new))",
                          inv=["dpf(_rest1, old, new, rb['patching'], diff_pre) == dpf(_it1, old(old), old(new), rb['patching'], {})",
                               "fp(_rest1, old, new, rb['patching']) == fp(_it1, old(old), old(new), rb['patching'])"])},
           canaries=["len(result) == 0"], properties=["C03", "C20"], inputs=_adr_inputs,
           note="relative to the matcher (opaque mm / mc) and lib.uniq")

_q = {c.qual: c for c in M.contracts}
_q["apply_diff_rb"].calls["_match_row_to_rules"] = _q["<_match_row_to_rules>"]
_q["apply_diff_rb"].calls["uniq"] = _q["<uniq>"]


# ==================================================================================================================
# make_diff: deep copies, apply_diff_rb, call_diff_logic, ACL filters, mark_unchanged -- the callees proved elsewhere appear as
# opaque functions of their arguments (their own contracts live in specs.basediff / specs.patching)
DiffO = U.opaque("DiffO")
AclR = U.opaque("AclR")
OptAcl = U.union("OptAcl", dict(none=None, some=AclR))
OptAcl.truthy_tags = ()
AclList = SeqT(OptAcl)
def _cdl_impl(dp, old, new):
    from annet.annlib.rulebook import common as _c
    return _c.call_diff_logic(dp, old, new)


cdl = M.opaque("cdl", [DiffPre, Tree, Tree], DiffO, impl=_cdl_impl, note="call_diff_logic(diff_pre, old, new) (assumed contract, see specs.basediff)")
aad = M.opaque("aad", [DiffO, AclR], DiffO, impl=lambda d, acl: _p.apply_acl_diff(d, acl), note="apply_acl_diff(diff, rules) (proved in specs.patching)")
mku = M.opaque("mku", [DiffO], DiffO, impl=lambda d: _p.mark_unchanged(d), note="mark_unchanged(diff) (proved in specs.patching)")


@M.spec
def fold_acl(acls: AclList, d: DiffO) -> DiffO:
    """the diff filtered by every ACL of the list in turn (None entries are skipped)"""
    if not acls:
        return d
    return fold_acl(acls[1:], aad(d, acls[0]) if acls[0] is not None else d)


M.contract(F, "<deepcopy_tree>", params=dict(x=Tree), ret=Tree, trusted=True, ensures=["result == x"],
           note="copy.deepcopy of a config tree: an equal value that shares nothing with the argument (A5)", properties=["C03", "C20"])
M.contract(F, "<call_diff_logic>", params=dict(diff_pre=DiffPre, old=Tree, new=Tree), ret=DiffO, trusted=True,
           ensures=["result == cdl(diff_pre, old, new)"], note="assumed (dispatch on function values stored in the rulebook)",
           properties=["C03"])
M.contract(F, "<apply_acl_diff>", params=dict(diff=DiffO, rules=AclR), ret=DiffO, trusted=True, ensures=["result == aad(diff, rules)"],
           note="proved in specs.patching (pure: builds a new list)", properties=["C03"])
M.contract(F, "<mark_unchanged>", params=dict(diff=DiffO), ret=DiffO, trusted=True, ensures=["result == mku(diff)"],
           note="proved in specs.patching (pure)", properties=["C03"])

def _native_full_rules():
    """rules as the compiled patching rulebook has them (attrs with the fields _select_match / the diff logics read)"""
    import re
    from annet.annlib.rulebook import common as _c

    def rule(pat, typ="normal", local=None, logic=_c.default_diff):
        return {"type": typ, "attrs": {"regexp": re.compile(pat), "diff_logic": logic, "ignore_case": False, "multiline": False,
                                       "context": None, "comment": [], "logic": None},
                "children": {"local": odict(local or []), "global": odict()}}
    x = rule(r"^x\s+(\S+)$")
    a = rule(r"^a\s+(\S+)$", local=[("x *", x)])
    o = rule(r"^b\s+(\S+)$", logic=_c.ordered_diff)
    ig = rule(r"^a\s+2$", "ignore")
    yield {"local": odict([("a *", a), ("b *", o)]), "global": odict()}
    yield {"local": odict([("a 2", ig), ("a *", a)]), "global": odict()}


def _md_inputs():
    import re
    from annet.annlib.rbparser import acl as _acl
    trees = list(_native_trees())
    acls = [[], [None], [None, None]]
    try:
        acls.append([_acl.compile_acl_text("a *\n    x *\n", "huawei")])
    except Exception:
        pass
    for rules in _native_full_rules():
        for i, old in enumerate(trees[::3]):
            for new in trees[i % 5::5]:
                for al in acls:
                    yield dict(old=old, new=new, rb={"patching": rules}, acl_rules_list=al)


M.contract(F, "make_diff", params=dict(old=Tree, new=Tree, rb=Rb, acl_rules_list=AclList), ret=DiffO, locals=dict(diff=DiffO), inputs=_md_inputs,
           native_frame_skip=["acl_rules_list"],      # compiled ACL rules carry the scratch field attrs.match that matching overwrites
           ensures=["result == mku(fold_acl(acl_rules_list, cdl(dpf(ukeys(old, new), old, new, rb['patching'], {}), "
                    "fp(ukeys(old, new), old, new, rb['patching'])[0], fp(ukeys(old, new), old, new, rb['patching'])[1])))"],
           loops={1: dict(match="acl_rules_list", inv=["fold_acl(_rest1, diff) == fold_acl(acl_rules_list, "
                          "cdl(dpf(ukeys(old(old), old(new)), old(old), old(new), rb['patching'], {}), "
                          "fp(ukeys(old(old), old(new)), old(old), old(new), rb['patching'])[0], "
                          "fp(ukeys(old(old), old(new)), old(old), old(new), rb['patching'])[1]))"])},
           canaries=["result == cdl({}, old, new)"], properties=["C03", "C20"],
           note="the caller's old / new / rb / ACL list are not modified (frame obligations): the pruning works on deep copies")

_q = {c.qual: c for c in M.contracts}
_q["make_diff"].calls["copy.deepcopy"] = _q["<deepcopy_tree>"]
_q["make_diff"].calls["call_diff_logic"] = _q["<call_diff_logic>"]
_q["make_diff"].calls["apply_acl_diff"] = _q["<apply_acl_diff>"]
_q["make_diff"].calls["mark_unchanged"] = _q["<mark_unchanged>"]
M.export(copy=PyConstObj("copy"))

M.lemma("none_acls_are_skipped", vars=dict(d=DiffO), hyps=[], goal="fold_acl([None, None], d) == d and fold_acl([], d) == d",
        properties=["C03", "C16"])
