"""Sidecar contracts for annet/annlib/filter_acl.py: filter_config / filter_patch as compositions (C06): the library entry points
filter a text by parsing it, applying the ACL in lenient mode and rendering the result."""
import z3
from pyvc.dsl import SpecModule, Lazy
from pyvc.types import *
from pyvc.values import V, PyConstObj, PyFn, NONE_V, coerce, PyTup

M = SpecModule("filteracl")
U = M.U
F = "annet/annlib/filter_acl.py"

Acl = U.opaque("Acl")
Tree = U.opaque("Tree")
Files = U.opaque("Files")
Splitter = U.opaque("Splitter")
Fmt = U.opaque("Fmt")
InputCfg = U.union("InputCfg", dict(text=STR, files=Files))
InputCfg.pykinds = {"str": "text"}

split_of = M.opaque("split_of", [Fmt], Splitter, impl=lambda f: f.split, note="fmtr.split (bound method)")
def _parse_impl(text, splitter):
    from annet.annlib import tabparser
    return tabparser.parse_to_tree(text, splitter)


def _aacl_impl(tree, acl):
    from annet.annlib import patching
    return patching.apply_acl(tree, acl, fatal_acl=False)


def _afc_impl(files, acl):
    from annet.annlib import filter_acl
    return filter_acl.apply_acl_fileconfig(files, acl)


parse = M.opaque("parse", [STR, Splitter], Tree, impl=_parse_impl, note="tabparser.parse_to_tree(text, splitter) (proved in specs.tabparser for the indentation family)")
aacl = M.opaque("aacl", [Tree, Acl], Tree, impl=_aacl_impl, note="patching.apply_acl(config, acl, fatal_acl=False) (proved in specs.patching; never raises in lenient mode)")
fjoin = M.opaque("fjoin", [Fmt, Tree], STR, impl=lambda f, t: f.join(t), note="fmtr.join(tree) (C04)")
afc = M.opaque("afc", [Files, Acl], Files, impl=_afc_impl, note="apply_acl_fileconfig (bounded only)")


def _fmt_attr(ex, recv, recv_node, args, kwargs, st, node):
    return V(STR, fjoin.decl()(recv.t, coerce(args[0], Tree).t))


Fmt.methods = {"join": _fmt_attr}
Fmt.attrs = {"split": lambda v: V(Splitter, split_of.decl()(v.t))}

M.contract(F, "<parse_to_tree>", params=dict(text=STR, splitter=Splitter), ret=Tree, trusted=True, ensures=["result == parse(text, splitter)"],
           properties=["C06"], note="specs.tabparser")
M.contract(F, "<apply_acl>", params=dict(config=Tree, rules=Acl, fatal_acl=BOOL), ret=Tree, trusted=True, requires=["not fatal_acl"],
           ensures=["result == aacl(config, rules)"], properties=["C06"], note="specs.patching: lenient mode never raises")
M.contract(F, "<apply_acl_fileconfig>", params=dict(fileconfig=Files, rules=Acl), ret=Files, trusted=True, ensures=["result == afc(fileconfig, rules)"],
           properties=["C06"], note="bounded only")
def _fc_inputs():
    from annet.annlib import filter_acl, tabparser
    texts = ["", "a 1\n", "interface e1\n  mtu 1\n  description x\ninterface e2\n  mtu 2\nsysname s\n", "b\n  c\n    d\n"]
    acls = ["", "interface *\n    mtu *\n", "sysname *\ninterface e1\n    ~\n", "a *\nb\n    c\n        ~\n"]
    for vendor, fmtr in (("huawei", tabparser.HuaweiFormatter()), ("cisco", tabparser.CiscoFormatter()), ("arista", tabparser.AristaFormatter())):
        for a in acls:
            acl = filter_acl.make_acl(a, vendor)
            for t in texts:
                yield dict(acl=acl, fmtr=fmtr, input_config=t)


M.contract(F, "filter_config", params=dict(acl=Acl, fmtr=Fmt, input_config=InputCfg), ret=InputCfg, locals=dict(), inputs=_fc_inputs,
           native_frame_skip=["acl"],
           ensures=["(result == fjoin(fmtr, aacl(parse(input_config, split_of(fmtr)), acl))) if isinstance(input_config, str) else True",
                    "True if isinstance(input_config, str) else (result == afc(input_config, acl))"],
           canaries=["result == input_config"], properties=["C06"],
           note="a text is parsed with the vendor's splitter, filtered in LENIENT mode (fatal_acl=False) and rendered again")
M.contract(F, "filter_patch", params=dict(acl=Acl, fmtr=Fmt, text=STR), ret=STR,
           ensures=["result == fjoin(fmtr, aacl(parse(text, split_of(fmtr)), acl))"], canaries=["result == text"], properties=["C06"],
           inputs=lambda: (dict(acl=c["acl"], fmtr=c["fmtr"], text=c["input_config"]) for c in _fc_inputs()), native_frame_skip=["acl"])
_q = {c.qual: c for c in M.contracts}
_q["filter_config"].calls["tabparser.parse_to_tree"] = _q["<parse_to_tree>"]
_q["filter_config"].calls["patching.apply_acl"] = _q["<apply_acl>"]
_q["filter_config"].calls["apply_acl_fileconfig"] = _q["<apply_acl_fileconfig>"]
_q["filter_patch"].calls["filter_config"] = _q["filter_config"]
M.export(tabparser=PyConstObj("tabparser"), patching=PyConstObj("patching"))
