"""Sidecar contracts for annet/annlib/rulebook/common.py: the patch logic functions (C01, C02, C08, C16, C17) and the
per-vendor session wrapper `apply` (C09)."""
import itertools
import z3

from pyvc.dsl import SpecModule, Lazy
from pyvc.types import *
from pyvc.values import V, PyConstObj, PyFn, PyTup, NONE_V, lift

from annet.annlib.rulebook import common as _c
from annet.annlib.types import Op

M = SpecModule("rbcommon")
U = M.U
F = "annet/annlib/rulebook/common.py"

OpT = U.enum("OpT", ["added", "removed", "affected", "moved", "unchanged"])
Pre = U.opaque("Pre")            # the `pre` of a block's children (built by make_pre)
Key = U.opaque("Key")            # tuple of regex groups
OptPre = U.union("OptPre", dict(none=None, some=Pre))
BItem = U.record("BItem", dict(row=STR, children=Pre))
SeqB = SeqT(BItem)
DiffB = U.record("DiffB", dict(added=SeqB, removed=SeqB, affected=SeqB, moved=SeqB, unchanged=SeqB))
DiffB.key_list = ["added", "removed", "affected", "moved", "unchanged"]
Rule = U.record("Rule", dict(reverse=STR))
Cmd = U.tuple("Cmd", [BOOL, STR, OptPre])
SeqCmd = SeqT(Cmd)
OptStr = U.union("OptStr", dict(none=None, some=STR))


def _pre_truthy(t):
    f = z3.Function("pre_nonempty", Pre.sort(), z3.BoolSort())
    return f(t)


Pre.truthy_fn = _pre_truthy


def _op_consts():
    return PyConstObj("Op", dict(ADDED=V(OpT, OpT.const("added")), REMOVED=V(OpT, OpT.const("removed")),
                                 AFFECTED=V(OpT, OpT.const("affected")), MOVED=V(OpT, OpT.const("moved")),
                                 UNCHANGED=V(OpT, OpT.const("unchanged"))))


M.export(Op=Lazy(_op_consts))


# ------------------------------------------------------------------------------------------------ spec functions
@M.spec
def rev(rule: Rule, key: Key) -> STR:
    """the removal command of a (rule, key): the reverse template filled with the key"""
    return rule["reverse"].format(*key)


@M.spec
def too_many(diff: DiffB) -> BOOL:
    return len(diff[Op.ADDED]) > 1 or len(diff[Op.REMOVED]) > 1 or len(diff[Op.AFFECTED]) > 1 or len(diff[Op.MOVED]) > 1


@M.spec
def undo_redo_asserts(diff: DiffB) -> BOOL:
    """undo_redo hands default() one bucket at a time when a value changes, so only those two buckets are checked"""
    if diff[Op.ADDED] and diff[Op.REMOVED] and not diff[Op.AFFECTED]:
        return len(diff[Op.REMOVED]) > 1 or len(diff[Op.ADDED]) > 1
    return too_many(diff)


@M.spec
def spec_default(rule: Rule, key: Key, diff: DiffB) -> SeqCmd:
    """an affected block is entered (children handled inside); else an added / moved row is (re)created; else a removed
    row is negated; else nothing"""
    if diff[Op.AFFECTED]:
        return [(True, diff[Op.AFFECTED][0]["row"], diff[Op.AFFECTED][0]["children"])]
    if diff[Op.ADDED]:
        return [(True, diff[Op.ADDED][0]["row"], diff[Op.ADDED][0]["children"])]
    if diff[Op.MOVED]:
        return [(True, diff[Op.MOVED][0]["row"], diff[Op.MOVED][0]["children"])]
    if diff[Op.REMOVED]:
        return [(False, rev(rule, key), None)]
    return []


@M.spec
def spec_ordered(rule: Rule, key: Key, diff: DiffB) -> SeqCmd:
    """a moved key is removed first, then re-created in its new place"""
    return ([(False, rev(rule, key), None)] if diff[Op.MOVED] else []) + spec_default(rule, key, diff)


@M.spec
def spec_rewrite(rule: Rule, key: Key, diff: DiffB) -> SeqCmd:
    return [] if diff[Op.REMOVED] else spec_default(rule, key, diff)


@M.spec
def spec_ignore_changes(rule: Rule, key: Key, diff: DiffB) -> SeqCmd:
    return [] if (diff[Op.ADDED] and diff[Op.REMOVED]) else spec_default(rule, key, diff)


@M.spec
def spec_undo_redo(rule: Rule, key: Key, diff: DiffB) -> SeqCmd:
    """a changed value is undone first and set afterwards"""
    if diff[Op.ADDED] and diff[Op.REMOVED] and not diff[Op.AFFECTED]:
        return [(False, rev(rule, key), None), (True, diff[Op.ADDED][0]["row"], diff[Op.ADDED][0]["children"])]
    return spec_default(rule, key, diff)


@M.spec
def perm_diff(diff: DiffB) -> DiffB:
    """what `permanent` leaves in its diff argument: a removed block with children becomes affected"""
    if diff[Op.REMOVED] and diff[Op.REMOVED][0]["children"]:
        return {Op.ADDED: diff[Op.ADDED], Op.REMOVED: [], Op.AFFECTED: diff[Op.AFFECTED] + diff[Op.REMOVED],
                Op.MOVED: diff[Op.MOVED], Op.UNCHANGED: diff[Op.UNCHANGED]}
    return diff


@M.spec
def spec_permanent(rule: Rule, key: Key, diff: DiffB) -> SeqCmd:
    """never negates the row: a removed leaf is ignored, a removed block keeps existing and its children converge"""
    if diff[Op.REMOVED] and not diff[Op.REMOVED][0]["children"]:
        return []
    return spec_default(rule, key, perm_diff(diff))


# device semantics of one (rule, key) slot, from the property statement: a direct command stores its row, the removal
# command of the key empties the slot
@M.spec
def slot_apply(cmds: SeqCmd, slot: OptStr, rv: STR) -> OptStr:
    if len(cmds) == 0:
        return slot
    c = cmds[0]
    return slot_apply(cmds[1:], c[1] if c[0] else (None if c[1] == rv else slot), rv)


@M.spec
def bucket_inv(diff: DiffB) -> BOOL:
    """what make_pre guarantees when old and new hold at most one row per (rule, key)"""
    return (len(diff[Op.ADDED]) + len(diff[Op.AFFECTED]) + len(diff[Op.MOVED]) + len(diff[Op.UNCHANGED]) <= 1
            and len(diff[Op.REMOVED]) + len(diff[Op.AFFECTED]) + len(diff[Op.MOVED]) + len(diff[Op.UNCHANGED]) <= 1)


@M.spec
def old_slot(diff: DiffB) -> OptStr:
    if diff[Op.REMOVED]:
        return diff[Op.REMOVED][0]["row"]
    if diff[Op.AFFECTED]:
        return diff[Op.AFFECTED][0]["row"]
    if diff[Op.MOVED]:
        return diff[Op.MOVED][0]["row"]
    if diff[Op.UNCHANGED]:
        return diff[Op.UNCHANGED][0]["row"]
    return None


@M.spec
def new_slot(diff: DiffB) -> OptStr:
    if diff[Op.ADDED]:
        return diff[Op.ADDED][0]["row"]
    if diff[Op.AFFECTED]:
        return diff[Op.AFFECTED][0]["row"]
    if diff[Op.MOVED]:
        return diff[Op.MOVED][0]["row"]
    if diff[Op.UNCHANGED]:
        return diff[Op.UNCHANGED][0]["row"]
    return None


@M.spec
def direct_before_removal(cmds: SeqCmd, seen_direct: BOOL) -> BOOL:
    """some removal command comes after a direct command"""
    if len(cmds) == 0:
        return False
    return (seen_direct and not cmds[0][0]) or direct_before_removal(cmds[1:], seen_direct or cmds[0][0])


# ---- lemmas: slot convergence per logic (L layer of C01), no removal of protected rows (C02), remove-before-recreate (C08)
_V = dict(rule=Rule, key=Key, diff=DiffB)
_NEQ = "all(x[\"row\"] != rev(rule, key) for x in diff[Op.ADDED] + diff[Op.AFFECTED] + diff[Op.MOVED])"
M.lemma("default_converges", vars=_V, hyps=["bucket_inv(diff)"],
        goal="slot_apply(spec_default(rule, key, diff), old_slot(diff), rev(rule, key)) == new_slot(diff)",
        properties=["C01"])
M.lemma("ordered_converges", vars=_V, hyps=["bucket_inv(diff)"],
        goal="slot_apply(spec_ordered(rule, key, diff), old_slot(diff), rev(rule, key)) == new_slot(diff)",
        properties=["C01"])
M.lemma("undo_redo_converges", vars=_V, hyps=["bucket_inv(diff)"],
        goal="slot_apply(spec_undo_redo(rule, key, diff), old_slot(diff), rev(rule, key)) == new_slot(diff)",
        properties=["C01"])
M.lemma("rewrite_converges_unless_only_removed", vars=_V, hyps=["bucket_inv(diff)", "not diff[Op.REMOVED]"],
        goal="slot_apply(spec_rewrite(rule, key, diff), old_slot(diff), rev(rule, key)) == new_slot(diff)",
        properties=["C01"])
M.lemma("ignore_changes_converges_unless_changed", vars=_V, hyps=["bucket_inv(diff)", "not (diff[Op.ADDED] and diff[Op.REMOVED])"],
        goal="slot_apply(spec_ignore_changes(rule, key, diff), old_slot(diff), rev(rule, key)) == new_slot(diff)",
        properties=["C01"])
M.lemma("removal_only_from_removed_or_moved", vars=_V, hyps=["not diff[Op.REMOVED]", "not diff[Op.MOVED]"],
        goal="all(c[0] for c in spec_default(rule, key, diff)) and all(c[0] for c in spec_ordered(rule, key, diff)) "
             "and all(c[0] for c in spec_undo_redo(rule, key, diff)) and all(c[0] for c in spec_rewrite(rule, key, diff))",
        properties=["C02", "C16", "C17"])
M.lemma("unchanged_only_emits_nothing", vars=_V,
        hyps=["not diff[Op.ADDED]", "not diff[Op.REMOVED]", "not diff[Op.AFFECTED]", "not diff[Op.MOVED]"],
        goal="len(spec_default(rule, key, diff)) == 0 and len(spec_ordered(rule, key, diff)) == 0 and "
             "len(spec_undo_redo(rule, key, diff)) == 0 and len(spec_rewrite(rule, key, diff)) == 0 and "
             "len(spec_permanent(rule, key, diff)) == 0 and len(spec_ignore_changes(rule, key, diff)) == 0",
        properties=["C17", "C16", "C01"])
M.lemma("permanent_never_negates", vars=_V, hyps=[],
        goal="all(c[0] for c in spec_permanent(rule, key, diff))", properties=["C01", "C02"])
M.lemma("removal_before_recreation", vars=_V, hyps=[],
        goal="not direct_before_removal(spec_undo_redo(rule, key, diff), False) and "
             "not direct_before_removal(spec_ordered(rule, key, diff), False) and "
             "not direct_before_removal(spec_default(rule, key, diff), False)", properties=["C08", "C01"])
M.lemma("unchanged_bucket_is_not_read", vars=dict(rule=Rule, key=Key, diff=DiffB, u2=SeqB), hyps=[],
        goal="spec_default(rule, key, diff) == spec_default(rule, key, {Op.ADDED: diff[Op.ADDED], Op.REMOVED: diff[Op.REMOVED], "
             "Op.AFFECTED: diff[Op.AFFECTED], Op.MOVED: diff[Op.MOVED], Op.UNCHANGED: u2})", properties=["C16"])


# ------------------------------------------------------------------------------------------------ native inputs
def _bitems(tag):
    return [[], [{"row": "r" + tag, "children": None}], [{"row": "b" + tag, "children": {"x": 1}}],
            [{"row": "r" + tag, "children": None}, {"row": "q" + tag, "children": None}]]


def _logic_inputs():
    for a, r, f, m, u in itertools.product(_bitems("a"), _bitems("r"), _bitems("f")[:3], _bitems("m")[:3], _bitems("u")[:2]):
        yield dict(rule={"reverse": "undo {} x"}, key=("k",), diff={Op.ADDED: a, Op.REMOVED: r, Op.AFFECTED: f, Op.MOVED: m,
                                                                    Op.UNCHANGED: u})


_RAISES = {"AssertionError": ["too_many(diff)"]}

_common = dict(params=dict(rule=Rule, key=Key, diff=DiffB), yields=SeqCmd, ignore_kwargs=True, inputs=_logic_inputs)

M.contract(F, "default", ensures=["result == spec_default(rule, key, diff)"],
           raises=_RAISES, raises_ensures={"AssertionError": ["len(result) == 0"]},
           canaries=["len(result) == 0"], properties=["C01", "C02", "C16", "C17", "C08"], **_common)
M.contract(F, "ordered", ensures=["result == spec_ordered(rule, key, diff)"],
           raises=_RAISES, canaries=["len(result) == 0"], properties=["C01", "C08"], **_common)
M.contract(F, "rewrite", ensures=["result == spec_rewrite(rule, key, diff)"],
           raises={"AssertionError": ["too_many(diff)", "not diff[Op.REMOVED]"]},
           canaries=["len(result) == 0"], properties=["C01"], **_common)
M.contract(F, "ignore_changes", ensures=["result == spec_ignore_changes(rule, key, diff)"],
           raises={"AssertionError": ["too_many(diff)", "not (diff[Op.ADDED] and diff[Op.REMOVED])"]},
           canaries=["len(result) == 0"], properties=["C01"], **_common)
M.contract(F, "undo_redo", ensures=["result == spec_undo_redo(rule, key, diff)"],
           raises={"AssertionError": ["undo_redo_asserts(diff)"]}, locals=dict(new_diff=DiffB),
           canaries=["len(result) == 0"], properties=["C01", "C08"], **_common)
M.contract(F, "permanent",
           ensures=["result == spec_permanent(rule, key, old(diff))",
                    "diff == (old(diff) if (old(diff)[Op.REMOVED] and not old(diff)[Op.REMOVED][0]['children']) else perm_diff(old(diff)))",
                    ],
           raises={"AssertionError": ["too_many(perm_diff(diff))",
                                      "not (diff[Op.REMOVED] and not diff[Op.REMOVED][0]['children'])"]},
           modifies=["diff"], canaries=["len(result) == 0"], properties=["C01", "C02", "C20"], **_common)
M.contract(F, "default_instead_undo",
           ensures=["result == spec_default(rule, key, diff)",
                    "rule['reverse'] == (old(rule)['reverse'].replace('no', 'default') if diff[Op.REMOVED] else old(rule)['reverse'])"],
           raises=_RAISES, modifies=["rule"], canaries=["len(result) == 0"], properties=["C20"], **_common)


# ==================================================================================================================
# common.apply: the per-vendor session wrapper (C09).  Loop-free: path enumeration over the hardware flags is a
# complete proof.  The expected wrapper is pinned here as a table, from the statement ("enter configuration mode
# before; commit, leave, save after; no commit command when committing is disabled").
HwHuawei = U.record("HwHuawei", dict(self_=BOOL, CE=BOOL, NE=BOOL))
HwHuawei.bool_field = "self_"
HwB4com = U.record("HwB4com", dict(self_=BOOL, CS2148P=BOOL))
HwB4com.bool_field = "self_"
Hw = U.record("Hw", dict(Huawei=HwHuawei, Arista=BOOL, ASR=BOOL, XRV=BOOL, XR=BOOL, Cisco=BOOL, Nexus=BOOL, Juniper=BOOL, PC=BOOL,
                         Nokia=BOOL, RouterOS=BOOL, Aruba=BOOL, Ribbon=BOOL, B4com=HwB4com, H3C=BOOL, soft=STR))
OptInt = U.union("OptInt", dict(none=None, some=INT))
CmdT = U.tuple("CmdT", [STR, OptInt])        # Command(cmd, timeout=...)
SeqCmdT = SeqT(CmdT)
ApplyRes = U.tuple("ApplyRes", [SeqCmdT, SeqCmdT])


def _seq_add_cmd(ex, recv, recv_node, args, kwargs, st, node):
    from pyvc.values import concat, PyTup
    ex.assign_to(recv_node, concat(recv, PyTup([args[0]], True)), st)
    return NONE_V


SeqCmdT.methods = {"add_cmd": _seq_add_cmd}


def _mk_command(ex, args, kwargs, st, node):
    return PyTup([args[0], kwargs.get("timeout", NONE_V)])


def _mk_cmdlist(ex, args, kwargs, st, node):
    from pyvc.values import coerce
    return coerce(PyTup([], True), SeqCmdT)


def _environ_get(ex, args, kwargs, st, node):
    return V(BOOL, z3.Bool("env_ETCKEEPER_CHECK"))


M.export(Command=PyFn("Command", _mk_command), CommandList=PyFn("CommandList", _mk_cmdlist),
         os=PyConstObj("os", dict(environ=PyConstObj("environ", dict(get=PyFn("environ.get", _environ_get))))),
         etckeeper=Lazy(lambda: V(BOOL, z3.Bool("env_ETCKEEPER_CHECK"))))

import os as _os


def cmds(cl):
    """native view of a CommandList as [(cmd, timeout)]"""
    return [(c.cmd, c.timeout) for c in cl]


M.export(cmds=PyFn("cmds", lambda ex, args, kwargs, st, node: args[0]))


def _native_etckeeper():
    return bool(_os.environ.get("ETCKEEPER_CHECK", False))


etckeeper = _native_etckeeper()


@M.spec
def spec_apply_before(hw: Hw, do_commit: BOOL, do_finalize: BOOL, etck: BOOL) -> SeqCmdT:
    """the command that enters configuration mode"""
    if hw.Huawei:
        return [("system-view", None)]
    if hw.Arista:
        return [("conf s", None)]
    if hw.ASR or hw.XRV or hw.XR:
        return [("configure exclusive", None)]
    if hw.Cisco or hw.Nexus:
        return [("conf t", None)]
    if hw.Juniper:
        return [("configure exclusive", None)]
    if hw.PC:
        return [("etckeeper check", None)] if (hw.soft.startswith(("Cumulus", "SwitchDev")) and etck) else []
    if hw.Nokia:
        return [("configure private", None)]
    if hw.RouterOS:
        return []
    if hw.Aruba:
        return [("conf t", None)]
    if hw.Ribbon:
        return [("configure exclusive", None)]
    if hw.B4com:
        return [("conf t", None)]
    return [("system-view", None)]


@M.spec
def spec_apply_after(hw: Hw, do_commit: BOOL, do_finalize: BOOL) -> SeqCmdT:
    """commit (only when committing is enabled and the platform has commits), leave, save (only when finalizing)"""
    if hw.Huawei:
        return ([("commit", None)] if (do_commit and (hw.Huawei.CE or hw.Huawei.NE)) else []) + [("q", None)] + \
            ([("save", 20)] if do_finalize else [])
    if hw.Arista:
        return [("commit", None) if do_commit else ("abort", None)] + ([("write memory", None)] if do_finalize else [])
    if hw.ASR or hw.XRV or hw.XR:
        return ([("commit", None)] if do_commit else []) + [("exit", None)]
    if hw.Cisco or hw.Nexus:
        return [("exit", None)] + ([("copy running-config startup-config", 40)] if do_finalize else [])
    if hw.Juniper:
        return ([("commit", 30)] if do_commit else []) + [("exit", None)]
    if hw.PC:
        return []
    if hw.Nokia:
        return [("commit", None)] if do_commit else []
    if hw.RouterOS:
        return []
    if hw.Aruba:
        return [("end", None)] + ([("commit apply", None)] if do_commit else []) + ([("write memory", None)] if do_finalize else [])
    if hw.Ribbon:
        return ([("commit", 30)] if do_commit else []) + [("exit", None)]
    if hw.B4com.CS2148P:
        return [("end", None)] + ([("write", 40)] if do_finalize else [])
    if hw.B4com:
        return ([("commit", None), ("end", None)] if do_commit else []) + ([("write", 40)] if do_finalize else [])
    return [("save force", 20)] if do_finalize else []


@M.spec
def known_hw(hw: Hw) -> BOOL:
    return bool(hw.Huawei or hw.Arista or hw.ASR or hw.XRV or hw.XR or hw.Cisco or hw.Nexus or hw.Juniper or hw.PC or hw.Nokia
                or hw.RouterOS or hw.Aruba or hw.Ribbon or hw.B4com or hw.H3C)


@M.spec
def no_commit_cmd(cs: SeqCmdT) -> BOOL:
    return True if len(cs) == 0 else (not cs[0][0].startswith("commit") and no_commit_cmd(cs[1:]))


M.lemma("no_commit_when_disabled", vars=dict(hw=Hw, do_finalize=BOOL, etck=BOOL), hyps=[],
        goal="no_commit_cmd(spec_apply_before(hw, False, do_finalize, etck)) and no_commit_cmd(spec_apply_after(hw, False, do_finalize))",
        properties=["C09"], fuel=5)


def _hw_inputs():
    from bounded.common import setup_annet
    setup_annet()
    from annet.annlib.netdev.views.hardware import HardwareView
    models = ["Huawei CE6870", "Huawei NE40E", "Huawei S5700", "Arista DCS-7368", "Cisco ASR9001", "Cisco XRV", "Cisco Catalyst 2960",
              "Cisco Nexus 3172", "Juniper MX480", "PC Mellanox SN3700", "PC", "Nokia 7750", "RouterOS RB2011", "Aruba AP-505",
              "Ribbon NPT-1200", "B4com CS2148P", "B4com 4100", "H3C S6800", "NoSuchVendor X1"]
    for m in models:
        for soft in ("", "Cumulus Linux 4.2"):
            for dc in (False, True):
                for df in (False, True):
                    yield dict(hw=HardwareView(m, soft), do_commit=dc, do_finalize=df)


M.contract(F, "apply", params=dict(hw=Hw, do_commit=BOOL, do_finalize=BOOL), ret=ApplyRes, ignore_kwargs=True,
           requires=["implies(hw.Huawei.CE, hw.Huawei)", "implies(hw.Huawei.NE, hw.Huawei)", "implies(hw.B4com.CS2148P, hw.B4com)"],
           ensures=["cmds(result[0]) == spec_apply_before(hw, do_commit, do_finalize, etckeeper)",
                    "cmds(result[1]) == spec_apply_after(hw, do_commit, do_finalize)"],
           raises={"Exception": ["not known_hw(hw)"]},
           canaries=["len(result[1]) == 0"], inputs=_hw_inputs, properties=["C09"], shards=8,
           note="hardware flags are booleans with the hierarchy axiom (a specific family implies its ancestor) as precondition")
