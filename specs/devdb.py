"""Sidecar contract for annet/annlib/netdev/db.py:find_true_sequences (C18): the true hardware sequences of a model are exactly those of
the tree nodes whose whole regex chain matches the model string."""
import z3
from pyvc.dsl import SpecModule, Lazy
from pyvc.types import *
from pyvc.values import V, PyConstObj, PyFn, NONE_V, coerce, PyTup
from pyvc.native import dhead, dtail, dput, dhas

M = SpecModule("devdb")
U = M.U
F = "annet/annlib/netdev/db.py"

Rx = U.opaque("Rx")                              # a compiled regex (the keys of the tree)
SeqId = U.opaque("SeqId")                        # a hardware sequence, e.g. ("Huawei", "CE")
SeqSet = SetT(SeqId)
Meta = U.record("Meta", dict(sequences=SeqSet, children="DbTree"))
DbTree = U.dict("DbTree", Rx, Meta)

rx_search = M.opaque("rx_search", [Rx, STR], BOOL, impl=lambda rx, s: rx.search(s) is not None, note="re.Pattern.search(model)")
Rx.methods = {"search": lambda ex, recv, recv_node, args, kwargs, st, node: V(BOOL, rx_search.decl()(recv.t, coerce(args[0], STR).t))}


def _empty_set(ex, args, kwargs, st, node):
    if args:
        from pyvc.values import Unsupported
        raise Unsupported("set(<iterable>)")
    return V(SeqSet, z3.EmptySet(SeqId.sort()))


M.export(set=PyFn("set", _empty_set))


@M.spec
def chain_member(s: SeqId, hw_model: STR, tree: DbTree) -> BOOL:
    """s belongs to a node all of whose ancestors and itself match the model string"""
    if not tree:
        return False
    here = rx_search(dhead(tree)[0], hw_model) and (s in dhead(tree)[1]["sequences"] or chain_member(s, hw_model, dhead(tree)[1]["children"]))
    return here or chain_member(s, hw_model, dtail(tree))


def _fts_inputs():
    import re

    def node(seqs, children=None):
        return {"sequences": set(seqs), "children": children or {}}
    t1 = {re.compile("Huawei"): node([("Huawei",)], {re.compile("CE"): node([("Huawei", "CE"), ("CE",)], {re.compile("CE68"): node([("Huawei", "CE", "CE6800")])}),
                                                   re.compile("NE"): node([("Huawei", "NE")])}),
          re.compile("Cisco"): node([("Cisco",)], {re.compile("Nexus"): node([("Cisco", "Nexus")])})}
    cands = [("Huawei",), ("Huawei", "CE"), ("CE",), ("Huawei", "CE", "CE6800"), ("Huawei", "NE"), ("Cisco",), ("Cisco", "Nexus"), ("X",)]
    for tree in (t1, {}, {re.compile("."): node([("any",)])}):
        for model in ("Huawei CE6870", "Huawei NE40", "Cisco Nexus 9508", "Cisco Catalyst", "Arista", "Huawei CE12800", "Nexus 9508", "Acme CE6850",
                      "NE40 CE68"):
            for s in cands + [("any",)]:
                yield dict(hw_model=model, tree=tree, s=s)


M.contract(F, "find_true_sequences", inputs=_fts_inputs, params=dict(hw_model=STR, tree=DbTree), ret=SeqSet, locals=dict(sequences=SeqSet),
           ghost=dict(s=SeqId),
           ensures=["(s in result) == chain_member(s, hw_model, tree)"],
           loops={1: dict(match="tree.items()", inv=["((s in sequences) or chain_member(s, hw_model, _rest1)) == chain_member(s, hw_model, tree)"])},
           canaries=["s in result"], properties=["C18"],
           note="membership form: for EVERY sequence s (s is an arbitrary, universally quantified ghost value); relative to re.search")
