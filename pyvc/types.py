"""pyvc.types -- typed encoding of Python values into z3 sorts.

Every symbolic value carries a static type descriptor (declared in the sidecar); the z3 sort is derived from it.
Recursive structures (config trees, diffs, patch trees) are algebraic datatypes (cons/nil); flat sequences are
z3 `Seq`; strings are z3 `String`.  All datatypes of one Universe are created together so they may be mutually
recursive.
"""
import z3
from .defs import rec_function, add_definition


class Ty:
    name = "?"
    mutable = False

    def sort(self):
        raise NotImplementedError

    def __repr__(self):
        return self.name


class PrimT(Ty):
    def __init__(self, name, mk):
        self.name = name
        self._mk = mk

    def sort(self):
        return self._mk()


INT = PrimT("Int", z3.IntSort)
BOOL = PrimT("Bool", z3.BoolSort)
STR = PrimT("Str", z3.StringSort)
REAL = PrimT("Real", z3.RealSort)


class NoneT(Ty):
    name = "None"

    def sort(self):
        return z3.BoolSort()


NONE = NoneT()


class SeqT(Ty):
    """flat immutable-or-mutable sequence with native z3 Seq ops (elements must not contain this Seq recursively)"""
    mutable = True
    _interned = {}

    def __new__(cls, elem):
        k = id(elem)
        if k not in cls._interned:
            o = super().__new__(cls)
            o.elem = elem
            o.name = "Seq[%s]" % elem.name
            cls._interned[k] = o
        return cls._interned[k]

    def __init__(self, elem):
        pass

    def sort(self):
        return z3.SeqSort(self.elem.sort())


class SetT(Ty):
    mutable = True

    def __init__(self, elem):
        self.elem = elem
        self.name = "Set[%s]" % elem.name

    def sort(self):
        return z3.ArraySort(self.elem.sort(), z3.BoolSort())


class Universe:
    """Holds the named datatypes of one sidecar; `finalize` creates them in one CreateDatatypes call."""

    def __init__(self, name):
        self.name = name
        self.types = {}      # name -> Ty
        self._adts = []      # types needing a z3 datatype
        self.final = False
        self.lemmas = []     # (name, z3 quantified formula) available to every query once proved
        self.lemma_obligs = []  # (name, thunk) proof obligations for the lemmas
        self.funcs = {}      # helper rec functions by key

    def _reg(self, ty):
        assert not self.final, "universe already finalized"
        assert ty.name not in self.types, ty.name
        self.types[ty.name] = ty
        ty.U = self
        if isinstance(ty, AdtT):
            self._adts.append(ty)
        return ty

    def resolve(self, t):
        if isinstance(t, str):
            return self.types[t]
        return t

    # constructors of named types
    def opaque(self, name):
        return self._reg(OpaqueT(name))

    def enum(self, name, values):
        return self._reg(EnumT(name, values))

    def tuple(self, name, elems, fields=None):
        return self._reg(TupleT(name, elems, fields))

    def record(self, name, fields, keymap=None, pyclass=None):
        return self._reg(RecT(name, fields, keymap, pyclass))

    def list(self, name, elem):
        return self._reg(ListT(name, elem))

    def dict(self, name, key, val):
        return self._reg(DictT(name, key, val))

    def union(self, name, alts):
        return self._reg(UnionT(name, alts))

    def finalize(self):
        if self.final:
            return
        for t in list(self.types.values()):
            t.resolve_refs(self)
        # create the datatypes in dependency order, one strongly connected component at a time (a datatype that
        # occurs under a Seq must already exist; mutually recursive ones are declared together)
        def deps(t):
            out = set()

            def walk(x):
                if isinstance(x, AdtT):
                    out.add(x.name)
                elif isinstance(x, (SeqT, SetT)):
                    walk(x.elem)
            for c in t.component_types():
                walk(c)
            return out
        graph = {t.name: deps(t) & {a.name for a in self._adts} for t in self._adts}
        order = _sccs(graph)
        byname = {t.name: t for t in self._adts}
        for comp in order:
            decls = {n: z3.Datatype(n) for n in comp}
            for n in comp:
                byname[n].declare(decls[n], decls)
            created = z3.CreateDatatypes(*[decls[n] for n in comp])
            for n, srt in zip(comp, created):
                byname[n]._sort = srt
        self.final = True
        for t in self._adts:
            t.post_create()


def _sccs(graph):
    """Tarjan; returns components in reverse topological order of the condensation (dependencies first)"""
    index, low, stack, on, res = {}, {}, [], set(), []
    counter = [0]

    def visit(v):
        index[v] = low[v] = counter[0]
        counter[0] += 1
        stack.append(v)
        on.add(v)
        for w in sorted(graph[v]):
            if w not in index:
                visit(w)
                low[v] = min(low[v], low[w])
            elif w in on:
                low[v] = min(low[v], index[w])
        if low[v] == index[v]:
            comp = []
            while True:
                w = stack.pop()
                on.discard(w)
                comp.append(w)
                if w == v:
                    break
            res.append(sorted(comp))
    for v in sorted(graph):
        if v not in index:
            visit(v)
    return res


class OpaqueT(Ty):
    def __init__(self, name):
        self.name = name
        self._sort = None

    def resolve_refs(self, U):
        pass

    def sort(self):
        if self._sort is None:
            self._sort = z3.DeclareSort(self.name)
        return self._sort


def _ref(decls, t):
    """sort of t for use inside a datatype declaration (forward reference when t is being declared)"""
    if isinstance(t, AdtT) and t.name in decls:
        return decls[t.name]
    return t.sort()


class AdtT(Ty):
    _sort = None

    def component_types(self):
        return []

    def sort(self):
        assert self._sort is not None, "universe not finalized: %s" % self.name
        return self._sort

    def resolve_refs(self, U):
        pass

    def post_create(self):
        pass


class EnumT(AdtT):
    """finite set of python constants (e.g. the members of Op)"""

    def __init__(self, name, values):
        self.name = name
        self.values = list(values)   # python constants, hashable
        self.labels = ["%s_%d" % (name, i) for i in range(len(self.values))]

    def declare(self, d, decls):
        for lab in self.labels:
            d.declare(lab)

    def const(self, pyval):
        i = self.values.index(pyval)
        return getattr(self.sort(), self.labels[i])

    def index_of(self, term):
        """z3 Int giving the position of the value (used for ordering enum members by a declared key)"""
        s = self.sort()
        e = z3.IntVal(len(self.values) - 1)
        for i in reversed(range(len(self.values) - 1)):
            e = z3.If(term == getattr(s, self.labels[i]), z3.IntVal(i), e)
        return e


class TupleT(AdtT):
    def __init__(self, name, elems, fields=None):
        self.name = name
        self.elems = list(elems)
        self.fields = list(fields) if fields else None

    def resolve_refs(self, U):
        self.elems = [U.resolve(e) for e in self.elems]

    def declare(self, d, decls):
        d.declare("mk_" + self.name, *[("%s_%d" % (self.name, i), _ref(decls, e)) for i, e in enumerate(self.elems)])

    def component_types(self):
        return self.elems

    def mk(self, *terms):
        return getattr(self.sort(), "mk_" + self.name)(*terms)

    def get(self, term, i):
        return getattr(self.sort(), "%s_%d" % (self.name, i))(term)


class RecT(AdtT):
    """record: python object with attributes, or dict with a fixed set of literal keys"""
    mutable = True

    def __init__(self, name, fields, keymap=None, pyclass=None):
        self.name = name
        self.fields = dict(fields)          # field name -> Ty
        self.keymap = dict(keymap or {})    # python subscript constant -> field name
        self.pyclass = pyclass

    def resolve_refs(self, U):
        self.fields = {k: U.resolve(v) for k, v in self.fields.items()}

    def declare(self, d, decls):
        d.declare("mk_" + self.name, *[("%s__%s" % (self.name, f), _ref(decls, t)) for f, t in self.fields.items()])

    def component_types(self):
        return list(self.fields.values())

    def mk(self, **kw):
        return getattr(self.sort(), "mk_" + self.name)(*[kw[f] for f in self.fields])

    def get(self, term, f):
        return getattr(self.sort(), "%s__%s" % (self.name, f))(term)

    def set(self, term, f, val):
        return self.mk(**{g: (val if g == f else self.get(term, g)) for g in self.fields})

    def field_of_key(self, key):
        if key in self.keymap:
            return self.keymap[key]
        if isinstance(key, str) and key in self.fields:
            return key
        return None


class UnionT(AdtT):
    """tagged union; alts: tag -> Ty or None (nullary).  `pykinds` maps python-level kinds to tags:
    'str' for isinstance(x,str), 'none' for None, or a global name (sentinel class) for `x is Name`."""

    def __init__(self, name, alts):
        self.name = name
        self.alts = dict(alts)

    def resolve_refs(self, U):
        self.alts = {k: (U.resolve(v) if v is not None else None) for k, v in self.alts.items()}

    def declare(self, d, decls):
        for tag, t in self.alts.items():
            if t is None or t is NONE:
                d.declare("%s_%s" % (self.name, tag))
            else:
                d.declare("%s_%s" % (self.name, tag), ("%s_%s_v" % (self.name, tag), _ref(decls, t)))

    def component_types(self):
        return [t for t in self.alts.values() if t is not None]

    def is_(self, term, tag):
        return getattr(self.sort(), "is_%s_%s" % (self.name, tag))(term)

    def mk(self, tag, term=None):
        c = getattr(self.sort(), "%s_%s" % (self.name, tag))
        t = self.alts[tag]
        if t is None or t is NONE:
            return c
        return c(term)

    def val(self, term, tag):
        return getattr(self.sort(), "%s_%s_v" % (self.name, tag))(term)

    def tag_of_type(self, ty):
        for tag, t in self.alts.items():
            # python's None is the nullary alternative called `none`; other nullary alternatives are sentinels of their own
            if t is ty or (t is None and ty is NONE and tag == "none") or (t is NONE and ty is NONE):
                return tag
        return None


class ListT(AdtT):
    """cons/nil list (for recursive structures); python list / tuple"""
    mutable = True

    def __init__(self, name, elem):
        self.name = name
        self.elem = elem
        self._fn = {}

    def resolve_refs(self, U):
        self.elem = U.resolve(self.elem)

    def declare(self, d, decls):
        d.declare(self.name + "_nil")
        d.declare(self.name + "_cons", (self.name + "_hd", _ref(decls, self.elem)), (self.name + "_tl", decls[self.name]))

    def component_types(self):
        return [self.elem]

    @property
    def nil(self):
        return getattr(self.sort(), self.name + "_nil")

    def cons(self, h, t):
        return getattr(self.sort(), self.name + "_cons")(h, t)

    def is_nil(self, t):
        return getattr(self.sort(), "is_" + self.name + "_nil")(t)

    def is_cons(self, t):
        return getattr(self.sort(), "is_" + self.name + "_cons")(t)

    def hd(self, t):
        return getattr(self.sort(), self.name + "_hd")(t)

    def tl(self, t):
        return getattr(self.sort(), self.name + "_tl")(t)

    def post_create(self):
        S = self.sort()
        E = self.elem.sort()
        n = self.name
        a, b, c = z3.Consts("%s_a %s_b %s_c" % (n, n, n), S)
        x = z3.Const(n + "_x", E)
        i = z3.Int(n + "_i")
        app = rec_function(n + "_app", S, S, S)
        add_definition(app, [a, b], z3.If(self.is_nil(a), b, self.cons(self.hd(a), app(self.tl(a), b))))
        ln = rec_function(n + "_len", S, z3.IntSort())
        add_definition(ln, [a], z3.If(self.is_nil(a), 0, 1 + ln(self.tl(a))))
        mem = rec_function(n + "_mem", E, S, z3.BoolSort())
        add_definition(mem, [x, a], z3.If(self.is_nil(a), False, z3.Or(self.hd(a) == x, mem(x, self.tl(a)))))
        nth = rec_function(n + "_nth", S, z3.IntSort(), E)
        add_definition(nth, [a, i], z3.If(z3.Or(i <= 0, self.is_nil(a)), self.hd(a), nth(self.tl(a), i - 1)))
        last = rec_function(n + "_last", S, E)
        add_definition(last, [a], z3.If(self.is_nil(self.tl(a)), self.hd(a), last(self.tl(a))))
        drop = rec_function(n + "_drop", S, z3.IntSort(), S)
        add_definition(drop, [a, i], z3.If(z3.Or(i <= 0, self.is_nil(a)), a, drop(self.tl(a), i - 1)))
        take = rec_function(n + "_take", S, z3.IntSort(), S)
        add_definition(take, [a, i], z3.If(z3.Or(i <= 0, self.is_nil(a)), self.nil,
                                                self.cons(self.hd(a), take(self.tl(a), i - 1))))
        self._fn = dict(app=app, len=ln, mem=mem, nth=nth, last=last, drop=drop, take=take)
        U = self.U
        # lemma library (each proved by structural induction in pyvc.solve.prove_universe_lemmas)
        hd, tl = self.hd, self.tl
        ih_t = z3.Const(n + "_t", S)
        h = z3.Const(n + "_h", E)

        def lem(name, vars_, body, pats, ind_var):
            U.lemmas.append((n + "." + name, (vars_, body, pats)))
            # induction on ind_var: base nil, step cons(h,t) with hypothesis for t (other vars universally fixed)
            others = [v for v in vars_ if not v.eq(ind_var)]
            base = z3.substitute(body, (ind_var, self.nil))
            hyp = z3.substitute(body, (ind_var, ih_t))
            if others:
                hyp_q = z3.ForAll(others, hyp)
            else:
                hyp_q = hyp
            step = z3.substitute(body, (ind_var, self.cons(h, ih_t)))
            U.lemma_obligs.append((n + "." + name + ".base", [], base, len(U.lemmas) - 1))
            U.lemma_obligs.append((n + "." + name + ".step", [hyp_q], step, len(U.lemmas) - 1))

        def rule(name, vars_, body, pats):
            """computation rule on a constructor pattern: direct consequence of the definition (one unfolding)"""
            U.lemmas.append((n + "." + name, (vars_, body, pats)))
            U.lemma_obligs.append((n + "." + name, [], body, len(U.lemmas) - 1))

        rule("app_nil_l", [b], app(self.nil, b) == b, [app(self.nil, b)])
        rule("app_cons", [h, ih_t, b], app(self.cons(h, ih_t), b) == self.cons(h, app(ih_t, b)), [app(self.cons(h, ih_t), b)])
        lem("app_nil_r", [a], app(a, self.nil) == a, [app(a, self.nil)], a)
        lem("app_assoc", [a, b, c], app(app(a, b), c) == app(a, app(b, c)), [app(app(a, b), c)], a)
        lem("len_nonneg", [a], ln(a) >= 0, [ln(a)], a)
        lem("len_app", [a, b], ln(app(a, b)) == ln(a) + ln(b), [ln(app(a, b))], a)
        lem("mem_app", [x, a, b], mem(x, app(a, b)) == z3.Or(mem(x, a), mem(x, b)), [mem(x, app(a, b))], a)

    def fn(self, k):
        return self._fn[k]


class DictT(AdtT):
    """insertion-ordered dict as an association list; well-formed when keys are distinct"""
    mutable = True

    def __init__(self, name, key, val):
        self.name = name
        self.key = key
        self.val = val
        self._fn = {}

    def resolve_refs(self, U):
        self.key = U.resolve(self.key)
        self.val = U.resolve(self.val)

    def declare(self, d, decls):
        n = self.name
        d.declare(n + "_nil")
        d.declare(n + "_cons", (n + "_k", _ref(decls, self.key)), (n + "_v", _ref(decls, self.val)), (n + "_tl", decls[n]))

    def component_types(self):
        return [self.key, self.val]

    @property
    def nil(self):
        return getattr(self.sort(), self.name + "_nil")

    def cons(self, k, v, t):
        return getattr(self.sort(), self.name + "_cons")(k, v, t)

    def is_nil(self, t):
        return getattr(self.sort(), "is_" + self.name + "_nil")(t)

    def k(self, t):
        return getattr(self.sort(), self.name + "_k")(t)

    def v(self, t):
        return getattr(self.sort(), self.name + "_v")(t)

    def tl(self, t):
        return getattr(self.sort(), self.name + "_tl")(t)

    def post_create(self):
        S, K, V = self.sort(), self.key.sort(), self.val.sort()
        n = self.name
        a, b = z3.Consts("%s_a %s_b" % (n, n), S)
        k, k2 = z3.Consts("%s_kk %s_kk2" % (n, n), K)
        v = z3.Const(n + "_vv", V)
        has = rec_function(n + "_has", S, K, z3.BoolSort())
        add_definition(has, [a, k], z3.If(self.is_nil(a), False, z3.Or(self.k(a) == k, has(self.tl(a), k))))
        get = rec_function(n + "_get", S, K, V)
        add_definition(get, [a, k], z3.If(z3.Or(self.is_nil(a), self.k(a) == k), self.v(a), get(self.tl(a), k)))
        st = rec_function(n + "_set", S, K, V, S)
        add_definition(st, [a, k, v], z3.If(self.is_nil(a), self.cons(k, v, self.nil),
                                                 z3.If(self.k(a) == k, self.cons(k, v, self.tl(a)),
                                                       self.cons(self.k(a), self.v(a), st(self.tl(a), k, v)))))
        rm = rec_function(n + "_del", S, K, S)
        add_definition(rm, [a, k], z3.If(self.is_nil(a), a,
                                              z3.If(self.k(a) == k, self.tl(a),
                                                    self.cons(self.k(a), self.v(a), rm(self.tl(a), k)))))
        app = rec_function(n + "_app", S, S, S)
        add_definition(app, [a, b], z3.If(self.is_nil(a), b, self.cons(self.k(a), self.v(a), app(self.tl(a), b))))
        ln = rec_function(n + "_len", S, z3.IntSort())
        add_definition(ln, [a], z3.If(self.is_nil(a), 0, 1 + ln(self.tl(a))))
        wf = rec_function(n + "_wf", S, z3.BoolSort())
        add_definition(wf, [a], z3.If(self.is_nil(a), True,
                                           z3.And(z3.Not(has(self.tl(a), self.k(a))), wf(self.tl(a)))))
        disj = rec_function(n + "_disj", S, S, z3.BoolSort())
        add_definition(disj, [a, b], z3.If(self.is_nil(b), True, z3.And(z3.Not(has(a, self.k(b))), disj(a, self.tl(b)))))
        self._fn = dict(has=has, get=get, set=st, delete=rm, app=app, len=ln, wf=wf, disj=disj)
        U = self.U
        ih_t = z3.Const(n + "_t", S)
        hk = z3.Const(n + "_hk", K)
        hv = z3.Const(n + "_hv", V)

        def lem(name, vars_, body, pats, ind_var):
            U.lemmas.append((n + "." + name, (vars_, body, pats)))
            others = [x for x in vars_ if not x.eq(ind_var)]
            base = z3.substitute(body, (ind_var, self.nil))
            hyp = z3.substitute(body, (ind_var, ih_t))
            hyp_q = z3.ForAll(others, hyp) if others else hyp
            step = z3.substitute(body, (ind_var, self.cons(hk, hv, ih_t)))
            U.lemma_obligs.append((n + "." + name + ".base", [], base, len(U.lemmas) - 1))
            U.lemma_obligs.append((n + "." + name + ".step", [hyp_q], step, len(U.lemmas) - 1))

        def rule(name, vars_, body, pats):
            U.lemmas.append((n + "." + name, (vars_, body, pats)))
            U.lemma_obligs.append((n + "." + name, [], body, len(U.lemmas) - 1))

        one = lambda kk, vv: self.cons(kk, vv, self.nil)
        rule("app_nil_l", [b], app(self.nil, b) == b, [app(self.nil, b)])
        rule("app_cons", [hk, hv, ih_t, b], app(self.cons(hk, hv, ih_t), b) == self.cons(hk, hv, app(ih_t, b)),
             [app(self.cons(hk, hv, ih_t), b)])
        rule("has_nil", [k], has(self.nil, k) == z3.BoolVal(False), [has(self.nil, k)])
        rule("has_cons", [hk, hv, ih_t, k], has(self.cons(hk, hv, ih_t), k) == z3.Or(hk == k, has(ih_t, k)),
             [has(self.cons(hk, hv, ih_t), k)])
        rule("disj_nil_r", [a], disj(a, self.nil) == z3.BoolVal(True), [disj(a, self.nil)])
        rule("disj_cons", [a, hk, hv, ih_t], disj(a, self.cons(hk, hv, ih_t)) == z3.And(z3.Not(has(a, hk)), disj(a, ih_t)),
             [disj(a, self.cons(hk, hv, ih_t))])
        lem("disj_nil_l", [b], disj(self.nil, b), [disj(self.nil, b)], b)
        lem("app_nil_r", [a], app(a, self.nil) == a, [app(a, self.nil)], a)
        c = z3.Const(n + "_c", S)
        lem("app_assoc", [a, b, c], app(app(a, b), c) == app(a, app(b, c)), [app(app(a, b), c)], a)
        lem("has_app", [a, b, k], has(app(a, b), k) == z3.Or(has(a, k), has(b, k)), [has(app(a, b), k)], a)
        lem("set_new", [a, k, v], z3.Implies(z3.Not(has(a, k)), st(a, k, v) == app(a, one(k, v))), [st(a, k, v)], a)
        lem("len_nonneg", [a], ln(a) >= 0, [ln(a)], a)
        lem("get_app_l", [a, b, k], z3.Implies(has(a, k), get(app(a, b), k) == get(a, k)), [get(app(a, b), k)], a)
        lem("get_app_r", [a, b, k], z3.Implies(z3.Not(has(a, k)), get(app(a, b), k) == get(b, k)),
            [get(app(a, b), k)], a)
        lem("has_set", [a, k, v, k2], has(st(a, k, v), k2) == z3.Or(k2 == k, has(a, k2)), [has(st(a, k, v), k2)], a)
        lem("get_set_eq", [a, k, v], get(st(a, k, v), k) == v, [get(st(a, k, v), k)], a)
        lem("get_set_ne", [a, k, v, k2], z3.Implies(k2 != k, get(st(a, k, v), k2) == get(a, k2)), [get(st(a, k, v), k2)], a)
        v2 = z3.Const(n + "_vv2", V)
        lem("set_set", [a, k, v, v2], st(st(a, k, v), k, v2) == st(a, k, v2), [st(st(a, k, v), k, v2)], a)
        lem("set_get_same", [a, k], z3.Implies(has(a, k), st(a, k, get(a, k)) == a), [st(a, k, get(a, k))], a)
        lem("disj_set", [a, b, k, v], z3.Implies(z3.And(disj(a, b), z3.Not(has(b, k))), disj(st(a, k, v), b)),
            [disj(st(a, k, v), b)], b)
        # delete (dict.pop / del): removes the entry of the key; with unique keys (wf) the key is gone afterwards
        lem("len_app", [a, b], ln(app(a, b)) == ln(a) + ln(b), [ln(app(a, b))], a)
        lem("has_del_ne", [a, k, k2], z3.Implies(k2 != k, has(rm(a, k), k2) == has(a, k2)), [has(rm(a, k), k2)], a)
        lem("has_del_eq", [a, k], z3.Implies(wf(a), z3.Not(has(rm(a, k), k))), [has(rm(a, k), k)], a)
        lem("wf_del", [a, k], z3.Implies(wf(a), wf(rm(a, k))), [wf(rm(a, k))], a)
        lem("wf_set", [a, k, v], z3.Implies(wf(a), wf(st(a, k, v))), [wf(st(a, k, v))], a)

    def fn(self, k):
        return self._fn[k]
