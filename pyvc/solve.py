"""pyvc.solve -- discharge obligations with z3 (primary) and cvc5 (cross-check / second opinion on unknowns)."""
import importlib
import os
import sys
import subprocess
import tempfile
import time
import traceback
import z3
from .types import *
from .values import *
from .dsl import gen_function_vcs, SpecModule, Contract
from .execu import State, Ctx
from .stmts import SpecEval
from . import defs

Z3_TIMEOUT_MS = int(os.environ.get("PYVC_Z3_TIMEOUT_MS", "20000"))


def _solver(timeout_ms):
    s = z3.Solver()
    s.set("timeout", timeout_ms)
    return s


def _sx_parse(text):
    """SMT-LIB text -> nested lists of tokens (strings and |quoted symbols| kept as single tokens)"""
    out, stack, i, n = [], [], 0, len(text)
    cur = out
    while i < n:
        c = text[i]
        if c == ";":
            while i < n and text[i] != "\n":
                i += 1
        elif c == "(":
            new = []
            cur.append(new)
            stack.append(cur)
            cur = new
            i += 1
        elif c == ")":
            cur = stack.pop()
            i += 1
        elif c.isspace():
            i += 1
        elif c == '"':
            j = i + 1
            while j < n:
                if text[j] == '"':
                    if j + 1 < n and text[j + 1] == '"':
                        j += 2
                        continue
                    break
                j += 1
            cur.append(text[i:j + 1])
            i = j + 1
        elif c == "|":
            j = text.index("|", i + 1)
            cur.append(text[i:j + 1])
            i = j + 1
        else:
            j = i
            while j < n and not text[j].isspace() and text[j] not in "()":
                j += 1
            cur.append(text[i:j])
            i = j
    return out


def _sx_print(x):
    return x if isinstance(x, str) else "(" + " ".join(_sx_print(y) for y in x) + ")"


def _sets_for_cvc5(text):
    """z3 prints finite sets as arrays into Bool with its own operator names; cvc5 has a theory of sets: translate
    (Array T Bool) -> (Set T), const false -> set.empty, union / setminus / intersection, select -> set.member, store .. true -> insert"""
    if "(Array " not in text:
        return text

    def tr(x):
        if isinstance(x, str):
            return x
        x = [tr(y) for y in x]
        if not x:
            return x
        if len(x) == 3 and x[0] == "Array" and x[2] == "Bool":
            return ["Set", x[1]]
        if len(x) == 2 and isinstance(x[0], list) and x[0][:2] == ["as", "const"] and x[1] == "false":
            return ["as", "set.empty", x[0][2]]
        if len(x) == 3 and isinstance(x[0], list) and len(x[0]) == 3 and x[0][0] == "as" and x[0][1] in ("union", "setminus", "intersection"):
            return [{"union": "set.union", "setminus": "set.minus", "intersection": "set.inter"}[x[0][1]], x[1], x[2]]
        if not x:
            return x
        if isinstance(x[0], list) and x[0][:2] == ["_", "map"] and len(x[0]) == 3:
            op = x[0][2]
            if op == "not" and len(x) == 2:
                return ["set.complement", x[1]]
            if op == "and" and len(x) == 3:
                if isinstance(x[2], list) and x[2][:1] == ["set.complement"]:
                    return ["set.minus", x[1], x[2][1]]
                if isinstance(x[1], list) and x[1][:1] == ["set.complement"]:
                    return ["set.minus", x[2], x[1][1]]
                return ["set.inter", x[1], x[2]]
            if op == "or" and len(x) == 3:
                return ["set.union", x[1], x[2]]
        if len(x) == 3 and x[0] in ("setminus", "union", "intersection") and isinstance(x[0], str):
            return [{"union": "set.union", "setminus": "set.minus", "intersection": "set.inter"}[x[0]], x[1], x[2]]
        if len(x) == 3 and x[0] == "select":
            return ["set.member", x[2], x[1]]
        if len(x) == 4 and x[0] == "store" and x[3] == "true":
            return ["set.insert", x[2], x[1]]
        return x
    return "\n".join(_sx_print(tr(f)) for f in _sx_parse(text)) + "\n"


class _Cvc5Job:
    """cvc5 on an SMT-LIB2 text in a subprocess; can be abandoned"""

    def __init__(self, smt, timeout_s, variant="cli"):
        f = tempfile.NamedTemporaryFile("w", suffix=".smt2", delete=False, dir=os.environ.get("PYVC_TMP"))
        f.write(_sets_for_cvc5(smt))
        f.close()
        self.path = f.name
        self.timeout_s = timeout_s
        self.variant = variant
        if variant == "cli":            # /usr/bin/cvc5 1.0.3
            cmd = ["/usr/bin/cvc5", "--strings-exp", "--tlimit=%d" % int(timeout_s * 1000), self.path]
        elif variant == "cli-lazy":     # same binary, array-style reasoning about seq.nth
            cmd = ["/usr/bin/cvc5", "--strings-exp", "--seq-array=lazy", "--tlimit=%d" % int(timeout_s * 1000), self.path]
        else:                           # cvc5 1.4.x from the wheelhouse (python API), killed by us on timeout
            cmd = [sys.executable, os.path.join(os.path.dirname(os.path.abspath(__file__)), "cvc5_runner.py"), self.path]
        self.p = subprocess.Popen(cmd, stdout=subprocess.PIPE, stderr=subprocess.PIPE, text=True)

    def result(self, wait_s=None):
        try:
            out, err = self.p.communicate(timeout=(wait_s if wait_s is not None else self.timeout_s + 10))
        except subprocess.TimeoutExpired:
            self.p.kill()
            self.p.communicate()
            self._rm()
            return "unknown"
        self._rm()
        lines = out.strip().splitlines()
        ans = lines[0].strip() if lines else ""
        if ans in ("unsat", "sat"):
            return ans
        if "error" in (out + err).lower():
            return "error"
        return "unknown"

    def abandon(self):
        try:
            self.p.kill()
            self.p.communicate()
        except Exception:
            pass
        self._rm()

    def _rm(self):
        try:
            os.unlink(self.path)
        except OSError:
            pass


def _z3_child(smt, timeout_s, want_model=True):
    """z3 (the wheel's CLI, same version as the API) on an SMT-LIB2 text in a killable child -> (sat|unsat|unknown, model text)"""
    f = tempfile.NamedTemporaryFile("w", suffix=".smt2", delete=False, dir=os.environ.get("PYVC_TMP"))
    f.write(smt.replace("(check-sat)", "") + "\n(check-sat)\n" + ("(get-model)\n" if want_model else ""))
    f.close()
    exe = os.path.join(os.path.dirname(sys.executable), "z3")
    if not os.path.exists(exe):
        exe = "z3-new"
    try:
        p = subprocess.run([exe, "-t:%d" % int(timeout_s * 1000), "-T:%d" % (int(timeout_s) + 2), f.name], capture_output=True, text=True,
                           timeout=timeout_s + 10)
        out = p.stdout
    except (subprocess.TimeoutExpired, OSError):
        out = ""
    finally:
        try:
            os.unlink(f.name)
        except OSError:
            pass
    lines = out.strip().splitlines()
    ans = lines[0].strip() if lines else "unknown"
    if ans not in ("sat", "unsat"):
        return "unknown", None
    return ans, ("\n".join(lines[1:])[:6000] if ans == "sat" else None)


def _cvc5_smt(smt, timeout_s):
    return _Cvc5Job(smt, timeout_s).result()


def _rewrite_unit_inv(text):
    """z3's internal `((_ seq.unit-inv seq.unit-inv) X)` (the element of a unit sequence) is SMT-LIB `(seq.nth X 0)`"""
    key = "((_ seq.unit-inv seq.unit-inv) "
    while True:
        i = text.find(key)
        if i < 0:
            return text
        j = i + len(key)
        depth, k = 0, j
        while k < len(text):
            c = text[k]
            if c == "(":
                depth += 1
            elif c == ")":
                if depth == 0:
                    break
                depth -= 1
            elif c.isspace() and depth == 0 and k > j:
                break
            k += 1
        arg = text[j:k]
        end = text.index(")", k)
        text = text[:i] + "(seq.nth " + arg + " 0)" + text[end + 1:]


def _top_forms(text):
    """split an SMT-LIB2 text into its top-level forms (comments dropped)"""
    forms, i, n = [], 0, len(text)
    while i < n:
        c = text[i]
        if c == ";":
            while i < n and text[i] != "\n":
                i += 1
        elif c == "(":
            depth, j = 0, i
            while j < n:
                d = text[j]
                if d == '"':
                    j += 1
                    while j < n and text[j] != '"':
                        j += 1
                elif d == "|":
                    j += 1
                    while j < n and text[j] != "|":
                        j += 1
                elif d == "(":
                    depth += 1
                elif d == ")":
                    depth -= 1
                    if depth == 0:
                        break
                j += 1
            forms.append(text[i:j + 1])
            i = j
        i += 1
    return forms


def _order_declarations(text):
    """z3's printer may emit a datatype group before a datatype it refers to (seen with several groups of mutually recursive
    types): emit sorts first, then the datatype groups in dependency order; everything else keeps its order"""
    import re as _re
    forms = _top_forms(text)
    sorts = [f for f in forms if f.startswith("(declare-sort")]
    dts = [f for f in forms if f.startswith("(declare-datatypes")]
    rest = [f for f in forms if not f.startswith("(declare-sort") and not f.startswith("(declare-datatypes")]
    if len(dts) < 2:
        return text
    names = []
    for f in dts:
        head = f[len("(declare-datatypes"):]
        # ((A 0) (B 0)) (...)
        depth, j = 0, 0
        for j, ch in enumerate(head):
            if ch == "(":
                depth += 1
            elif ch == ")":
                depth -= 1
                if depth == 0:
                    break
        names.append(set(_re.findall(r"\(\s*([^\s()]+)\s+\d+\s*\)", head[:j + 1])))
    allnames = set().union(*names)
    deps = []
    for k, f in enumerate(dts):
        toks = set(_re.findall(r"[^\s()]+", f))
        deps.append({m for m in range(len(dts)) if m != k and (names[m] & toks)})
    done, order = set(), []
    while len(order) < len(dts):
        progressed = False
        for k in range(len(dts)):
            if k not in done and deps[k] <= done:
                order.append(k)
                done.add(k)
                progressed = True
        if not progressed:      # cyclic (should not happen: z3 groups mutually recursive types): keep the remaining order
            order.extend(k for k in range(len(dts)) if k not in done)
            break
    pre = [f for f in rest if f.startswith("(set-")]
    post = [f for f in rest if not f.startswith("(set-")]
    return "\n".join(pre + sorts + [dts[k] for k in order] + post) + "\n"


def _dump_text(text):
    text = _order_declarations(text)
    return "(set-logic ALL)\n" + _rewrite_unit_inv(text.replace("seq.nth_i", "seq.nth").replace("seq.nth_u", "seq.nth"))


def _dump(solver):
    # z3 prints two internal variants of seq.nth (in-bounds / underspecified); both are SMT-LIB seq.nth
    return _dump_text(solver.to_smt2())


def check_valid(assumptions, goal, lemmas=(), timeout_ms=None, want_model=True, max_fuel=3, refute=True, thorough=False,
                fuel_timeout_ms=15000):
    """-> dict(status=proved|refuted|unknown, time_s, model=str|None, backend, fuel)

    1. fuel encoding (uninterpreted symbols + definitional instances, depth 1..max_fuel).  z3 walks the fuel levels;
       cvc5 runs beside it (started at once on the depth-1 query).  Queries over Seq/String are only `proved` by z3
       alone when cvc5 does not contradict it (z3's sequence solver returned a wrong `unsat` during development, see
       DESIGN appendix); a z3/cvc5 disagreement is `unknown`.
    2. otherwise the define-fun-rec encoding without the lemma library: `sat` => refuted (genuine counter-model
       candidate: lemmas are consequences of the definitions, dropping them loses nothing for satisfiability);
    3. else unknown."""
    timeout_ms = timeout_ms or Z3_TIMEOUT_MS
    t0 = time.time()
    neg = z3.Not(goal)
    base = list(assumptions) + [neg]
    # only lemmas that talk about functions occurring in the query (keeps quantifiers out of queries that cannot use them)
    base_ids = defs.decl_ids(base + defs.instances(base, 1))
    # (lemmas of the sidecar named in `use` are always passed on: the relevance filter is for the list/dict library `Type.lemma`)
    lem = [defs.forall_uf(*l) for n, l in lemmas if "." not in n or defs.lemma_relevant(l, base_ids)]
    axioms = [l for n, l in lemmas if n.startswith("axiom:")]
    cvc5_budget = 60 if thorough else 25

    def build(fuel):
        insts = defs.instances(base, fuel)
        s = _solver(min(timeout_ms, fuel_timeout_ms))
        ground = [defs.to_uf(f) for f in base + insts]
        for f in ground:
            s.add(f)
        for f in lem:
            s.add(f)
        return s, _dump(s), ground

    def certificate(smt):
        """quantifier-free version of a query z3 has refuted: the ground part + the lemma instances of z3's refutation.
        The query is re-run in a separate proof-producing z3 process (pyvc/cert_child.py, killable); the `quant-inst` steps of
        the proof are the instances.  cvc5 then re-checks the certificate without trusting z3's reasoning (DESIGN appendix B)."""
        if not lem:
            return None
        f = tempfile.NamedTemporaryFile("w", suffix=".smt2", delete=False, dir=os.environ.get("PYVC_TMP"))
        f.write(smt)
        f.close()
        try:
            p = subprocess.run([sys.executable, os.path.join(os.path.dirname(os.path.abspath(__file__)), "cert_child.py"), f.name, "30000"],
                               capture_output=True, text=True, timeout=45)
            out = p.stdout
        except (subprocess.TimeoutExpired, OSError):
            return None
        finally:
            try:
                os.unlink(f.name)
            except OSError:
                pass
        if not out.startswith("CERT\n"):
            return None
        return _dump_text(out[5:])

    queries = {}
    s1, smt1, ground1 = build(1)
    queries[1] = (s1, smt1, ground1)
    has_seq = ("(Seq " in smt1) or ("seq." in smt1) or ("str." in smt1)
    need_cvc5 = has_seq or thorough
    jobs = {}
    if need_cvc5:
        jobs[1] = _Cvc5Job(smt1, cvc5_budget)
    z_fuel = None
    last = None
    for fuel in range(1, max_fuel + 1):
        if fuel not in queries:
            queries[fuel] = build(fuel)
        s, smt, ground = queries[fuel]
        if has_seq:
            # in a killable child: z3's sequence solver can ignore its own timeout (seen on integer-sequence lemmas)
            rz = {"unsat": z3.unsat, "sat": z3.sat}.get(_z3_child(smt, min(timeout_ms, fuel_timeout_ms) / 1000.0, False)[0], z3.unknown)
        else:
            rz = s.check()
        last = "z3:%s (fuel %d)" % (rz, fuel)
        if rz == z3.unsat:
            z_fuel = fuel
            break
        # cvc5 may already have settled the shallow query while z3 was working on it
        if 1 in jobs and jobs[1].p.poll() is not None and not getattr(jobs[1], "_res", None):
            jobs[1]._res = jobs[1].result()
            if jobs[1]._res == "unsat":
                return dict(status="proved", time_s=time.time() - t0, model=None, backend="cvc5", fuel=1)
    if z_fuel is not None and not need_cvc5:
        return dict(status="proved", time_s=time.time() - t0, model=None, backend="z3", fuel=z_fuel)
    disagreement = False
    if z_fuel is not None:
        for f, j in list(jobs.items()):
            if f != z_fuel:
                if getattr(j, "_res", None) is None:
                    j.abandon()
                del jobs[f]
        cert = certificate(queries[z_fuel][1]) if has_seq else None
        orig_job = None
        cert_smt = cert or queries[z_fuel][1]
        if cert is not None:
            # re-check the quantifier-free certificate rather than the quantified query
            # (the job on the quantified query keeps running: cvc5 sometimes needs a lemma instance z3 did not)
            orig_job = jobs.get(z_fuel)
            jobs[z_fuel] = _Cvc5Job(cert_smt, cvc5_budget)
        elif z_fuel not in jobs:
            jobs[z_fuel] = _Cvc5Job(cert_smt, cvc5_budget)
        j = jobs[z_fuel]
        # z3 has a proof, but its sequence solver has returned wrong `unsat`s (DESIGN appendix B): a Seq/String query counts as
        # proved only when a cvc5 confirms it.  Portfolio: cvc5 1.0.3, then cvc5 1.0.3 --seq-array=lazy and cvc5 1.4 side by side.
        rc = getattr(j, "_res", None) or j.result(wait_s=10)
        if orig_job is not None and orig_job is not j and (rc in ("unsat", "sat") or not has_seq) \
                and getattr(orig_job, "_res", None) is None:
            orig_job.abandon()
            orig_job = None
        if rc == "unsat":
            return dict(status="proved", time_s=time.time() - t0, model=None, backend="z3+cvc5", fuel=z_fuel)
        if rc == "sat" and cert is None:
            disagreement = True
            last = "z3:unsat cvc5:sat (fuel %d)" % z_fuel
        elif not has_seq:
            # thorough tier on a pure datatype/arithmetic query: z3 is trusted there, cvc5's silence is recorded
            return dict(status="proved", time_s=time.time() - t0, model=None, backend="z3(cvc5:%s)" % rc, fuel=z_fuel)
        else:
            budget = 120 if thorough else 75
            # (`sat` on a CERTIFICATE is not a disagreement: the certificate holds only the lemma instances of z3's refutation, and z3
            #  may have used an instance it found by model-based instantiation, which leaves no quant-inst step; the quantified query
            #  itself then goes to the cvc5 portfolio, and only its answer counts)
            cert_incomplete = (rc == "sat" and cert is not None)
            extra = [] if cert_incomplete else [_Cvc5Job(cert_smt, budget, "cli-lazy"), _Cvc5Job(cert_smt, budget, "py")]
            if cert_incomplete:
                extra = [_Cvc5Job(queries[z_fuel][1], budget, "cli-lazy"), _Cvc5Job(queries[z_fuel][1], budget, "py")]
            if cert is not None:
                oj = orig_job if (orig_job is not None and getattr(orig_job, "_res", None) is None) else \
                    _Cvc5Job(queries[z_fuel][1], budget)
                oj.variant = "quantified"
                extra.append(oj)
            deadline = time.time() + budget + 5
            verdict = None
            while time.time() < deadline and verdict is None:
                alive = False
                for e in extra:
                    if getattr(e, "_res", None) is not None:
                        continue
                    if e.p.poll() is None:
                        alive = True
                        continue
                    e._res = e.result()
                    if e._res in ("unsat", "sat"):
                        verdict = (e._res, e.variant)
                if not alive:
                    break
                time.sleep(0.05)
            for e in extra:
                if getattr(e, "_res", None) is None:
                    e.abandon()
            if verdict and verdict[0] == "unsat":
                return dict(status="proved", time_s=time.time() - t0, model=None, backend="z3+cvc5(%s)" % verdict[1], fuel=z_fuel)
            if verdict and verdict[0] == "sat":
                disagreement = True
                last = "z3:unsat cvc5(%s):sat (fuel %d)" % (verdict[1], z_fuel)
            else:
                last = "z3:unsat but no cvc5 confirms (fuel %d): a sequence query is not counted as proved on z3 alone" % z_fuel
    elif need_cvc5:
        for fuel in range(1, max_fuel + 1):
            j = jobs.get(fuel) or _Cvc5Job(queries[fuel][1], cvc5_budget)
            rc = getattr(j, "_res", None) or j.result()
            if rc == "unsat":
                return dict(status="proved", time_s=time.time() - t0, model=None, backend="cvc5", fuel=fuel)
            last = "z3:not unsat, cvc5:%s (fuel %d)" % (rc, fuel)
            if rc == "sat" and fuel == max_fuel:
                break
    if refute:
        # define-fun-rec encoding, in a child process: z3's recursive-function unfolding over sequences can ignore its own
        # timeout (seen on Registry.match), and a checker that hangs is worse than one that says `unknown`
        s2 = z3.Solver()
        for a in base:
            s2.add(a)
        for (qv, body, pats) in axioms:
            s2.add(z3.ForAll(list(qv), body, patterns=list(pats)) if (qv and pats) else (z3.ForAll(list(qv), body) if qv else body))
        r2, m = _z3_child(_dump(s2), timeout_ms / 1000.0, want_model)
        if r2 == "sat":
            return dict(status="refuted", time_s=time.time() - t0, model=m, backend="z3")
    return dict(status="unknown", time_s=time.time() - t0, model=None, backend="z3+cvc5", reason=last,
                disagreement=disagreement)


def cvc5_check(assumptions, goal, lemmas=(), timeout_s=30):
    """re-check with /usr/bin/cvc5 on the SMT-LIB2 dump; -> proved|refuted|unknown|error"""
    s = z3.Solver()
    for _, l in lemmas:
        s.add(l)
    for a in assumptions:
        s.add(a)
    s.add(z3.Not(goal))
    smt = "(set-logic ALL)\n" + s.to_smt2()
    with tempfile.NamedTemporaryFile("w", suffix=".smt2", delete=False, dir=os.environ.get("PYVC_TMP")) as f:
        f.write(smt)
        path = f.name
    try:
        p = subprocess.run(["/usr/bin/cvc5", "--strings-exp", "--tlimit=%d" % (timeout_s * 1000), path],
                           capture_output=True, text=True, timeout=timeout_s + 10)
        out = p.stdout.strip().splitlines()
        ans = out[0] if out else ""
        if ans == "unsat":
            return "proved"
        if ans == "sat":
            return "refuted"
        if p.returncode != 0 and "error" in (p.stdout + p.stderr).lower():
            return "error"
        return "unknown"
    except subprocess.TimeoutExpired:
        return "unknown"
    finally:
        os.unlink(path)


def make_feasible():
    def feasible(pc):
        # path pruning only: spec functions are left uninterpreted here (no recursive unfolding, which is where z3 has ignored its
        # timeout); `unsat` with fewer facts is still `unsat`, so a pruned path really is infeasible
        s = _solver(300)
        for c in pc:
            s.add(defs.to_uf(c))
        return s.check() != z3.unsat
    return feasible


def load(modname):
    m = importlib.import_module(modname)
    sm = m.M
    sm.U.finalize()
    return sm


def prove_universe(modname):
    """the structural-induction proofs of the list/dict lemma library of one sidecar's universe"""
    sm = load(modname)
    res = []
    for name, hyps, goal, idx in sm.U.lemma_obligs:
        r = check_valid(hyps, goal, sm.U.lemmas[:idx], want_model=False)
        res.append(dict(name="universe:" + sm.name + ":" + name, kind="lemma", status=r["status"], time_s=r["time_s"],
                        backend=r["backend"]))
    return res


def all_registry(sm):
    reg = {}
    for dep in getattr(sm, "deps", []):
        reg.update(dep.registry())
    reg.update(sm.registry())
    return reg


def verify_contract(modname, key, tier="quick", shard=0, nshards=1):
    """generate and discharge the obligations of one real function; returns a JSON-able dict"""
    t0 = time.time()
    sm = load(modname)
    reg = all_registry(sm)
    c = next(x for x in sm.contracts if x.key == key)
    out = dict(key=key, module=modname, properties=c.properties, obligations=[], status="ok", note=c.note)
    if c.trusted:
        out["status"] = "trusted"
        return out
    try:
        ctx, info = gen_function_vcs(c, reg, make_feasible())
    except Unsupported as e:
        out["status"] = "undecided"
        out["reason"] = "unsupported: %s" % e
        out["wall_s"] = time.time() - t0
        return out
    except Exception:
        out["status"] = "error"
        out["reason"] = traceback.format_exc()[-3000:]
        out["wall_s"] = time.time() - t0
        return out
    out.update(sha256=info["sha256"], paths=info["paths"], lines=info["lines"])
    lemmas = ([] if getattr(c, "no_library", False) else list(sm.U.lemmas)) + used_lemmas(sm, c.use)
    out["uses_lemmas"] = list(c.use)
    # vacuity: the precondition (with sort invariants) must be satisfiable
    s = _solver(5000)
    for a in info["entry_pc"]:
        s.add(a)
    rv = s.check()
    out["requires_satisfiable"] = str(rv)
    if rv == z3.unsat:
        out["status"] = "vacuous"
    if not ctx.obligs:
        out["status"] = "vacuous"
        out["reason"] = "no obligations generated"
    out["n_generated"] = len(ctx.obligs)
    n_unknown = 0
    for oi, o in enumerate(ctx.obligs):
        if oi % nshards != shard:
            continue
        if n_unknown >= 3:
            # the proof of this function is lost anyway (bounded layers decide): do not spend the full budget on the rest
            r = check_valid(o.assumptions, o.goal, lemmas, fuel_timeout_ms=4000, timeout_ms=8000, refute=False, max_fuel=2)
        else:
            r = check_valid(o.assumptions, o.goal, lemmas, thorough=(tier == "thorough"))
        if r["status"] == "unknown" and n_unknown < 2:
            # one retry with larger budgets: a verdict must not flip because the machine is busy
            r2 = check_valid(o.assumptions, o.goal, lemmas, thorough=True, fuel_timeout_ms=30000, timeout_ms=40000, refute=False)
            r2["time_s"] += r["time_s"]
            r2["retried"] = True
            r = r2
        if r["status"] != "proved":
            n_unknown += 1
        rec = dict(fuel=r.get("fuel"), name=o.name, kind=o.kind, line=o.line, note=o.note, status=r["status"], time_s=round(r["time_s"], 4),
                   backend=r["backend"], contract=o.is_contract)
        if r["status"] == "refuted":
            rec["model"] = r["model"]
        out["obligations"].append(rec)
    # canaries: deliberately wrong postconditions must be refuted
    out["canaries"] = []
    for can in (c.canaries if shard == 0 else []):
        try:
            cctx, _ = gen_function_vcs(c, reg, make_feasible(), extra_post=[can])
            posts = [o for o in cctx.obligs if o.kind == "post"]
            refuted = False
            for o in posts:
                r = check_valid(o.assumptions, o.goal, lemmas, timeout_ms=5000, want_model=False, fuel_timeout_ms=2500, max_fuel=2)
                if r["status"] == "refuted":
                    refuted = True
                    break
                if r["status"] != "proved":
                    break
            all_proved = bool(posts) and not refuted and all(
                check_valid(o.assumptions, o.goal, lemmas, timeout_ms=5000, want_model=False, fuel_timeout_ms=2500,
                            max_fuel=2, refute=False)["status"] == "proved" for o in posts)
            out["canaries"].append(dict(post=can, refuted=refuted, proved=all_proved))
        except Exception as e:
            out["canaries"].append(dict(post=can, refuted=False, proved=False, error=str(e)))
    out["wall_s"] = round(time.time() - t0, 3)
    return out


def _lemma_ctx(sm, lem):
    ctx = Ctx(type("C", (), dict(key="lemma:" + lem["name"], ns=sm.ns, locals={}, loops={}, calls={}, raises={},
                                 globals={}, file="", comp_types=dict(lem.get("comp_types") or {}), result_type=None))(), sm.ns)
    ctx.spec_mode = True
    return ctx, SpecEval(ctx, sm.ns)


def lemma_formula(sm, lem):
    """the lemma as a quantified formula (pattern from the sidecar when given)"""
    ctx, ev = _lemma_ctx(sm, lem)
    vars_ = {n: fresh(t, n) for n, t in lem["vars"].items()}
    st = State(dict(vars_))
    hs = [truthy(ev.ev_str(h, st)) for h in lem["hyps"]]
    g = truthy(ev.ev_str(lem["goal"], st))
    body = z3.Implies(z3.And(*hs), g) if hs else g
    qv = [v.t for v in vars_.values() if v.ty is not NONE]
    pats = []
    if lem.get("pattern"):
        pv = ev.ev_str(lem["pattern"], st)
        pats = [pv.t]
    return (qv, body, pats)


def used_lemmas(sm, names):
    out = []
    for n in names:
        lem = next(l for l in sm.lemmas if l["name"] == n)
        # an assumed lemma is an axiom about an opaque function: it also constrains the counter-model search
        out.append((("axiom:" + n) if lem.get("assumed") else n, lemma_formula(sm, lem)))
    return out


def prove_lemmas(modname):
    """L layer: lemmas over spec functions, by the induction scheme named in the sidecar"""
    sm = load(modname)
    res = []
    proved = {}
    for lem in sm.lemmas:
        t0 = time.time()
        rec = dict(name="lemma:" + sm.name + ":" + lem["name"], kind="lemma", properties=lem["properties"])
        if lem.get("assumed"):
            rec.update(status="assumed", time_s=0.0, backend="none", note=lem.get("note", ""),
                       statement="%s => %s" % (" and ".join(lem["hyps"]) or "True", lem["goal"]))
            proved[lem["name"]] = True
            res.append(rec)
            continue
        try:
            ctx = Ctx(type("C", (), dict(key="lemma:" + lem["name"], ns=sm.ns, locals={}, loops={}, calls={}, raises={},
                                         globals={}, file="", comp_types=dict(lem.get("comp_types") or {}), result_type=None))(), sm.ns)
            ctx.spec_mode = True
            ev = SpecEval(ctx, sm.ns)
            vars_ = {n: fresh(t, n) for n, t in lem["vars"].items()}

            def instance(env):
                st = State(dict(env))
                hs = [truthy(ev.ev_str(h, st)) for h in lem["hyps"]]
                g = truthy(ev.ev_str(lem["goal"], st))
                return hs, g
            used = list(sm.U.lemmas) + [(n, lemma_formula(sm, next(l for l in sm.lemmas if l["name"] == n)))
                                        for n in lem["use"] if n in proved]
            missing = [n for n in lem["use"] if n not in proved]
            if missing:
                rec.update(status="unknown", reason="depends on unproved lemma(s) %s" % missing)
                res.append(rec)
                continue
            hs, g = instance(vars_)
            ind = lem["induct"]
            statuses = []
            def instance_facts(env_now):
                # explicit (quantifier-free) instances of earlier lemmas: ("name", {var: expression over this lemma's variables})
                facts = []
                for lname, binding in (lem.get("instances") or []):
                    if lname not in proved:
                        raise Unsupported("instance of unproved lemma %s" % lname)
                    other = next(l for l in sm.lemmas if l["name"] == lname)
                    st0 = State(dict(env_now))
                    env2 = {vn: coerce(ev.ev_str(src, st0), other["vars"][vn]) for vn, src in binding.items()}
                    missing_v = [vn for vn in other["vars"] if vn not in env2]
                    if missing_v:
                        raise Unsupported("instance of %s lacks %s" % (lname, missing_v))
                    st2 = State(env2)
                    hh = [truthy(ev.ev_str(h, st2)) for h in other["hyps"]]
                    gg = truthy(ev.ev_str(other["goal"], st2))
                    facts.append(z3.Implies(z3.And(*hh), gg) if hh else gg)
                return facts
            if ind is None:
                r = check_valid(hs + instance_facts(vars_), g, used, want_model=False, max_fuel=lem.get("fuel", 3))
                statuses.append(r["status"])
            else:
                v = vars_[ind]
                T = v.ty
                gen = [n for n in lem.get("general", []) or [] if n != ind]
                # base
                env = dict(vars_)
                env[ind] = V(T, z3.Empty(T.sort())) if (isinstance(T, SeqT) or T is STR) else V(T, T.nil)
                hs0, g0 = instance(env)
                statuses.append(check_valid(hs0, g0, used, want_model=False)["status"])
                # step
                tl = fresh(T, ind + "_tl")
                if isinstance(T, SeqT) or T is STR:
                    if T is STR:
                        hd = fresh(STR, ind + "_hd")
                        vars_extra = [z3.Length(hd.t) == 1]
                        cons = V(T, z3.Concat(hd.t, tl.t))
                    else:
                        hd = fresh(T.elem, ind + "_hd")
                        vars_extra = []
                        cons = V(T, z3.Concat(z3.Unit(hd.t), tl.t))
                elif isinstance(T, ListT):
                    hd = fresh(T.elem, ind + "_hd")
                    cons = V(T, T.cons(hd.t, tl.t))
                else:
                    hk, hv = fresh(T.key, ind + "_k"), fresh(T.val, ind + "_v")
                    cons = V(T, T.cons(hk.t, hv.t, tl.t))
                env = dict(vars_)
                env[ind] = cons
                hs1, g1 = instance(env)
                ihs = []
                others = [n for n in lem["vars"] if n != ind]
                # structural induction: the hypothesis holds for every immediate sub-term of the induction type
                subterms = [tl]
                if isinstance(T, DictT) and T.val is T:
                    subterms.append(hv)
                if isinstance(T, ListT) and isinstance(T.elem, TupleT):
                    for fi, ft in enumerate(T.elem.elems):
                        if ft is T:
                            subterms.append(V(T, T.elem.get(hd.t, fi)))
                if lem.get("ih"):
                    # explicit (quantifier-free) instances of the induction hypothesis for the tail, given in the sidecar
                    st_cons = State(dict(env))
                    for inst in lem["ih"]:
                        envh = dict(vars_)
                        envh[ind] = tl
                        for vn, src in inst.items():
                            envh[vn] = coerce(ev.ev_str(src, st_cons), lem["vars"][vn])
                        hh, gh = instance(envh)
                        ihs.append(z3.Implies(z3.And(*hh), gh) if hh else gh)
                    subterms = []
                for sub in subterms:
                    envh = dict(vars_)
                    envh[ind] = sub
                    # the other variables are universally quantified in the hypothesis: fresh bound names
                    bound = {n: fresh(vars_[n].ty, "ih_" + n) for n in others}
                    envh.update(bound)
                    hh, gh = instance(envh)
                    body = z3.Implies(z3.And(*hh), gh) if hh else gh
                    qv = [bound[n].t for n in others if bound[n].ty is not NONE]
                    ihs.append(z3.ForAll(qv, body) if qv else body)
                # nested induction hypotheses for sub-structures named in hints are given as extra instances
                extra = (vars_extra if (isinstance(T, SeqT) or T is STR) else []) + instance_facts(env)
                if lem.get("cases"):
                    # the step is proved once per case (each under its own hypothesis); the cases must be exhaustive
                    st_cons = State(dict(env))
                    cs = [truthy(ev.ev_str(c, st_cons)) for c in lem["cases"]]
                    statuses.append(check_valid(hs1 + extra, z3.Or(*cs), used, want_model=False)["status"])
                    for c in cs:
                        statuses.append(check_valid(hs1 + ihs + extra + [c], g1, used, want_model=False)["status"])
                else:
                    statuses.append(check_valid(hs1 + ihs + extra, g1, used, want_model=False)["status"])
            ok = all(s == "proved" for s in statuses)
            rec.update(status="proved" if ok else ("refuted" if "refuted" in statuses else "unknown"), parts=statuses)
            if ok:
                qv = [v.t for v in vars_.values() if v.ty is not NONE]
                body = z3.Implies(z3.And(*hs), g) if hs else g
                proved[lem["name"]] = True
        except Unsupported as e:
            rec.update(status="unknown", reason="unsupported: %s" % e)
        except Exception:
            rec.update(status="error", reason=traceback.format_exc()[-2000:])
        rec["time_s"] = round(time.time() - t0, 4)
        rec["backend"] = "z3"
        res.append(rec)
    return res


def _task(args):
    kind, modname, key, tier = args[:4]
    shard, nshards = (args[4], args[5]) if len(args) > 4 else (0, 1)
    try:
        if kind == "universe":
            return dict(kind=kind, module=modname, results=prove_universe(modname))
        if kind == "lemmas":
            return dict(kind=kind, module=modname, results=prove_lemmas(modname))
        return dict(kind=kind, module=modname, result=verify_contract(modname, key, tier, shard, nshards))
    except Exception:
        return dict(kind=kind, module=modname, key=key, crash=traceback.format_exc()[-3000:])


def run_modules(modnames, tier="quick", jobs=None, only_keys=None):
    """verify all contracts / lemmas of the given sidecar modules in a process pool"""
    import multiprocessing as mp
    tasks = []
    for mn in modnames:
        sm = importlib.import_module(mn).M
        tasks.append(("universe", mn, None, tier))
        if sm.lemmas:
            tasks.append(("lemmas", mn, None, tier))
        for c in sm.contracts:
            if only_keys is None or c.key in only_keys:
                ns = max(1, int(getattr(c, "shards", 1)))
                for sh in range(ns):
                    tasks.append(("contract", mn, c.key, tier, sh, ns))
    ctxm = mp.get_context("fork")
    with ctxm.Pool(jobs or min(16, os.cpu_count() or 4), maxtasksperchild=1) as pool:
        raw = pool.map(_task, tasks, chunksize=1)
    # merge the shards of one function
    merged, by_key = [], {}
    for r in raw:
        if r.get("kind") != "contract" or "result" not in r:
            merged.append(r)
            continue
        k = r["result"]["key"]
        if k not in by_key:
            by_key[k] = r
            merged.append(r)
        else:
            a, b = by_key[k]["result"], r["result"]
            a["obligations"].extend(b.get("obligations", []))
            a["canaries"] = a.get("canaries", []) + b.get("canaries", [])
            a["wall_s"] = max(a.get("wall_s", 0), b.get("wall_s", 0))
            if b["status"] != "ok" and a["status"] == "ok":
                a["status"], a["reason"] = b["status"], b.get("reason")
    for r in merged:
        if r.get("kind") == "contract" and "result" in r:
            r["result"]["obligations"].sort(key=lambda o: o["name"])
    return merged
