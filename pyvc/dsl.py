"""pyvc.dsl -- sidecar vocabulary: spec functions, opaque functions, contracts, lemmas; VC generation entry point."""
import ast
import hashlib
import inspect
import os
import textwrap
import z3
from .defs import rec_function, add_definition
from .types import *
from .values import *
from .execu import State, Outcome, Ctx, Oblig
from .stmts import StmtExec, SpecEval, number_loops

REPO = os.environ.get("ANNET_REPO", "/repo")


class SpecFn:
    """pure, total, structurally recursive Python function; dual use: executed natively by the bounded layer and
    translated (from its own source text) to a z3 recursive function definition"""

    def __init__(self, fn, params, ret, ns):
        self.fn = fn
        self.name = fn.__name__
        self.params = params     # name -> Ty
        self.ret = ret
        self.ns = ns
        self._z3 = None
        self._defined = False

    def __call__(self, *a, **k):
        return self.fn(*a, **k)

    def decl(self):
        if self._z3 is None:
            self._z3 = rec_function("spec_" + self.name, *([t.sort() for t in self.params.values()] + [self.ret.sort()]))
        return self._z3

    def define(self):
        if self._defined:
            return
        self._defined = True
        f = self.decl()
        src = textwrap.dedent(inspect.getsource(self.fn))
        node = ast.parse(src).body[0]
        ctx = Ctx(_DummyContract(self.name, self.ns), self.ns)
        ctx.spec_mode = True
        ev = SpecEval(ctx, self.ns)
        ev.ret_ty = self.ret
        args = [z3.Const("%s_%s" % (self.name, p), t.sort()) for p, t in self.params.items()]
        st = State({p: V(t, a) for (p, t), a in zip(self.params.items(), args)})
        body = coerce(ev.pure_block(node.body, st), self.ret)
        add_definition(f, args, body.t)

    def is_recursive(self):
        if not hasattr(self, "_rec"):
            src = textwrap.dedent(inspect.getsource(self.fn))
            node = ast.parse(src).body[0]
            self._node = node
            self._rec = any(isinstance(n, ast.Name) and n.id == self.name for n in ast.walk(node))
        return self._rec

    def sym_call(self, ex, args, kwargs, st, node):
        names = list(self.params)
        vals = dict(zip(names, args))
        vals.update(kwargs)
        if not self.is_recursive():
            # non-recursive spec functions are macro-expanded (keeps the unfolding depth for the recursive ones)
            ctx = Ctx(_DummyContract(self.name, self.ns), self.ns)
            ctx.spec_mode = True
            ev = SpecEval(ctx, self.ns)
            ev.ret_ty = self.ret
            sub = State({p: coerce(vals[p], self.params[p]) for p in names})
            return coerce(ev.pure_block(self._node.body, sub), self.ret)
        self.define()
        terms = [coerce(vals[p], self.params[p]).t for p in names]
        return V(self.ret, self.decl()(*terms))


class Opaque:
    """uninterpreted function standing for code/library behaviour outside the subset (listed as an assumption);
    `impl` is the real implementation used by the bounded layer"""

    def __init__(self, name, params, ret, impl=None, note=""):
        self.name = name
        self.params = params
        self.ret = ret
        self.impl = impl
        self.note = note
        self._z3 = None

    def __call__(self, *a, **k):
        return self.impl(*a, **k)

    def decl(self):
        if self._z3 is None:
            self._z3 = z3.Function("opq_" + self.name, *([t.sort() for t in self.params] + [self.ret.sort()]))
        return self._z3

    def sym_call(self, ex, args, kwargs, st, node):
        terms = [coerce(a, t).t for a, t in zip(args, self.params)]
        return V(self.ret, self.decl()(*terms))


class Lazy:
    """namespace entry built after the universe is finalized (constructor constants etc.)"""

    def __init__(self, thunk):
        self.thunk = thunk
        self._v = None

    def get(self):
        if self._v is None:
            self._v = self.thunk()
        return self._v


class _DummyContract:
    def __init__(self, key, ns):
        self.key = key
        self.ns = ns
        self.locals = {}
        self.loops = {}
        self.calls = {}
        self.raises = {}
        self.globals = {}
        self.file = ""
        self.comp_types = {}
        self.result_type = None


class Contract:
    def __init__(self, module, file, qual, params, ret=None, yields=None, requires=(), ensures=(), raises=None,
                 raises_ensures=None, locals=None, loops=None, calls=None, globals=None, modifies=(), defaults=None,
                 ignore_kwargs=False, star=None, exc_parents=None, comp_types=None, canaries=(), properties=(),
                 trusted=False, note="", receiver_classes=None, use=(), inputs=None, native_fn=None, shards=1, native_frame_skip=(), callable_recv=False, no_library=False, cursors=None, index_map_type=None, fresh_result=False, ghost_after=None, ghost=None):
        self.no_library = no_library
        self.index_map_type = index_map_type
        self.cursors = dict(cursors or {})
        self.callable_recv = callable_recv
        self.shards = shards
        self.native_frame_skip = list(native_frame_skip)
        self.use = list(use)
        self.native_inputs = inputs
        self.native_fn = native_fn
        # ghost lemma invocations: {"<callee text>#<k>": [(lemma name, {lemma var: expression over the caller's variables and `result`})]}
        # instances of PROVED sidecar lemmas assumed right after the k-th call (source order) of that callee
        self.ghost_after = ghost_after or {}
        # ghost (logical) variables: name -> Ty; arbitrary values the obligations are proved for, i.e. universally quantified
        self.ghost = dict(ghost or {})
        self.fresh_result = fresh_result    # the returned object shares nothing with the arguments or any state (assumed for trusted contracts)
        self.module = module
        self.file = file
        self.qual = qual
        self.key = "%s:%s" % (file, qual)
        self.params = dict(params)
        self.ret = ret
        self.yields = yields
        self.is_generator = yields is not None
        self.result_type = yields if yields is not None else ret
        self.requires = list(requires)
        self.ensures = list(ensures)
        self.raises = dict(raises or {})
        self.raises_ensures = dict(raises_ensures or {})
        self.locals = dict(locals or {})
        self.loops = dict(loops or {})
        self.calls = dict(calls or {})
        self.globals = dict(globals or {})
        self.modifies = list(modifies)
        self.defaults = dict(defaults or {})
        self.ignore_kwargs = ignore_kwargs
        self.star = star
        self.exc_parents = dict(exc_parents or {})
        self.comp_types = dict(comp_types or {})
        self.canaries = list(canaries)       # wrong postconditions that must be refuted
        self.properties = list(properties)
        self.trusted = trusted               # contract assumed, body not verified (listed in evidence)
        self.note = note
        self.is_method = "." in qual and list(self.params)[:1] == ["self"]
        self.ns = module.ns

    def source(self):
        path = os.path.join(REPO, self.file)
        text = open(path, encoding="utf-8").read()
        tree = ast.parse(text)
        node = tree
        for part in self.qual.split("."):
            found = None
            for c in ast.iter_child_nodes(node):
                if isinstance(c, (ast.FunctionDef, ast.ClassDef)) and c.name == part:
                    found = c
                    break
            if found is None:
                raise Unsupported("function %s not found in %s" % (self.qual, self.file))
            node = found
        seg = ast.get_source_segment(text, node)
        return node, seg


class SpecModule:
    """one sidecar: a universe of types, spec functions, contracts and lemmas"""

    def __init__(self, name):
        self.name = name
        self.U = Universe(name)
        self.ns = {}
        self.contracts = []
        self.lemmas = []

    def export(self, **kw):
        self.ns.update(kw)

    def spec(self, fn):
        """decorator: parameter and return types from annotations (Ty objects)"""
        ann = fn.__annotations__
        params = {p: ann[p] for p in inspect.signature(fn).parameters}
        sf = SpecFn(fn, params, ann["return"], self.ns)
        self.ns[fn.__name__] = sf
        return sf

    def opaque(self, name, params, ret, impl=None, note=""):
        o = Opaque(name, params, ret, impl, note)
        self.ns[name] = o
        return o

    def contract(self, file, qual, **kw):
        c = Contract(self, file, qual, **kw)
        self.contracts.append(c)
        return c

    def lemma(self, name, vars, hyps, goal, induct=None, hints=(), properties=(), use=(), pattern=None, general=None, fuel=3, ih=None,
              assumed=False, note="", cases=None, instances=None, comp_types=None):
        """lemma over spec functions.  vars: name->Ty; hyps/goal: expression strings; induct: name of the variable
        (ListT/DictT) for structural induction -- the hypothesis is instantiated for the tail, universally over the
        other variables listed in `general`.  assumed=True: an axiom about an opaque (library) function; it is NOT proved,
        never counted as an obligation, and is listed among the assumptions of every evidence file that uses it."""
        self.lemmas.append(dict(name=name, vars=vars, hyps=list(hyps), goal=goal, induct=induct, hints=list(hints),
                                properties=list(properties), use=list(use), pattern=pattern, general=general, fuel=fuel, ih=ih,
                                assumed=assumed, note=note, cases=cases, instances=instances, comp_types=comp_types))

    def registry(self):
        return {(c.file, c.qual): c for c in self.contracts}


def _frame(ctx, contract, fst, est, line, oblige=True):
    """postconditions speak about the parameter objects: a parameter that is not listed in `modifies` must be unchanged
    at exit (frame obligation) and is read at its entry value; rebinding the parameter *name* is not a mutation"""
    rebound = fst.env.get("__rebound__", ())
    for p, ty in contract.params.items():
        if p in contract.modifies:
            continue
        entry = fst.env.get("old:" + p)
        final = fst.env.get(p)
        if entry is None:
            continue
        if oblige and p not in rebound and isinstance(final, V) and isinstance(entry, V) and ty.mutable \
                and not final.t.eq(entry.t):
            ctx.oblige("frame", fst, final.t == entry.t, line, "parameter %s is not in `modifies` but may be changed" % p)
        est.env[p] = entry


# ------------------------------------------------------------------------------------------------------------------
def gen_function_vcs(contract, registry, feasible=None, extra_post=None):
    """symbolically execute the real function; returns (ctx, info).  extra_post replaces `ensures` (canaries)."""
    contract.module.U.finalize()
    node, seg = contract.source()
    n_loops = number_loops(node)
    ctx = Ctx(contract, contract.ns, feasible)
    ctx.n_loops = n_loops
    ctx.func_ast = node
    ex = StmtExec(ctx, registry)
    st = State()
    for p, ty in contract.params.items():
        st.env[p] = fresh(ty, p)
        st.env["old:" + p] = st.env[p]
    for gname, gty in (getattr(contract, "ghost", None) or {}).items():
        st.env[gname] = fresh(gty, "ghost_" + gname)
    # check the declared parameters against the real signature
    real = [a.arg for a in node.args.posonlyargs + node.args.args + node.args.kwonlyargs]
    if node.args.vararg:
        real.append(node.args.vararg.arg)
    missing = [p for p in real if p not in contract.params]
    dflt_ok = set()
    nd = len(node.args.defaults)
    for a in (node.args.args[-nd:] if nd else []):
        dflt_ok.add(a.arg)
    extra = [p for p in contract.params if p not in real]
    if extra:
        raise Unsupported("contract parameters %s are not parameters of %s" % (extra, contract.key))
    for p in missing:
        raise Unsupported("parameter %s of %s is not declared in the contract" % (p, contract.key))
    if node.args.kwarg:
        st.env[node.args.kwarg.arg] = PyConstObj("**" + node.args.kwarg.arg)
    sub = SpecEval(ctx, contract.ns)
    for r in contract.requires:
        st.assume(truthy(sub.ev_str(r, State(dict(st.env), []))))
    if contract.is_generator:
        st.out = coerce(PyTup([], True), contract.yields)
    entry_pc = list(st.pc)
    outs = ex.run_block(node.body, st)
    ensures = contract.ensures if extra_post is None else extra_post
    n_paths = 0
    for o in outs:
        n_paths += 1
        fst = o.st
        if o.kind in ("normal", "return"):
            if contract.is_generator:
                res = fst.out
            else:
                val = o.val if o.kind == "return" else NONE_V
                res = coerce(val, contract.ret) if contract.ret is not None else NONE_V
            est = State(dict(fst.env), fst.pc)
            est.env["result"] = res
            est.env["_out"] = res
            _frame(ctx, contract, fst, est, o.line)
            for i, e in enumerate(ensures):
                ctx.oblige("post", fst, truthy(sub.ev_str(e, est)), o.line, "ensures[%d]: %s" % (i, e))
            # completeness of the exceptional postconditions: normal exit => no raise condition holds
            if extra_post is None:
                ost = State({k[4:]: v for k, v in fst.env.items() if k.startswith("old:")}, fst.pc)
                for k, v in fst.env.items():
                    if k.startswith("old:"):
                        ost.env[k] = v
                for exc, conds in contract.raises.items():
                    if exc == "AssertionError" or not conds:
                        continue
                    c = z3.And(*[truthy(sub.ev_str(x, ost)) for x in conds])
                    ctx.oblige("raises", fst, z3.Not(c), o.line, "normal exit although raises[%s] holds" % exc)
        elif o.kind == "raise":
            if extra_post is not None:
                continue
            if o.exc not in contract.raises:
                ctx.oblige("raises", fst, z3.BoolVal(False), o.line, "exception %s is not allowed by the contract" % o.exc)
                continue
            if not contract.raises[o.exc]:
                ctx.oblige("raises", fst, z3.BoolVal(True), o.line, "raises[%s] is allowed unconditionally" % o.exc, force=True)
            ost = State({k[4:]: v for k, v in fst.env.items() if k.startswith("old:")}, fst.pc)
            for k, v in fst.env.items():
                if k.startswith("old:"):
                    ost.env[k] = v
            for i, cnd in enumerate(contract.raises[o.exc]):
                ctx.oblige("raises", fst, truthy(sub.ev_str(cnd, ost)), o.line, "raises[%s][%d]: %s" % (o.exc, i, cnd))
            if contract.is_generator:
                est = State(dict(fst.env), fst.pc)
                est.env["result"] = fst.out
                est.env["_out"] = fst.out
                _frame(ctx, contract, fst, est, o.line, oblige=False)
                for i, e in enumerate(contract.raises_ensures.get(o.exc, [])):
                    ctx.oblige("raises", fst, truthy(sub.ev_str(e, est)), o.line, "raises_ensures[%s][%d]: %s" % (o.exc, i, e))
        else:
            raise Unsupported("%s outside loop" % o.kind)
    info = dict(sha256=hashlib.sha256(seg.encode()).hexdigest(), paths=n_paths + ctx.paths, lines=seg.count("\n") + 1,
                entry_pc=entry_pc)
    return ctx, info
