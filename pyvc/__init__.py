"""pyvc -- contract-based deductive verification of real Python functions (AST -> VCs -> z3 / cvc5)."""
