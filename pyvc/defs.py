"""pyvc.defs -- registry of recursive definitions; two encodings of every query.

* rec space: z3 `define-fun-rec` (true semantics; used to look for genuine counter-models),
* uf space ("fuel"): the same symbols as uninterpreted functions plus the definitional instances
  `f(t) = body[t]` for the applications occurring in the query, unfolded to a fixed depth.  Quantifier-free apart
  from the lemma library; `unsat` here is sound for the true semantics because the instances are consequences of
  the definitions.
"""
import z3

DEFS = {}       # decl ast id -> (rec_decl, params, body, uf_decl)


def rec_function(name, *sorts):
    return z3.RecFunction(name, *sorts)


def add_definition(decl, params, body):
    z3.RecAddDefinition(decl, params, body)
    doms = [decl.domain(i) for i in range(decl.arity())]
    uf = z3.Function(decl.name() + "!uf", *(doms + [decl.range()]))
    DEFS[decl.get_id()] = (decl, list(params), body, uf)


def ground_apps(formulas, seen_ids):
    """applications of registered recursive functions occurring outside quantifiers"""
    out = []
    stack = list(formulas)
    visited = set()
    while stack:
        e = stack.pop()
        i = e.get_id()
        if i in visited:
            continue
        visited.add(i)
        if z3.is_quantifier(e):
            continue
        if z3.is_app(e):
            d = e.decl()
            if d.get_id() in DEFS and i not in seen_ids:
                seen_ids.add(i)
                out.append(e)
            stack.extend(e.children())
    return out


def instances(formulas, depth):
    seen = set()
    insts = []
    frontier = ground_apps(formulas, seen)
    for _ in range(depth):
        new = []
        for app in frontier:
            decl, params, body, _uf = DEFS[app.decl().get_id()]
            args = app.children()
            inst = app == z3.substitute(body, *zip(params, args))
            insts.append(inst)
            new.append(inst)
        frontier = ground_apps(new, seen)
        if not frontier:
            break
    return insts


def to_uf(e):
    maps = []
    for decl, params, body, uf in DEFS.values():
        vars_ = [z3.Var(i, decl.domain(i)) for i in range(decl.arity())]
        maps.append((decl, uf(*vars_)))
    return z3.substitute_funs(e, *maps) if maps else e


def forall_uf(vars_, body, pats=()):
    """quantified lemma built directly in uf space (substitute_funs does not translate patterns)"""
    b = to_uf(body)
    ps = [to_uf(p) for p in pats]
    if not vars_:
        return b
    return z3.ForAll(list(vars_), b, patterns=ps) if ps else z3.ForAll(list(vars_), b)


def decl_ids(formulas):
    """ids of all function symbols (registered recursive functions and datatype-independent uninterpreted ones) in the formulas"""
    out = set()
    stack = list(formulas)
    seen = set()
    while stack:
        e = stack.pop()
        i = e.get_id()
        if i in seen:
            continue
        seen.add(i)
        if z3.is_quantifier(e):
            stack.append(e.body())
            continue
        if z3.is_app(e):
            d = e.decl()
            if d.get_id() in DEFS:
                out.add(d.get_id())
            stack.extend(e.children())
    return out


def lemma_relevant(lemma, base_ids):
    """a lemma of the library is useful only if every recursive function in its pattern(s) occurs in the query"""
    vars_, body, pats = lemma
    ids = decl_ids(list(pats) if pats else [body])
    return bool(ids) and ids <= base_ids


def _match(pat, term, var_ids, binding):
    """first-order matching of a lemma pattern against a ground term"""
    pid = pat.get_id()
    if pid in var_ids:
        if pid in binding:
            return binding[pid][1].eq(term)
        if not pat.sort().eq(term.sort()):
            return False
        binding[pid] = (pat, term)
        return True
    if not (z3.is_app(pat) and z3.is_app(term)):
        return pat.eq(term)
    if not pat.decl().eq(term.decl()) or pat.num_args() != term.num_args():
        return False
    return all(_match(p, t, var_ids, binding) for p, t in zip(pat.children(), term.children()))


def _subterms(formulas):
    out = []
    seen = set()
    stack = list(formulas)
    while stack:
        e = stack.pop()
        i = e.get_id()
        if i in seen:
            continue
        seen.add(i)
        if z3.is_quantifier(e):
            continue
        if z3.is_app(e):
            out.append(e)
            stack.extend(e.children())
    return out


def ground_instances(lemmas, formulas, rounds=2, cap=400):
    """E-matching by hand: instantiate each lemma (vars, body, patterns) on the ground terms of the query that match its
    pattern; the result is quantifier-free (each instance is a consequence of the lemma)"""
    insts = []
    seen = set()
    cur = list(formulas)
    for _ in range(rounds):
        new = []
        terms = _subterms(cur + insts)
        for vars_, body, pats in lemmas:
            if not pats or not vars_:
                if not vars_ and body.get_id() not in seen:
                    seen.add(body.get_id())
                    new.append(body)
                continue
            var_ids = {v.get_id() for v in vars_}
            pat = pats[0]
            head = pat.decl() if z3.is_app(pat) else None
            for t in terms:
                if head is None or not z3.is_app(t) or not t.decl().eq(head):
                    continue
                b = {}
                if _match(pat, t, var_ids, b) and len(b) == len(var_ids):
                    inst = z3.substitute(body, *[(v, b[v.get_id()][1]) for v in vars_])
                    if inst.get_id() not in seen:
                        seen.add(inst.get_id())
                        new.append(inst)
                        if len(insts) + len(new) >= cap:
                            break
            if len(insts) + len(new) >= cap:
                break
        if not new:
            break
        insts.extend(new)
    return insts


def evaluate(formulas, rounds=3):
    """symbolic evaluation by rewriting: an application of a recursive function whose unfolded body simplifies to a term
    without a top-level conditional (its arguments decide the case) is replaced by that term; everything is simplified.
    Sound: every rewrite is an instance of the function's definition."""
    cur = [z3.simplify(f) for f in formulas]
    for _ in range(rounds):
        rew = []
        for app in ground_apps(cur, set()):
            decl, params, body, _uf = DEFS[app.decl().get_id()]
            sb = z3.simplify(z3.substitute(body, *zip(params, app.children())))
            if not (z3.is_app(sb) and sb.decl().kind() == z3.Z3_OP_ITE):
                rew.append((app, sb))
        if not rew:
            break
        cur = [z3.simplify(z3.substitute(f, *rew)) for f in cur]
    return cur
