"""pyvc.defs -- registry of recursive definitions; two encodings of every query.

* rec space: z3 `define-fun-rec` (true semantics; used to look for genuine counter-models),
* uf space ("fuel"): the same symbols as uninterpreted functions plus the definitional instances
  `f(t) = body[t]` for the applications occurring in the query, unfolded to a fixed depth.  Quantifier-free apart
  from the lemma library; `unsat` here is sound for the true semantics because the instances are consequences of
  the definitions.
"""
import z3

DEFS = {}       # decl ast id -> (rec_decl, params, body, uf_decl)


def rec_function(name, *sorts):
    return z3.RecFunction(name, *sorts)


def add_definition(decl, params, body):
    z3.RecAddDefinition(decl, params, body)
    doms = [decl.domain(i) for i in range(decl.arity())]
    uf = z3.Function(decl.name() + "!uf", *(doms + [decl.range()]))
    DEFS[decl.get_id()] = (decl, list(params), body, uf)


def ground_apps(formulas, seen_ids):
    """applications of registered recursive functions occurring outside quantifiers"""
    out = []
    stack = list(formulas)
    visited = set()
    while stack:
        e = stack.pop()
        i = e.get_id()
        if i in visited:
            continue
        visited.add(i)
        if z3.is_quantifier(e):
            continue
        if z3.is_app(e):
            d = e.decl()
            if d.get_id() in DEFS and i not in seen_ids:
                seen_ids.add(i)
                out.append(e)
            stack.extend(e.children())
    return out


def instances(formulas, depth):
    seen = set()
    insts = []
    frontier = ground_apps(formulas, seen)
    for _ in range(depth):
        new = []
        for app in frontier:
            decl, params, body, _uf = DEFS[app.decl().get_id()]
            args = app.children()
            inst = app == z3.substitute(body, *zip(params, args))
            insts.append(inst)
            new.append(inst)
        frontier = ground_apps(new, seen)
        if not frontier:
            break
    return insts


def to_uf(e):
    maps = []
    for decl, params, body, uf in DEFS.values():
        vars_ = [z3.Var(i, decl.domain(i)) for i in range(decl.arity())]
        maps.append((decl, uf(*vars_)))
    return z3.substitute_funs(e, *maps) if maps else e


def forall_uf(vars_, body, pats=()):
    """quantified lemma built directly in uf space (substitute_funs does not translate patterns)"""
    b = to_uf(body)
    ps = [to_uf(p) for p in pats]
    if not vars_:
        return b
    return z3.ForAll(list(vars_), b, patterns=ps) if ps else z3.ForAll(list(vars_), b)
