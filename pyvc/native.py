"""pyvc.native -- the same sidecar contract evaluated at run time on the real function object (bounded stand-in,
CPython cross-check of the encoding, and replay harness).  Never counted as proved."""
import ast
import copy
import importlib
import itertools
from collections import OrderedDict


def norm(x):
    """structural normal form for comparisons: tuples and lists coincide, dicts become ordered pair lists"""
    if isinstance(x, (list, tuple)):
        return [norm(y) for y in x]
    if isinstance(x, dict):
        return ["<dict>"] + [[norm(k), norm(v)] for k, v in x.items()]
    if isinstance(x, (set, frozenset)):
        return ["<set>"] + sorted((norm(y) for y in x), key=repr)
    if isinstance(x, (str, int, float, bool, bytes)) or x is None or isinstance(x, type) or callable(x):
        return x
    if hasattr(x, "__dict__") and type(x).__eq__ is object.__eq__:
        return ["<obj %s>" % type(x).__name__, norm(vars(x))]
    return x


class _EqRewrite(ast.NodeTransformer):
    def visit_Compare(self, node):
        self.generic_visit(node)
        if len(node.ops) == 1 and isinstance(node.ops[0], (ast.Eq, ast.NotEq)):
            call = ast.Call(func=ast.Name(id="_eq", ctx=ast.Load()), args=[node.left, node.comparators[0]], keywords=[])
            if isinstance(node.ops[0], ast.NotEq):
                call = ast.UnaryOp(op=ast.Not(), operand=call)
            return ast.copy_location(call, node)
        return node


_compiled = {}


def compile_expr(src):
    if src not in _compiled:
        tree = ast.parse(src.strip(), mode="eval")
        tree = _EqRewrite().visit(tree)
        ast.fix_missing_locations(tree)
        _compiled[src] = compile(tree, "<contract>", "eval")
    return _compiled[src]


def _forall_items(seq, pred):
    return all(pred(x) for x in seq)


def dhead(d):
    return next(iter(d.items()))


def dtail(d):
    return OrderedDict(list(d.items())[1:])


def dcons(k, v, d):
    return OrderedDict([(k, v)] + list(d.items()))


def dput(d, k, v):
    r = OrderedDict(d)
    r[tuple(k) if isinstance(k, list) else k] = v
    return r


def ddel(d, k):
    r = OrderedDict(d)
    r.pop(k, None)
    return r


def dapp(a, b):
    return OrderedDict(list(a.items()) + list(b.items()))


def dhas(d, k):
    return k in d


def seq_prefix(a, b):
    return list(b[:len(a)]) == list(a)


def dwf(d):
    return True


def ddisj(a, b):
    return not (set(a) & set(b))


def base_ns(module_globals):
    ns = dict(module_globals)
    ns.update(_eq=lambda a, b: norm(a) == norm(b), implies=lambda a, b: (not a) or b, forall_items=_forall_items)
    for k, v in dict(seq_prefix=seq_prefix, dapp=dapp, ddel=ddel, dhas=dhas, dhead=dhead, dtail=dtail, dcons=dcons, dput=dput, dwf=dwf, ddisj=ddisj, odict=OrderedDict).items():
        ns.setdefault(k, v)
    return ns


def resolve_callable(contract):
    modname = contract.file[:-3].replace("/", ".")
    obj = importlib.import_module(modname)
    for part in contract.qual.split("."):
        obj = getattr(obj, part)
    return obj


def run_real(contract, fn, kwargs):
    """call the real function; -> (result, exc_name or None).  Generators are drained; on an exception the prefix
    yielded so far is the result (list semantics, as in the contract)."""
    kw = copy.deepcopy({k: v for k, v in kwargs.items() if k not in (getattr(contract, "ghost", None) or {})})
    star = contract.star
    args = []
    if star:
        args = list(kw.pop(star))
    try:
        if contract.is_generator:
            out = []
            try:
                for item in fn(*args, **kw) if not star else fn(*args, **kw):
                    out.append(item)
            except Exception as e:      # noqa
                return out, type(e).__name__, kw
            return out, None, kw
        return fn(*args, **kw) if not star else fn(*args, **kw), None, kw
    except Exception as e:      # noqa
        return None, type(e).__name__, kw


def check_case(contract, fn, kwargs, module_globals):
    """-> None if the contract holds on this input, else a dict describing the failure"""
    ns = base_ns(module_globals)
    pre_env = dict(ns)
    pre_env.update(kwargs)
    for r in contract.requires:
        try:
            if not eval(compile_expr(r), pre_env):
                return "skip"
        except Exception:
            return "skip"
    old = copy.deepcopy(kwargs)
    result, exc, after = run_real(contract, fn, kwargs)
    env = dict(ns)
    env.update(after)
    if "old" not in kwargs:       # (a parameter may itself be called `old`; old(<name>) is rewritten to __old_<name> below)
        env["old"] = None
    env["result"] = result
    env["_out"] = result

    class _Old:
        def __call__(self, v):
            return v
    # old(x) is evaluated by rewriting old(<name>) -> __old_<name>
    for k, v in old.items():
        env["__old_" + k] = v

    def ev(src, use_old_params=False):
        src2 = src
        import re
        src2 = re.sub(r"\bold\((\w+)\)", r"__old_\1", src2)
        e = dict(env)
        if use_old_params:
            e.update(old)
        return eval(compile_expr(src2), e)
    fail = None
    try:
        for p_, v_ in old.items():
            if p_ not in contract.modifies and p_ not in contract.native_frame_skip and p_ in after and norm(after[p_]) != norm(v_):
                fail = dict(kind="frame", clause="parameter %s is not in `modifies` but was changed" % p_)
        for p_ in old:
            if p_ not in contract.modifies:
                env[p_] = old[p_]
        if fail is not None:
            pass
        elif exc is None:
            for i, e in enumerate(contract.ensures):
                if not ev(e):
                    fail = dict(kind="post", clause=e)
                    break
            if fail is None:
                for en, conds in contract.raises.items():
                    if en == "AssertionError" or not conds:
                        continue
                    if all(ev(c, True) for c in conds):
                        fail = dict(kind="raises", clause="normal exit although raises[%s] holds" % en)
                        break
        else:
            allowed = [en for en in contract.raises if en == exc or contract.exc_parents.get(exc) == en]
            if not allowed:
                fail = dict(kind="raises", clause="exception %s not allowed by the contract" % exc)
            else:
                for c in contract.raises[allowed[0]]:
                    if not ev(c, True):
                        fail = dict(kind="raises", clause="raised %s but not (%s)" % (exc, c))
                        break
                if fail is None and contract.is_generator:
                    for e in contract.raises_ensures.get(allowed[0], []):
                        if not ev(e):
                            fail = dict(kind="raises", clause="raises_ensures %s" % e)
                            break
    except Exception as e:      # the oracle itself crashed: report as harness problem, not as violation
        return dict(kind="oracle_error", clause=repr(e), input=_jsonable(old))
    if fail:
        fail.update(input=_jsonable(old), actual=_jsonable(result), exception=exc)
        for e in contract.ensures[:1]:
            pass
    return fail


def _jsonable(x):
    if isinstance(x, dict):
        return {str(k): _jsonable(v) for k, v in x.items()}
    if isinstance(x, (list, tuple)):
        return [_jsonable(v) for v in x]
    if isinstance(x, (str, int, float, bool)) or x is None:
        return x
    return repr(x)


def check_contract(contract, module_globals, limit=None):
    """run the contract over its declared native inputs; -> dict(evaluations, failures[...])"""
    gen = getattr(contract, "native_inputs", None)
    if gen is None:
        return dict(evaluations=0, failures=[], skipped="no native input generator")
    fn = getattr(contract, "native_fn", None) or resolve_callable(contract)
    n = 0
    failures = []
    oracle_errors = []
    for idx, kwargs in enumerate(itertools.islice(gen(), limit)):
        r = check_case(contract, fn, kwargs, module_globals)
        if r == "skip":
            continue
        n += 1
        if r is not None:
            r["input_index"] = idx       # ordinal in the (deterministic) input generator: inputs with objects replay by ordinal
            if r["kind"] == "oracle_error":
                oracle_errors.append(r)
                if len(oracle_errors) > 3:
                    break
            else:
                failures.append(r)
                if len(failures) >= 3:
                    break
    return dict(evaluations=n, failures=failures, oracle_errors=oracle_errors)
