"""pyvc.relang -- Python `re` pattern -> z3 regular language (for the C07 obligations).

A compiled rule regexp is used through `.match(row)`: some prefix of the row must match, `$` refers to the end of the
row.  Every sub-regex is translated to a PAIR of languages (N, E): N = strings it can consume when more input may
follow, E = strings it can consume when the end of input is asserted right after them.  `$` is (empty-language, {eps}),
concatenation N = N1.N2, E = N1.E2 | E1.[eps in (N2|E2)], and `pattern.match(row) is not None` iff row in N.Sigma* | E.

Subset: literals, escapes, classes, `.`, groups, alternation, greedy/lazy repeats, leading `^`, `$`, re.I (by case
folding over ASCII letters).  Look-around, back-references, conditional groups are refused (Unsupported): those patterns
stay with the bounded layer.  Domain of rows: strings over printable ASCII, space and tab (stated precondition).
"""
import re
try:
    import re._parser as sre_parse
    import re._constants as sre_c
except ImportError:      # pragma: no cover
    import sre_parse
    import sre_constants as sre_c
import z3


class Unsupported(Exception):
    pass


ALPHABET = [chr(c) for c in range(32, 127)] + ["\t"]


def _ch(c):
    return z3.Re(z3.StringVal(c))


def _union(res):
    res = list(res)
    if not res:
        return EMPTY()
    if len(res) == 1:
        return res[0]
    return z3.Union(*res)


def EMPTY():
    return z3.Empty(z3.ReSort(z3.StringSort()))


def EPS():
    return z3.Re(z3.StringVal(""))


def SIGMA():
    return _charset(set(ALPHABET))


def _charset(chars):
    """regular language of one character out of `chars` (ranges where possible)"""
    codes = sorted(ord(c) for c in chars)
    if not codes:
        return EMPTY()
    parts = []
    start = prev = codes[0]
    for c in codes[1:] + [None]:
        if c is not None and c == prev + 1:
            prev = c
            continue
        if start == prev:
            parts.append(_ch(chr(start)))
        else:
            parts.append(z3.Range(chr(start), chr(prev)))
        if c is not None:
            start = prev = c
    return _union(parts)


def _category(cat):
    ws = {" ", "\t"}
    digits = set("0123456789")
    word = set("abcdefghijklmnopqrstuvwxyzABCDEFGHIJKLMNOPQRSTUVWXYZ0123456789_")
    A = set(ALPHABET)
    name = str(cat)
    table = {
        "CATEGORY_SPACE": ws, "CATEGORY_NOT_SPACE": A - ws,
        "CATEGORY_DIGIT": digits, "CATEGORY_NOT_DIGIT": A - digits,
        "CATEGORY_WORD": word, "CATEGORY_NOT_WORD": A - word,
    }
    if name in table:
        return table[name]
    raise Unsupported("category %s" % name)


def _fold(chars, ignorecase):
    if not ignorecase:
        return chars
    out = set(chars)
    for c in chars:
        if c.isalpha() and c.isascii():
            out.add(c.lower())
            out.add(c.upper())
    return out


def _in_set(items, ignorecase):
    negate = False
    chars = set()
    for op, av in items:
        name = str(op)
        if name == "NEGATE":
            negate = True
        elif name == "LITERAL":
            chars.add(chr(av))
        elif name == "RANGE":
            lo, hi = av
            chars |= {chr(c) for c in range(lo, hi + 1)}
        elif name == "CATEGORY":
            chars |= _category(av)
        else:
            raise Unsupported("set item %s" % name)
    chars = _fold(chars, ignorecase) & set(ALPHABET)
    if negate:
        chars = set(ALPHABET) - chars
    return chars


class Pair:
    __slots__ = ("N", "E", "n_eps", "e_eps")

    def __init__(self, N, E, n_eps, e_eps):
        self.N, self.E = N, E
        self.n_eps = n_eps      # eps in N (python bool, tracked syntactically)
        self.e_eps = e_eps      # eps in E


def _plain(R, has_eps):
    """sub-regex without end assertions: it may consume the same strings whether or not the end follows"""
    return Pair(R, R, has_eps, has_eps)


def _cat(a, b):
    N = z3.Concat(a.N, b.N)
    parts = [z3.Concat(a.N, b.E)]
    if b.n_eps or b.e_eps:
        parts.append(a.E)
    E = _union(parts)
    return Pair(N, E, a.n_eps and b.n_eps, (a.n_eps and b.e_eps) or (a.e_eps and (b.n_eps or b.e_eps)))


def _alt(ps):
    return Pair(_union(p.N for p in ps), _union(p.E for p in ps), any(p.n_eps for p in ps), any(p.e_eps for p in ps))


def _has_end(seq):
    for op, av in seq:
        name = str(op)
        if name == "AT" and str(av) in ("AT_END", "AT_END_STRING"):
            return True
        if name == "SUBPATTERN" and _has_end(av[3]):
            return True
        if name == "BRANCH" and any(_has_end(x) for x in av[1]):
            return True
        if name in ("MAX_REPEAT", "MIN_REPEAT", "POSSESSIVE_REPEAT") and _has_end(av[2]):
            return True
    return False


def _seq(seq, ic):
    cur = Pair(EPS(), EPS(), True, True)
    first = True
    for op, av in seq:
        p = _node(op, av, ic)
        cur = p if first else _cat(cur, p)
        first = False
    return cur


def _node(op, av, ic):
    name = str(op)
    if name == "LITERAL":
        return _plain(_charset(_fold({chr(av)}, ic) & set(ALPHABET)), False)
    if name == "NOT_LITERAL":
        return _plain(_charset(set(ALPHABET) - _fold({chr(av)}, ic)), False)
    if name == "ANY":
        return _plain(SIGMA(), False)      # rows contain no newline
    if name == "IN":
        return _plain(_charset(_in_set(av, ic)), False)
    if name == "BRANCH":
        return _alt([_seq(x, ic) for x in av[1]])
    if name == "SUBPATTERN":
        group, add_flags, del_flags, sub = av
        if add_flags or del_flags:
            raise Unsupported("inline flags in group")
        return _seq(sub, ic)
    if name in ("MAX_REPEAT", "MIN_REPEAT"):
        lo, hi, sub = av
        if _has_end(sub):
            raise Unsupported("end anchor under a repeat")
        p = _seq(sub, ic)
        R = p.N
        inf = hi == sre_c.MAXREPEAT
        if lo == 0 and inf:
            return _plain(z3.Star(R), True)
        if lo == 1 and inf:
            return _plain(z3.Plus(R), p.n_eps)
        if lo == 0 and hi == 1:
            return _plain(z3.Option(R), True)
        if inf:
            return _plain(z3.Concat(z3.Loop(R, lo, lo), z3.Star(R)), p.n_eps or lo == 0)
        return _plain(z3.Loop(R, lo, hi), p.n_eps or lo == 0)
    if name == "AT":
        w = str(av)
        if w in ("AT_END", "AT_END_STRING"):
            return Pair(EMPTY(), EPS(), False, True)
        raise Unsupported("anchor %s inside the pattern" % w)
    raise Unsupported("regex construct %s" % name)


def match_language(pattern, flags=0):
    """z3 regex of the rows r (over the stated alphabet) with re.compile(pattern, flags).match(r) is not None"""
    ic = bool(flags & re.IGNORECASE)
    if flags & ~(re.IGNORECASE | re.UNICODE):
        raise Unsupported("flags %r" % flags)
    tree = sre_parse.parse(pattern, flags)
    seq = list(tree)
    if seq and str(seq[0][0]) == "AT" and str(seq[0][1]) in ("AT_BEGINNING", "AT_BEGINNING_STRING"):
        seq = seq[1:]          # match() is anchored at the start anyway
    if tree.state.flags & re.IGNORECASE:
        ic = True
    p = _seq(seq, ic) if seq else Pair(EPS(), EPS(), True, True)
    return _union([z3.Concat(p.N, z3.Star(SIGMA())), p.E])


def full_language(pattern, flags=0):
    """z3 regex of the strings fully matched by the pattern (no end assertions allowed)"""
    ic = bool(flags & re.IGNORECASE)
    tree = sre_parse.parse(pattern, flags)
    if _has_end(list(tree)):
        raise Unsupported("end anchor in a word regex")
    return _seq(list(tree), ic).N


def row_domain():
    """rows as annet sees them: no newline, no leading or trailing blank, non-empty"""
    nonblank = _charset(set(ALPHABET) - {" ", "\t"})
    return _union([nonblank, z3.Concat(nonblank, z3.Star(SIGMA()), nonblank)])


def equivalent(re_a, re_b, timeout_ms=10000):
    """-> ('proved', None) | ('refuted', row) | ('unknown', reason): do the two languages agree on every row"""
    s = z3.Solver()
    s.set("timeout", timeout_ms)
    x = z3.String("row")
    s.add(z3.InRe(x, row_domain()))
    s.add(z3.Xor(z3.InRe(x, re_a), z3.InRe(x, re_b)))
    r = s.check()
    if r == z3.unsat:
        return "proved", None
    if r == z3.sat:
        v = s.model()[x]
        return "refuted", (v.as_string() if v is not None else "")
    return "unknown", s.reason_unknown()
