"""run cvc5 (Python wheel, 1.4.x) on an SMT-LIB2 file; prints sat / unsat / unknown.  Used as a subprocess so it can be killed."""
import sys


def main():
    import cvc5
    path = sys.argv[1]
    opts = dict(a.split("=", 1) for a in sys.argv[2:])
    tm = cvc5.TermManager()
    slv = cvc5.Solver(tm)
    slv.setOption("strings-exp", "true")
    for k, v in opts.items():
        slv.setOption(k, v)
    parser = cvc5.InputParser(slv)
    parser.setFileInput(cvc5.InputLanguage.SMT_LIB_2_6, path)
    sm = parser.getSymbolManager()
    while True:
        cmd = parser.nextCommand()
        if cmd.isNull():
            break
        out = str(cmd.invoke(slv, sm)).strip()
        if out in ("sat", "unsat", "unknown"):
            print(out)
            sys.stdout.flush()
            return
        if out.startswith("(error"):
            print(out)
            return


if __name__ == "__main__":
    main()
