"""pyvc.effects -- modular, purely syntactic frame / effect inference on the real source (DESIGN 2.5).

For a function it computes an UPPER bound of
  * reads    : access paths (parameter + literal keys / attributes, `*` for computed keys, `[]` for "some element")
  * mutates  : access paths that may be changed in place
  * g_reads / g_writes : module-level names read / written or mutated
  * escapes  : parameters handed to a callee whose effects are unknown (then the function is reported undecided)
Calls contribute the callee's summary (functions of the analysed module set, resolved through the import table),
computed to a fixpoint.  Over-approximation makes "does not modify" and "does not read" sound; anything the inference
cannot bound is reported as unknown, never as clean.
"""
import ast
import os

PURE_BUILTINS = {
    "len", "str", "int", "bool", "float", "repr", "sorted", "reversed", "enumerate", "zip", "range", "min", "max", "sum", "any", "all",
    "isinstance", "issubclass", "tuple", "list", "dict", "set", "frozenset", "iter", "next", "map", "filter", "print", "format",
    "abs", "ord", "chr", "hash", "id", "type", "getattr", "hasattr", "callable", "divmod", "round", "odict", "OrderedDict",
    "ValueError", "Exception", "NotImplementedError", "RuntimeError", "KeyError", "AssertionError", "TypeError", "super",
}
PURE_METHODS = {
    # str
    "startswith", "endswith", "strip", "lstrip", "rstrip", "split", "rsplit", "join", "lower", "upper", "format", "replace", "find",
    "index", "count", "isdigit", "isspace", "isnumeric", "isalnum", "isupper", "islower", "isidentifier", "casefold", "expandtabs", "partition", "rpartition", "splitlines", "title", "encode", "decode", "zfill", "isalpha",
    # dict / list readers
    "get", "keys", "values", "items", "copy", "difference", "union", "intersection", "issubset", "issuperset", "symmetric_difference",
    # re
    "match", "search", "fullmatch", "group", "groups", "groupdict", "sub", "findall", "finditer", "span", "start", "end", "compile",
    "escape",
}
MUTATORS = {"append", "extend", "pop", "insert", "sort", "clear", "update", "setdefault", "remove", "add", "discard", "popitem",
            "reverse", "move_to_end", "appendleft", "difference_update", "intersection_update"}
FRESH_CALLS = {"deepcopy", "copy.deepcopy"}


def key_text(node):
    """literal subscript / attribute key as text, or '*' when computed"""
    if isinstance(node, ast.Constant):
        return repr(node.value)
    if isinstance(node, ast.Attribute) and isinstance(node.value, ast.Name):
        return "%s.%s" % (node.value.id, node.attr)
    return "*"


class Effects:
    def __init__(self):
        self.reads = set()
        self.mutates = set()
        self.g_reads = set()
        self.g_writes = set()
        self.unknown = []       # (callee text, param names that flow into it)
        self.returns = set()    # access paths the return value may alias

    def as_dict(self):
        return dict(reads=sorted(map(list, self.reads)), mutates=sorted(map(list, self.mutates)), g_reads=sorted(self.g_reads),
                    g_writes=sorted(self.g_writes), unknown=self.unknown)

    def key(self):
        return (frozenset(self.reads), frozenset(self.mutates), frozenset(self.g_reads), frozenset(self.g_writes),
                tuple(map(str, self.unknown)), frozenset(self.returns))


class ModuleInfo:
    def __init__(self, modname, path):
        self.modname = modname
        self.path = path
        self.tree = ast.parse(open(path, encoding="utf-8").read())
        self.functions = {}      # qualname -> FunctionDef
        self.imports = {}        # local name -> dotted target
        self.globals_mutable = set()
        self.globals_all = set()
        self.star_imports = []
        for n in self.tree.body:
            if isinstance(n, (ast.FunctionDef,)):
                self.functions[n.name] = n
                self.globals_all.add(n.name)
            elif isinstance(n, ast.ClassDef):
                self.globals_all.add(n.name)
                self.classes = getattr(self, "classes", set()) | {n.name}
                for m in n.body:
                    if isinstance(m, ast.FunctionDef):
                        self.functions["%s.%s" % (n.name, m.name)] = m
            elif isinstance(n, ast.Import):
                for a in n.names:
                    self.imports[(a.asname or a.name).split(".")[0]] = a.name if a.asname else a.name.split(".")[0]
            elif isinstance(n, ast.ImportFrom):
                base = n.module or ""
                if n.level:
                    parts = modname.split(".")
                    base = ".".join(parts[:len(parts) - n.level] + ([n.module] if n.module else []))
                for a in n.names:
                    if a.name == "*":
                        self.star_imports.append(base)
                        continue
                    self.imports[a.asname or a.name] = "%s.%s" % (base, a.name)
            elif isinstance(n, (ast.Assign, ast.AnnAssign)):
                targets = n.targets if isinstance(n, ast.Assign) else [n.target]
                for t in targets:
                    if isinstance(t, ast.Name):
                        self.globals_all.add(t.id)
                        v = n.value
                        if isinstance(v, (ast.Dict, ast.List, ast.Set, ast.ListComp, ast.DictComp, ast.SetComp)) or (
                                isinstance(v, ast.Call) and isinstance(v.func, ast.Name) and v.func.id in (
                                    "dict", "list", "set", "odict", "OrderedDict", "defaultdict")):
                            self.globals_mutable.add(t.id)


class Analyzer:
    def __init__(self, repo):
        self.repo = repo
        self.modules = {}
        self.summaries = {}      # (modname, qualname) -> Effects
        self.in_progress = set()

    def module(self, modname):
        if modname not in self.modules:
            path = os.path.join(self.repo, modname.replace(".", "/") + ".py")
            if not os.path.exists(path):
                path = os.path.join(self.repo, modname.replace(".", "/"), "__init__.py")
            if not os.path.exists(path):
                self.modules[modname] = None
            else:
                self.modules[modname] = ModuleInfo(modname, path)
        return self.modules[modname]

    def is_class(self, mi, name, depth=0):
        if name in getattr(mi, "classes", set()):
            return True
        tgt = mi.imports.get(name)
        if tgt and tgt.startswith("annet") and depth < 3:
            mod, _, nm = tgt.rpartition(".")
            m2 = self.module(mod)
            if m2 is not None:
                return self.is_class(m2, nm, depth + 1)
        for sm in mi.star_imports:
            m2 = self.module(sm)
            if m2 is not None and depth < 3 and self.is_class(m2, name, depth + 1):
                return True
        return False

    def find_function(self, modname, name, depth=0):
        m2 = self.module(modname)
        if m2 is None or depth > 3:
            return None
        if name in m2.functions:
            return (modname, name)
        tgt = m2.imports.get(name)
        if tgt and tgt.startswith("annet"):
            mod, _, nm = tgt.rpartition(".")
            r = self.find_function(mod, nm, depth + 1)
            if r:
                return r
        for sm in m2.star_imports:
            r = self.find_function(sm, name, depth + 1)
            if r:
                return r
        return None

    def resolve(self, mi, func_node):
        """callee -> (modname, qualname) if it is a function of an analysable annet module"""
        if isinstance(func_node, ast.Name):
            r = self.find_function(mi.modname, func_node.id)
            if r:
                return r
        if isinstance(func_node, ast.Attribute) and isinstance(func_node.value, ast.Name):
            tgt = mi.imports.get(func_node.value.id)
            if tgt and tgt.startswith("annet"):
                r = self.find_function(tgt, func_node.attr)
                if r:
                    return r
        if isinstance(func_node, ast.Name):
            if func_node.id in mi.functions:
                return (mi.modname, func_node.id)
            tgt = mi.imports.get(func_node.id)
            if tgt and tgt.startswith("annet"):
                mod, _, name = tgt.rpartition(".")
                m2 = self.module(mod)
                if m2 and name in m2.functions:
                    return (mod, name)
            return None
        if isinstance(func_node, ast.Attribute) and isinstance(func_node.value, ast.Name):
            tgt = mi.imports.get(func_node.value.id)
            if tgt and tgt.startswith("annet"):
                m2 = self.module(tgt)
                if m2 and func_node.attr in m2.functions:
                    return (tgt, func_node.attr)
        return None

    def summary(self, modname, qual):
        k = (modname, qual)
        if k in self.summaries and k not in self.in_progress:
            return self.summaries[k]
        if k in self.in_progress:
            return self.summaries.get(k, Effects())
        mi = self.module(modname)
        if mi is None or qual not in mi.functions:
            return None
        self.in_progress.add(k)
        self.summaries[k] = Effects()
        for _ in range(4):
            new = FunctionPass(self, mi, mi.functions[qual]).run()
            if new.key() == self.summaries[k].key():
                break
            self.summaries[k] = new
        self.in_progress.discard(k)
        return self.summaries[k]


class FunctionPass:
    def __init__(self, an, mi, fn):
        self.an, self.mi, self.fn = an, mi, fn
        a = fn.args
        self.params = [x.arg for x in a.posonlyargs + a.args + a.kwonlyargs]
        if a.vararg:
            self.params.append(a.vararg.arg)
        self.kwarg = a.kwarg.arg if a.kwarg else None
        self.alias = {p: {(p,)} for p in self.params}     # local name -> set of access paths
        self.params_entry_only = set()
        # idiom: a parameter rebound to a deep copy of itself before any other use (`old = copy.deepcopy(old)`):
        # from then on the name denotes fresh storage
        mentioned = set()
        for st in fn.body:
            if isinstance(st, ast.Assign) and len(st.targets) == 1 and isinstance(st.targets[0], ast.Name) \
                    and st.targets[0].id in self.alias and st.targets[0].id not in mentioned \
                    and isinstance(st.value, ast.Call) and ast.unparse(st.value.func) in FRESH_CALLS \
                    and len(st.value.args) == 1 and isinstance(st.value.args[0], ast.Name) and st.value.args[0].id == st.targets[0].id:
                self.alias[st.targets[0].id] = set()
                self.fresh_params = getattr(self, "fresh_params", set()) | {st.targets[0].id}
                continue
            if isinstance(st, ast.Expr) and isinstance(st.value, ast.Constant):
                continue
            mentioned |= {x.id for x in ast.walk(st) if isinstance(x, ast.Name)}
        # parent links (for the dominating-assignment refinement)
        self.block_of = {}
        for node in ast.walk(fn):
            for field in ("body", "orelse", "finalbody"):
                blk = getattr(node, field, None)
                if isinstance(blk, list):
                    for i, st in enumerate(blk):
                        if isinstance(st, ast.stmt):
                            for sub in ast.walk(st):
                                self.block_of.setdefault(id(sub), (blk, i)) if False else None
                            self.block_of[id(st)] = (blk, i)
        self.stmt_of = {}
        for node in ast.walk(fn):
            if isinstance(node, ast.stmt):
                for sub in ast.iter_child_nodes(node):
                    pass
        def mark(st):
            for sub in ast.walk(st):
                if not isinstance(sub, ast.stmt) or sub is st:
                    self.stmt_of.setdefault(id(sub), st)
        for node in ast.walk(fn):
            if isinstance(node, ast.stmt) and not any(isinstance(getattr(node, f, None), list) and getattr(node, f) and isinstance(getattr(node, f)[0], ast.stmt)
                                                       for f in ("body", "orelse", "finalbody")):
                mark(node)
        self.consts = {}                                      # local name -> set of literal key texts (for `for op in [..]`)
        self.locals = set(self.params)
        self.eff = Effects()
        for n in ast.walk(fn):
            if isinstance(n, ast.Name) and isinstance(n.ctx, ast.Store):
                self.locals.add(n.id)
            if isinstance(n, ast.arg):
                self.locals.add(n.arg)
        self.nested = {}
        for n in ast.walk(fn):
            if isinstance(n, ast.FunctionDef) and n is not fn:
                self.nested[n.name] = n
        self.declared_global = set()
        for n in ast.walk(fn):
            if isinstance(n, (ast.Global, ast.Nonlocal)):
                self.declared_global.update(n.names)

    # ---- access paths of an expression (what storage it may denote)
    def paths(self, node):
        if isinstance(node, ast.Name):
            if node.id in self.alias:
                return set(self.alias[node.id])
            return set()
        if isinstance(node, ast.Subscript):
            base = {self.unshallow(p) for p in self.paths(node.value)}
            if isinstance(node.slice, ast.Slice):
                return {("~sh",) + p for p in base}
            ks = self.key_options(node.slice)
            return {p + (k,) for p in base for k in ks}
        if isinstance(node, ast.Attribute):
            base = {self.unshallow(p) for p in self.paths(node.value)}
            return {p + ("." + node.attr,) for p in base}
        if isinstance(node, ast.Call):
            f = node.func
            if isinstance(f, ast.Attribute) and f.attr in ("get", "pop", "setdefault") and node.args:
                ks = self.key_options(node.args[0])
                out = {p + (k,) for p in self.paths(f.value) for k in ks}
                for extra in node.args[1:]:
                    out |= self.paths(extra)
                return out
            if isinstance(f, ast.Attribute) and f.attr == "keys":
                return set()        # keys are immutable scalars
            if isinstance(f, ast.Attribute) and f.attr in ("values", "items"):
                return {("~sh",) + p for p in self.paths(f.value)}
            if isinstance(f, ast.Attribute) and f.attr == "copy":
                return {("~sh",) + p for p in self.paths(f.value)}
            txt = ast.unparse(f)
            if txt in FRESH_CALLS:
                return set()
            if isinstance(f, ast.Name) and f.id in ("list", "tuple", "dict", "set", "sorted", "reversed", "iter", "odict", "enumerate",
                                                      "zip", "filter", "next", "frozenset", "copy"):
                out = set()
                for a in node.args:
                    out |= {("~sh",) + p for p in self.paths(a)}
                return out
            if txt in ("copy.copy",):
                out = set()
                for a in node.args:
                    out |= {("~sh",) + p for p in self.paths(a)}
                return out
            callee = self.an.resolve(self.mi, f)
            if callee:
                s = self.an.summary(*callee)
                if s is not None:
                    return self.subst_paths(s.returns, callee, node)
            return set()
        if isinstance(node, (ast.IfExp,)):
            return self.paths(node.body) | self.paths(node.orelse)
        if isinstance(node, ast.BoolOp):
            out = set()
            for v in node.values:
                out |= self.paths(v)
            return out
        if isinstance(node, (ast.Tuple, ast.List)):
            out = set()
            for e in node.elts:
                out |= self.paths(e)
            return out
        if isinstance(node, ast.BinOp):
            return {p + ("[]",) for p in self.paths(node.left) | self.paths(node.right)}
        if isinstance(node, ast.Starred):
            return self.paths(node.value)
        if isinstance(node, ast.NamedExpr):
            return self.paths(node.value)
        return set()

    @staticmethod
    def unshallow(p):
        """elements of a shallow copy are the elements of the original"""
        while p and p[0] == "~sh":
            p = p[1:]
        return p

    def key_options(self, node):
        if isinstance(node, ast.Name) and node.id in self.consts:
            return set(self.consts[node.id])
        return {key_text(node)}

    def callee_params(self, callee):
        mi = self.an.module(callee[0])
        fn = mi.functions[callee[1]]
        a = fn.args
        return [x.arg for x in a.posonlyargs + a.args], [x.arg for x in a.kwonlyargs], (a.kwarg.arg if a.kwarg else None)

    def bind_args(self, callee, call):
        pos, kwonly, kw = self.callee_params(callee)
        binding = {}
        for i, arg in enumerate(call.args):
            if isinstance(arg, ast.Starred):
                continue
            if i < len(pos):
                binding[pos[i]] = arg
        for k in call.keywords:
            if k.arg is not None:
                binding[k.arg] = k.value
        return binding

    def subst_paths(self, paths, callee, call):
        binding = self.bind_args(callee, call)
        out = set()
        for p in paths:
            arg = binding.get(p[0])
            if arg is None:
                continue
            for base in self.paths(arg):
                base = self.unshallow(base)
                if base:
                    out.add(base + p[1:])
        return out

    # ---- the pass
    def run(self):
        # alias fixpoint (flow-insensitive)
        for _ in range(6):
            before = {k: set(v) for k, v in self.alias.items()}
            for n in ast.walk(self.fn):
                self.collect_alias(n)
            if before == self.alias:
                break
        for n in ast.walk(self.fn):
            self.visit(n)
        for n in ast.walk(self.fn):
            if isinstance(n, ast.Return) and n.value is not None:
                self.eff.returns |= self.paths(n.value)
            if isinstance(n, (ast.Yield, ast.YieldFrom)) and n.value is not None:
                self.eff.returns |= {p for p in self.paths(n.value)}
        return self.eff

    def rebound_fresh(self, node, name):
        """is `name`, at `node`, definitely the value of an earlier `name = <shallow or fresh copy>` of the same block"""
        st = self.stmt_of.get(id(node))
        if st is None or id(st) not in self.block_of:
            return False
        blk, i = self.block_of[id(st)]
        for j in range(i - 1, -1, -1):
            prev = blk[j]
            if isinstance(prev, ast.Assign) and any(isinstance(t, ast.Name) and t.id == name for t in prev.targets):
                ps = self.paths(prev.value)
                return all((not p) or p[0] == "~sh" for p in ps) and isinstance(prev.value, ast.Call)
            if any(isinstance(x, ast.Name) and x.id == name and isinstance(x.ctx, ast.Store) for x in ast.walk(prev)):
                return False
        return False

    def add_alias(self, target, paths):
        if isinstance(target, ast.Name):
            if target.id in getattr(self, "fresh_params", ()):
                paths = {p for p in paths if p and p[0] != target.id}
            if target.id in self.params and not paths:
                return
            self.alias.setdefault(target.id, set()).update(paths)
        elif isinstance(target, (ast.Tuple, ast.List)):
            for e in target.elts:
                self.add_alias(e, {self.unshallow(p) + ("[]",) for p in paths} | {self.unshallow(p) for p in paths})
        elif isinstance(target, ast.Starred):
            self.add_alias(target.value, paths)

    def collect_alias(self, n):
        if isinstance(n, ast.Assign):
            ps = self.paths(n.value)
            for t in n.targets:
                self.add_alias(t, ps)
                if isinstance(t, ast.Name):
                    vals = [n.value.body, n.value.orelse] if isinstance(n.value, ast.IfExp) else [n.value]
                    if all(key_text(v) != "*" for v in vals) and t.id not in self.params_entry_only:
                        self.consts.setdefault(t.id, set()).update(key_text(v) for v in vals)
            # literal key lists: for op in [Op.ADDED, ...]
        elif isinstance(n, ast.AnnAssign) and n.value is not None:
            self.add_alias(n.target, self.paths(n.value))
        elif isinstance(n, ast.NamedExpr):
            self.add_alias(n.target, self.paths(n.value))
        elif isinstance(n, (ast.For, ast.comprehension)):
            it = n.iter
            if isinstance(it, (ast.List, ast.Tuple)) and all(key_text(e) != "*" for e in it.elts) and isinstance(n.target, ast.Name):
                self.consts.setdefault(n.target.id, set()).update(key_text(e) for e in it.elts)
            ps = self.paths(it)
            elem = {self.unshallow(p) + ("[]",) for p in ps}
            self.add_alias(n.target, elem)
        elif isinstance(n, ast.Call) and isinstance(n.func, ast.Name) and n.func.id in self.nested:
            fd = self.nested[n.func.id]
            ps = [x.arg for x in fd.args.posonlyargs + fd.args.args]
            for i, a in enumerate(n.args):
                if i < len(ps) and not isinstance(a, ast.Starred):
                    self.alias.setdefault(ps[i], set()).update(self.paths(a))
            for k in n.keywords:
                if k.arg:
                    self.alias.setdefault(k.arg, set()).update(self.paths(k.value))
        elif isinstance(n, ast.withitem) and n.optional_vars is not None:
            self.add_alias(n.optional_vars, self.paths(n.context_expr))

    def note_global(self, name, write):
        if name in self.locals and name not in self.declared_global:
            return
        if name in self.mi.imports or name in PURE_BUILTINS:
            return
        if name in self.mi.functions or name not in self.mi.globals_all and name not in self.declared_global:
            if not write:
                return
        (self.eff.g_writes if write else self.eff.g_reads).add(name)

    def visit(self, n):
        if isinstance(n, ast.Name) and isinstance(n.ctx, ast.Load):
            if n.id not in self.locals or n.id in self.declared_global:
                if n.id in self.mi.globals_mutable or n.id in self.declared_global:
                    self.eff.g_reads.add(n.id)
        # reads: every path-resolvable load
        if isinstance(n, (ast.Subscript, ast.Attribute, ast.Name)) and isinstance(getattr(n, "ctx", None), ast.Load):
            for p in self.paths(n):
                self.eff.reads.add(self.unshallow(p))
        if isinstance(n, ast.Call) and isinstance(n.func, ast.Attribute) and n.func.attr in ("get", "pop", "setdefault", "values", "items"):
            for p in self.paths(n):
                self.eff.reads.add(self.unshallow(p))
        # writes
        if isinstance(n, (ast.Subscript, ast.Attribute)) and isinstance(n.ctx, (ast.Store, ast.Del)):
            base = n.value
            k = ("=" + key_text(n.slice)) if isinstance(n, ast.Subscript) and not isinstance(n.slice, ast.Slice) else (
                "=." + n.attr if isinstance(n, ast.Attribute) else "=[]")
            root = base
            while isinstance(root, (ast.Subscript, ast.Attribute)):
                root = root.value
            if isinstance(base, ast.Name) and self.rebound_fresh(n, base.id):
                return
            for p in self.paths(base):
                if p and p[0] != "~sh":
                    self.eff.mutates.add(p + (k,))
            root = base
            while isinstance(root, (ast.Subscript, ast.Attribute)):
                root = root.value
            if isinstance(root, ast.Name) and (root.id not in self.locals or root.id in self.declared_global):
                if root.id not in self.mi.imports or True:
                    if root.id in self.mi.globals_all or root.id in self.declared_global:
                        self.eff.g_writes.add(root.id)
        if isinstance(n, ast.Name) and isinstance(n.ctx, ast.Store) and n.id in self.declared_global:
            self.eff.g_writes.add(n.id)
        if isinstance(n, ast.AugAssign):
            t = n.target
            if isinstance(t, (ast.Subscript, ast.Attribute)):
                k = ("=" + key_text(t.slice)) if isinstance(t, ast.Subscript) and not isinstance(t.slice, ast.Slice) else "=[]"
                for p in self.paths(t.value):
                    if p and p[0] != "~sh":
                        self.eff.mutates.add(p + (k,))
            elif isinstance(t, ast.Name):
                # x += y mutates in place when x is a list alias
                for p in self.paths(ast.Name(id=t.id, ctx=ast.Load())):
                    if p and p[0] != "~sh" and (len(p) > 1 or p[0] in self.params):
                        self.eff.mutates.add(p + ("=+",))
        if isinstance(n, ast.Call):
            f = n.func
            if isinstance(f, ast.Attribute) and f.attr in MUTATORS:
                for p in self.paths(f.value):
                    if p and p[0] != "~sh":
                        self.eff.mutates.add(p + ("=." + f.attr + "()",))
                root = f.value
                while isinstance(root, (ast.Subscript, ast.Attribute)):
                    root = root.value
                if isinstance(root, ast.Name) and root.id not in self.locals and root.id in self.mi.globals_all:
                    self.eff.g_writes.add(root.id)
                return
            callee = self.an.resolve(self.mi, f)
            if callee:
                s = self.an.summary(*callee)
                if s is not None:
                    self.eff.reads |= self.subst_paths(s.reads, callee, n)
                    self.eff.mutates |= self.subst_paths(s.mutates, callee, n)
                    self.eff.g_reads |= s.g_reads
                    self.eff.g_writes |= s.g_writes
                    self.eff.unknown.extend(s.unknown)
                    # **kwargs forwarding: what the callee does to parameters we forward by name
                    for k in n.keywords:
                        if k.arg is None and self.kwarg and isinstance(k.value, ast.Name) and k.value.id == self.kwarg:
                            pass
                    return
            # unknown callee: pure builtins / pure methods are fine, anything else that receives parameter storage is unknown
            txt = ast.unparse(f)
            if isinstance(f, ast.Name) and (f.id in PURE_BUILTINS or f.id in self.locals and f.id not in self.params):
                return
            if isinstance(f, ast.Attribute) and (f.attr in PURE_METHODS or f.attr == "__class__"):
                return
            if txt in FRESH_CALLS or txt.startswith(("re.", "copy.", "itertools.", "functools.", "textwrap.", "operator.", "os.path.",
                                                     "logging.", "_logger.", "logger.", "json.", "ipaddress.", "typing.", "socket.", "get_logger")):
                return
            flowing = set()
            if isinstance(f, ast.Name) and f.id in self.nested:
                return
            if isinstance(f, ast.Name) and self.an.is_class(self.mi, f.id):
                return          # constructor of a plain annet class / NamedTuple: stores references, mutates nothing
            for a in list(n.args) + [k.value for k in n.keywords]:
                for p in self.paths(a):
                    flowing.add(self.unshallow(p)[0] if self.unshallow(p) else "~")
            if isinstance(f, ast.Attribute):
                for p in self.paths(f.value):
                    flowing.add(self.unshallow(p)[0] if self.unshallow(p) else "~")
            flowing.discard("~")
            if flowing:
                self.eff.unknown.append((txt, sorted(flowing)))


def analyze(repo, modname, qual):
    an = Analyzer(repo)
    return an.summary(modname, qual)
