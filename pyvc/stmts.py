"""pyvc.stmts -- statement execution, loops by invariant, calls by contract, function-level obligations."""
import ast
import z3
from .types import *
from .values import *
from .values import PyPoison
from .execu import Exec, State, Outcome, Ctx, lift_ns, BUILTIN_EXC


def number_loops(fn_node):
    """assign ordinals to for/while loops in source order (nested functions excluded)"""
    k = [0]
    kc = [0]

    def visit(n):
        for c in ast.iter_child_nodes(n):
            if isinstance(c, (ast.FunctionDef, ast.Lambda, ast.ClassDef)):
                continue
            if isinstance(c, (ast.For, ast.While)):
                k[0] += 1
                c._loop_no = k[0]
            if isinstance(c, (ast.ListComp, ast.GeneratorExp)):
                kc[0] += 1
                c._comp_no = kc[0]
            visit(c)
    visit(fn_node)
    return k[0]


def assigned_roots(stmts):
    """names that may be (re)bound or mutated in place by the statements"""
    roots = set()
    mut = {"append", "extend", "pop", "insert", "sort", "clear", "update", "add", "setdefault", "remove", "discard", "add_cmd"}

    def root(n):
        while isinstance(n, (ast.Subscript, ast.Attribute)):
            n = n.value
        return n.id if isinstance(n, ast.Name) else None

    for s in stmts:
        for n in ast.walk(s):
            if isinstance(n, ast.Name) and isinstance(n.ctx, (ast.Store, ast.Del)):
                roots.add(n.id)
            elif isinstance(n, (ast.Subscript, ast.Attribute)) and isinstance(n.ctx, (ast.Store, ast.Del)):
                r = root(n)
                if r:
                    roots.add(r)
            elif isinstance(n, ast.Call) and isinstance(n.func, ast.Attribute) and n.func.attr in mut:
                r = root(n.func.value)
                if r:
                    roots.add(r)
            elif isinstance(n, ast.NamedExpr):
                roots.add(n.target.id)
    return roots


def contains_yield(stmts):
    for s in stmts:
        for n in ast.walk(s):
            if isinstance(n, (ast.Yield, ast.YieldFrom)):
                return True
    return False


_MUTATORS = ("append", "extend", "pop", "insert", "sort", "clear", "update", "add", "setdefault", "remove", "discard", "reverse", "add_cmd",
             "move_to_end", "popitem")


def _rebound_first(body, name):
    """does every iteration rebind `name` (plain top-level assignment) before anything could mutate the object it denotes?"""
    def mutates(node):
        for n in ast.walk(node):
            if isinstance(n, (ast.Subscript, ast.Attribute)) and isinstance(n.ctx, (ast.Store, ast.Del)):
                r = n
                while isinstance(r, (ast.Subscript, ast.Attribute)):
                    r = r.value
                if isinstance(r, ast.Name) and r.id == name:
                    return True
            if isinstance(n, ast.Call) and isinstance(n.func, ast.Attribute) and n.func.attr in _MUTATORS:
                r = n.func.value
                while isinstance(r, (ast.Subscript, ast.Attribute)):
                    r = r.value
                if isinstance(r, ast.Name) and r.id == name:
                    return True
            if isinstance(n, ast.AugAssign) and isinstance(n.target, ast.Name) and n.target.id == name:
                return True
        return False
    for st in body:
        if isinstance(st, (ast.Assign, ast.AnnAssign)):
            targets = st.targets if isinstance(st, ast.Assign) else [st.target]
            names = {n.id for t in targets for n in ast.walk(t) if isinstance(n, ast.Name) and isinstance(n.ctx, ast.Store)}
            if name in names and not mutates(st.value if st.value is not None else ast.Pass()):
                return True
        if mutates(st):
            return False
    return False


_PURE_CALLS = ("len", "enumerate", "isinstance", "list", "tuple", "iter", "sorted", "reversed", "any", "all", "bool", "str", "repr", "zip",
               "min", "max", "sum", "set", "frozenset", "dict", "print")


def _never_mutated(fn_ast, name):
    """nowhere in the function is the object denoted by `name` mutated in place or handed to code that could mutate it (only then is an
    alias of it harmless): no store below it, no mutating method on it, no augmented assignment, not passed to a call other than a few
    known pure builtins"""
    if fn_ast is None:
        return False
    for n in ast.walk(fn_ast):
        if isinstance(n, (ast.Subscript, ast.Attribute)) and isinstance(n.ctx, (ast.Store, ast.Del)):
            r = n
            while isinstance(r, (ast.Subscript, ast.Attribute)):
                r = r.value
            if isinstance(r, ast.Name) and r.id == name:
                return False
        if isinstance(n, ast.AugAssign):
            r = n.target
            while isinstance(r, (ast.Subscript, ast.Attribute)):
                r = r.value
            if isinstance(r, ast.Name) and r.id == name:
                return False
        if isinstance(n, ast.Call):
            if isinstance(n.func, ast.Attribute) and n.func.attr in _MUTATORS:
                r = n.func.value
                while isinstance(r, (ast.Subscript, ast.Attribute)):
                    r = r.value
                if isinstance(r, ast.Name) and r.id == name:
                    return False
            callee_pure = isinstance(n.func, ast.Name) and n.func.id in _PURE_CALLS
            if not callee_pure:
                for a in list(n.args) + [k.value for k in n.keywords]:
                    r = a
                    while isinstance(r, (ast.Subscript, ast.Attribute, ast.Starred)):
                        r = r.value
                    if isinstance(r, ast.Name) and r.id == name:
                        return False
    return True


def _escaping_names(body):
    """names whose value may be stored into a container (or yielded) somewhere in the statements"""
    out = set()
    for st in body:
        for n in ast.walk(st):
            if isinstance(n, ast.Call) and isinstance(n.func, ast.Attribute) and n.func.attr in _MUTATORS:
                out |= {a.id for a in n.args if isinstance(a, ast.Name)}
            if isinstance(n, ast.Assign) and any(isinstance(t, (ast.Subscript, ast.Attribute)) for t in n.targets) \
                    and isinstance(n.value, ast.Name):
                out.add(n.value.id)
            if isinstance(n, (ast.Yield, ast.YieldFrom)) and isinstance(n.value, ast.Name):
                out.add(n.value.id)
    return out


def _child_share_roots(body):
    """names one of whose entries may become shared with another name / container somewhere in the statements (superset)"""
    out = set()

    def root(n):
        while isinstance(n, (ast.Subscript, ast.Attribute)):
            n = n.value
        return n.id if isinstance(n, ast.Name) else None

    for st in body:
        for n in ast.walk(st):
            if isinstance(n, ast.Assign):
                if isinstance(n.value, (ast.Subscript, ast.Attribute)):
                    r = root(n.value)
                    if r:
                        out.add(r)
                if isinstance(n.value, (ast.Name, ast.Subscript, ast.Attribute)):
                    for t in n.targets:
                        if isinstance(t, (ast.Subscript, ast.Attribute)):
                            r = root(t)
                            if r:
                                out.add(r)
            if isinstance(n, ast.Call) and isinstance(n.func, ast.Attribute) and n.func.attr in _MUTATORS \
                    and any(isinstance(a, (ast.Name, ast.Subscript, ast.Attribute)) for a in n.args):
                r = root(n.func.value)
                if r:
                    out.add(r)
    return out


class StmtExec(Exec):
    def __init__(self, ctx, registry):
        super().__init__(ctx)
        self.registry = registry      # (file, qualname) -> Contract, plus name lookups

    # ---------------------------------------------------------------- contracts at call sites
    def resolve_contract(self, func_node, st):
        c = self.ctx.contract
        txt = ast.unparse(func_node)
        calls = c.calls or {}
        if txt in calls:
            return calls[txt]
        if isinstance(func_node, ast.Name) and func_node.id not in st.env:
            k = (c.file, func_node.id)
            if k in self.registry:
                return self.registry[k]
        return None

    def ev_Call(self, node, st):
        if id(node) in st.pre:
            return st.pre[id(node)]
        callee = self.resolve_contract(node.func, st)
        if callee is not None:
            alts = self.call_contract(callee, node, st)
            normal = [a for a in alts if a[2] is None]
            if len(alts) != 1 or len(normal) != 1:
                raise Unsupported("call of raising contract %s in nested expression (line %d)" % (callee.key, node.lineno))
            conds, val, _ = normal[0]
            for cnd in conds:
                st.assume(cnd)
            return val
        return super().ev_Call(node, st)

    def call_contract(self, callee, node, st):
        """-> list of (assumptions, value, exc_or_None).  For generator callees value is the yielded sequence
        (for exceptional exits: the prefix yielded before the exception)."""
        args, kwargs = self.eval_args(node, st)
        recv = None
        if getattr(callee, "callable_recv", False):
            args = [self.ev(node.func, st)] + args
        elif callee.is_method:
            if isinstance(node.func, ast.Attribute):
                recv = self.ev(node.func.value, st)
            args = [recv] + args
        pnames = list(callee.params)
        env = {}
        if callee.star and pnames and pnames[-1] == callee.star and not any(isinstance(a, tuple) and a and a[0] == "*" for a in args) \
                and len(args) >= len(pnames) - 1:
            # f(a, b, c) with `def f(x, *rest)`: the surplus positional arguments form the star parameter
            k = len(pnames) - 1
            args = list(args[:k]) + [PyTup(list(args[k:]), True)]
        for i, a in enumerate(args):
            if isinstance(a, tuple) and a and a[0] == "*":
                if callee.star and i == len(pnames) - 1 or callee.star == pnames[min(i, len(pnames) - 1)]:
                    env[pnames[i]] = coerce(a[1], callee.params[pnames[i]])
                    continue
                raise Unsupported("star-args at call of %s" % callee.key)
            if i >= len(pnames):
                raise Unsupported("too many args for %s (line %d)" % (callee.key, node.lineno))
            env[pnames[i]] = a
        for k, v in kwargs.items():
            if k == "**":
                if callee.ignore_kwargs:
                    continue
                raise Unsupported("**kwargs at call of %s" % callee.key)
            if k in callee.params:
                env[k] = v
            elif not callee.ignore_kwargs:
                raise Unsupported("unknown kwarg %s for %s" % (k, callee.key))
        for p, ty in callee.params.items():
            if p not in env:
                if p in callee.defaults:
                    env[p] = lift_ns(callee.defaults[p])
                else:
                    raise Unsupported("missing arg %s for %s (line %d)" % (p, callee.key, node.lineno))
            env[p] = coerce(env[p], ty)
        # ghost variables of the callee: its postcondition holds for every value, in particular for the caller's variable of the
        # same name (else for an arbitrary fresh one)
        for gname, gty in (getattr(callee, "ghost", None) or {}).items():
            gv = st.env.get(gname)
            env[gname] = gv if (isinstance(gv, V) and gv.ty is gty) else fresh(gty, "ghost_" + gname)
        cst = State(dict(env), list(st.pc))
        for p in list(env):
            cst.env["old:" + p] = env[p]
        sub = SpecEval(self.ctx, callee.ns)
        # preconditions
        for i, r in enumerate(callee.requires):
            g = truthy(sub.ev_str(r, cst))
            self.ctx.oblige("callpre", st, g, node.lineno, "requires[%d] of %s: %s" % (i, callee.key, r))
        alts = []
        # modifies: havoc the named parameters, write back to the caller's lvalues
        post_env = dict(cst.env)
        writebacks = []
        for m in callee.modifies:
            nv = fresh(callee.params[m], "mod_" + m)
            post_env[m] = nv
            idx = pnames.index(m)
            if callee.is_method and idx == 0:
                tgt = node.func.value
            else:
                j = idx - (1 if callee.is_method else 0)
                tgt = node.args[j] if j < len(node.args) else next((k.value for k in node.keywords if k.arg == m), None)
            if tgt is None or isinstance(tgt, ast.Starred):
                raise Unsupported("cannot write back modified parameter %s of %s" % (m, callee.key))
            writebacks.append((tgt, nv))
        rty = callee.result_type
        res = fresh(rty, "ret_" + callee.qual.replace(".", "_")) if rty is not None else NONE_V
        nst = State(dict(post_env), [])
        nst.env["result"] = res
        nst.env["_out"] = res
        ens = [truthy(sub.ev_str(e, nst)) for e in callee.ensures]
        exc_conds = {}
        for exc, conds in callee.raises.items():
            exc_conds[exc] = z3.And(*[truthy(sub.ev_str(c, cst)) for c in conds]) if conds else z3.BoolVal(True)
        none_raised = [z3.Not(c) for c in exc_conds.values()]
        alts.append((none_raised + ens, res, None, writebacks))
        for exc, cond in exc_conds.items():
            if callee.is_generator:
                pre = fresh(rty, "prefix_" + callee.qual.replace(".", "_"))
                est = State(dict(post_env), [])
                est.env["result"] = pre
                est.env["_out"] = pre
                eens = [truthy(sub.ev_str(e, est)) for e in callee.raises_ensures.get(exc, [])]
                alts.append(([cond] + eens, pre, exc, writebacks))
            else:
                alts.append(([cond], None, exc, []))
        out = []
        for conds, val, exc, wbs in alts:
            out.append((conds, val, exc))
        ghost_node, ghost_res = node, res
        ghost_pre_env = dict(st.env)       # ghost lemma instances speak about the values just BEFORE the call (and `result`)
        # apply writebacks on the caller state (same fresh values on every alternative)
        for tgt, nv in writebacks:
            if isinstance(tgt, ast.Call) and isinstance(tgt.func, ast.Attribute) and tgt.func.attr == "get" and len(tgt.args) == 2 \
                    and isinstance(tgt.args[1], ast.Call) and not tgt.args[1].args and not tgt.args[1].keywords:
                # f(d.get(k, fresh())): the callee worked on the stored value if the key is present, else on a temporary
                d = lift(self.ev(tgt.func.value, st))
                if not (isinstance(d, V) and isinstance(d.ty, DictT)):
                    raise Unsupported("write-back through .get() of %r" % (d,))
                k = self.evz(tgt.args[0], st, d.ty.key)
                has, setf = d.ty.fn("has"), d.ty.fn("set")
                self.assign_to(tgt.func.value, V(d.ty, z3.If(has(d.t, k), setf(d.t, k, coerce(nv, d.ty.val).t), d.t)), st)
                continue
            if isinstance(tgt, ast.Call):
                inner = self.resolve_contract(tgt.func, st)
                if inner is not None and getattr(inner, "fresh_result", False):
                    # f(g(x)) where g's contract says its result is a fresh object: the mutation dies with the temporary
                    continue
                raise Unsupported("a callee modifies an argument that is the result of a call (line %d)" % node.lineno)
            self.assign_to(tgt, nv, st)
        facts = self.ghost_facts(ghost_node, ghost_res, State(ghost_pre_env, st.pc))
        if facts:
            out = [((conds + facts) if exc is None else conds, val, exc) for conds, val, exc in out]
        return out

    def ghost_facts(self, node, res, st):
        """instances of proved lemmas named by the contract for this call site (a ghost lemma invocation)"""
        ga = getattr(self.ctx.contract, "ghost_after", None) or {}
        fn = getattr(self.ctx, "func_ast", None)
        if not ga or fn is None:
            return []
        txt = ast.unparse(node.func)
        same = sorted((n for n in ast.walk(fn) if isinstance(n, ast.Call) and ast.unparse(n.func) == txt),
                      key=lambda n: (n.lineno, n.col_offset))
        k = next((i for i, n in enumerate(same) if n is node), None)
        if k is None:
            return []
        todo = ga.get("%s#%d" % (txt, k + 1)) or []
        if not todo:
            return []
        sm = self.ctx.contract.module
        sub = SpecEval(self.ctx, self.ctx.contract.ns)
        est = State(dict(st.env), st.pc)
        est.env["result"] = res
        facts = []
        for lname, binding in todo:
            lem = next((l for l in sm.lemmas if l["name"] == lname), None)
            if lem is None:
                raise Unsupported("ghost_after names an unknown lemma %s" % lname)
            if lname not in (self.ctx.contract.use or ()):
                raise Unsupported("ghost_after lemma %s must also be listed in `use` (so that it is proved first)" % lname)
            env2 = {vn: coerce(sub.ev_str(src, est), lem["vars"][vn]) for vn, src in binding.items()}
            if set(env2) != set(lem["vars"]):
                raise Unsupported("ghost instance of %s must bind %s" % (lname, sorted(lem["vars"])))
            st2 = State(env2)
            hh = [truthy(sub.ev_str(h, st2)) for h in lem["hyps"]]
            gg = truthy(sub.ev_str(lem["goal"], st2))
            facts.append(z3.Implies(z3.And(*hh), gg) if hh else gg)
        return facts

    # ---------------------------------------------------------------- statements
    def run_block(self, stmts, st):
        outs = [Outcome("normal", st)]
        for s in stmts:
            nxt = []
            for o in outs:
                if o.kind != "normal":
                    nxt.append(o)
                else:
                    nxt.extend(self.run_stmt(s, o.st))
            outs = nxt
        return outs

    def own_exprs(self, s):
        """expression roots evaluated by the statement itself (not by nested statement bodies)"""
        if isinstance(s, (ast.Assign, ast.AugAssign, ast.AnnAssign, ast.Return, ast.Expr)):
            return [s.value] if s.value is not None else []
        if isinstance(s, ast.For):
            return [s.iter]
        if isinstance(s, (ast.If, ast.While)):
            return [s.test]
        if isinstance(s, ast.Raise):
            return [s.exc] if s.exc else []
        return []

    def hoist(self, s, st):
        """fork the state on calls to contracts that may raise; -> list of (state, immediate_exc)"""
        if isinstance(s, ast.While):
            roots = []
        else:
            roots = self.own_exprs(s)
        calls = []
        for r in roots:
            for n in ast.walk(r):
                if isinstance(n, ast.Call):
                    c = self.resolve_contract(n.func, st)
                    if c is not None and c.raises:
                        calls.append((n, c))
        states = [(st, None)]
        for n, c in calls:
            nxt = []
            for s0, exc0 in states:
                if exc0 is not None:
                    nxt.append((s0, exc0))
                    continue
                base = s0
                alts = self.call_contract(c, n, base)
                for conds, val, exc in alts:
                    s1 = base.copy()
                    for cnd in conds:
                        s1.assume(cnd)
                    if not self.ctx.feasible(s1.pc):
                        continue
                    if exc is None:
                        s1.pre[id(n)] = val
                        nxt.append((s1, None))
                    elif c.is_generator:
                        s1.pre[id(n)] = val
                        s1.pending = exc
                        nxt.append((s1, None))
                    else:
                        nxt.append((s1, exc))
            states = nxt
        return states

    def run_stmt(self, s, st):
        outs = []
        for s1, exc in self.hoist(s, st):
            if exc is not None:
                outs.append(Outcome("raise", s1, exc=exc, line=s.lineno))
                continue
            m = getattr(self, "st_" + type(s).__name__, None)
            if m is None:
                raise Unsupported("statement %s at line %d" % (type(s).__name__, s.lineno))
            res = m(s, s1)
            for o in res:
                if o.kind == "normal" and o.st.pending is not None and not isinstance(s, ast.For):
                    exc2 = o.st.pending
                    o.st.pending = None
                    outs.append(Outcome("raise", o.st, exc=exc2, line=s.lineno))
                else:
                    outs.append(o)
        return outs

    def st_FunctionDef(self, s, st):
        """a nested `def` whose body is pure (assignments, if/else, return; no decorators, defaults or star parameters): the name is
        bound to a closure over the environment at the definition, exactly like a lambda (used as a `key=` function)"""
        a = s.args
        if s.decorator_list or a.defaults or a.kw_defaults or a.vararg or a.kwarg or a.kwonlyargs or a.posonlyargs:
            raise Unsupported("nested def %s with decorators / defaults / star parameters (line %d)" % (s.name, s.lineno))
        for n in ast.walk(s):
            if isinstance(n, (ast.Yield, ast.YieldFrom, ast.Global, ast.Nonlocal, ast.For, ast.While, ast.Try, ast.With, ast.AugAssign, ast.Delete)):
                raise Unsupported("nested def %s is not a pure expression body (line %d)" % (s.name, s.lineno))
        env = dict(st.env)
        outer = self

        def call(ex, args, kwargs, st2, cnode):
            if kwargs or len(args) != len(a.args):
                raise Unsupported("call of nested def %s with other than its positional parameters" % s.name)
            sub = st2.copy()
            sub.env = dict(env)
            for p_, v in zip(a.args, args):
                sub.env[p_.arg] = v
            ev = SpecEval(outer.ctx, None)
            ev.registry = outer.registry
            ev.ret_ty = None
            return ev.pure_block(list(s.body), sub)
        st.env[s.name] = PyFn(s.name, call)
        return [Outcome("normal", st)]

    def st_Pass(self, s, st):
        return [Outcome("normal", st)]

    def st_Expr(self, s, st):
        if isinstance(s.value, ast.Constant):
            return [Outcome("normal", st)]     # docstring
        if isinstance(s.value, ast.Yield):
            v = self.ev(s.value.value, st) if s.value.value is not None else NONE_V
            self.do_yield(v, st)
            return [Outcome("normal", st)]
        if isinstance(s.value, ast.YieldFrom):
            v = self.ev(s.value.value, st)
            st.out = concat(st.out, self.as_out(v))
            return [Outcome("normal", st)]
        if isinstance(s.value, ast.Call) and self.is_dropped_call(s.value):
            return [Outcome("normal", st)]
        self.ev(s.value, st)
        return [Outcome("normal", st)]

    def is_dropped_call(self, call):
        txt = ast.unparse(call.func)
        return txt.startswith(("_logger.", "logger.", "logging.", "get_logger(")) or txt.startswith("span.set_attribute")

    def as_out(self, v):
        oty = self.ctx.contract.result_type
        v = lift(v)
        if isinstance(v, PyTup):
            return coerce(v, oty)
        if isinstance(v, V) and v.ty is oty:
            return v
        raise Unsupported("yield from value of type %r" % (v,))

    def do_yield(self, v, st):
        oty = self.ctx.contract.result_type
        if st.out is None:
            raise Unsupported("yield in a function without declared yield type")
        st.out = concat(st.out, coerce(PyTup([v], True), oty))

    def st_Assign(self, s, st):
        if isinstance(s.value, ast.Yield):
            raise Unsupported("yield expression value")
        if isinstance(s.value, ast.IfExp):
            # `x = a if c else b` is executed as a branch (keeps both values concrete on their paths)
            mk = lambda v: ast.copy_location(ast.Assign(targets=s.targets, value=v, lineno=s.lineno), s)
            node = ast.copy_location(ast.If(test=s.value.test, body=[mk(s.value.body)], orelse=[mk(s.value.orelse)]), s)
            return self.st_If(node, st)
        cursors = getattr(self.ctx.contract, "cursors", None) or {}
        if len(s.targets) == 1 and isinstance(s.targets[0], ast.Name) and s.targets[0].id in cursors:
            name = s.targets[0].id
            cfg = cursors[name]
            if isinstance(s.value, ast.Name) and s.value.id == cfg["root"]:
                root = st.env[cfg["root"]]
                st.env[name] = Cursor(cfg["root"], coerce(PyTup([], True), SeqT(root.ty.key)))
                return [Outcome("normal", st)]
            if isinstance(s.value, ast.Subscript) and isinstance(s.value.value, ast.Name) and s.value.value.id == name \
                    and isinstance(st.env.get(name), Cursor):
                cur = st.env[name]
                root = st.env[cur.root]
                k = coerce(self.ev(s.value.slice, st), root.ty.key)
                sub = self.deref(cur, st)
                self.ctx.oblige("safety", st, contains(k, sub), s.lineno, "cursor step: key present")
                st.env[name] = Cursor(cur.root, concat(cur.path, PyTup([k], True)))
                return [Outcome("normal", st)]
            raise Unsupported("cursor %s assigned from an unexpected expression (line %d)" % (name, s.lineno))
        v = self.ev(s.value, st)
        for t in s.targets:
            self._store_value_node = s.value
            try:
                self.assign_to(t, v, st)
            finally:
                self._store_value_node = None
            self.note_alias(t, s.value, lift(v) if not isinstance(v, DictItems) else None, st)
        return [Outcome("normal", st)]

    def st_AnnAssign(self, s, st):
        if s.value is None:
            return [Outcome("normal", st)]
        self.assign_to(s.target, self.ev(s.value, st), st)
        return [Outcome("normal", st)]

    def st_AugAssign(self, s, st):
        load = ast.parse(ast.unparse(s.target), mode="eval").body
        ast.copy_location(load, s)
        for n in ast.walk(load):
            ast.copy_location(n, s)
        cur = self.ev(load, st)
        v = self.ev(s.value, st)
        op = s.op
        if isinstance(op, ast.BitAnd) and isinstance(cur, V) and cur.ty is BOOL:
            nv = V(BOOL, z3.And(cur.t, coerce(v, BOOL).t))
        else:
            nv = self.binop(op, cur, v, st, s)
        self.assign_to(s.target, nv, st)
        return [Outcome("normal", st)]

    def st_Return(self, s, st):
        v = self.ev(s.value, st) if s.value is not None else NONE_V
        return [Outcome("return", st, val=v, line=s.lineno)]

    def st_Break(self, s, st):
        return [Outcome("break", st)]

    def st_Continue(self, s, st):
        return [Outcome("continue", st)]

    def st_Raise(self, s, st):
        if s.exc is None:
            raise Unsupported("bare raise")
        e = s.exc
        name = None
        if isinstance(e, ast.Call):
            name = ast.unparse(e.func)
        elif isinstance(e, ast.Name):
            name = e.id
        if name is None:
            raise Unsupported("raise of computed exception")
        return [Outcome("raise", st, exc=name.split(".")[-1], line=s.lineno)]

    def st_Assert(self, s, st):
        c = truthy(self.ev(s.test, st))
        if "AssertionError" in self.ctx.contract.raises:
            bad = st.copy().assume(z3.Not(c))
            st.assume(c)
            outs = [Outcome("normal", st)]
            if self.ctx.feasible(bad.pc):
                outs.append(Outcome("raise", bad, exc="AssertionError", line=s.lineno))
            return outs
        self.ctx.oblige("assert", st, c, s.lineno, "assert statement")
        st.assume(c)
        return [Outcome("normal", st)]

    def st_If(self, s, st):
        c = z3.simplify(truthy(self.ev(s.test, st)))
        outs = []
        if not z3.is_false(c):
            s1 = st.copy().assume(c)
            if z3.is_true(c) or self.ctx.feasible(s1.pc):
                outs.extend(self.run_block(s.body, s1))
        if not z3.is_true(c):
            s2 = st.copy().assume(z3.Not(c))
            if z3.is_false(c) or self.ctx.feasible(s2.pc):
                outs.extend(self.run_block(s.orelse, s2))
        return outs

    def st_Try(self, s, st):
        if s.finalbody or s.orelse:
            raise Unsupported("try/finally or try/else")
        outs = []
        for o in self.run_block(s.body, st):
            if o.kind != "raise":
                outs.append(o)
                continue
            handled = False
            for h in s.handlers:
                hn = ast.unparse(h.type).split(".")[-1] if h.type is not None else "Exception"
                names = [hn] if not isinstance(h.type, ast.Tuple) else [ast.unparse(e).split(".")[-1] for e in h.type.elts]
                if any(self.ctx.exc_matches(o.exc, n) for n in names):
                    if h.name:
                        o.st.env[h.name] = PyConstObj("exc:" + o.exc)
                    outs.extend(self.run_block(h.body, o.st))
                    handled = True
                    break
            if not handled:
                outs.append(o)
        return outs

    def st_Delete(self, s, st):
        for t in s.targets:
            if isinstance(t, ast.Subscript):
                base = self.ev(t.value, st)
                if isinstance(base, V) and isinstance(base.ty, DictT):
                    k = self.evz(t.slice, st, base.ty.key)
                    self.ctx.oblige("safety", st, base.ty.fn("has")(base.t, k), s.lineno, "del key present")
                    self.assign_to(t.value, V(base.ty, base.ty.fn("delete")(base.t, k)), st)
                    continue
            raise Unsupported("del target")
        return [Outcome("normal", st)]

    # ---------------------------------------------------------------- loops
    def loop_spec(self, s):
        """sidecar invariant for a loop: by ordinal while the function has as many loops as the sidecar knows;
        after loops were added/removed, by the recorded text of the iterated expression / test (else: undecided)"""
        k = getattr(s, "_loop_no", None)
        specs = self.ctx.contract.loops or {}
        src = ast.unparse(s.iter) if isinstance(s, ast.For) else ast.unparse(s.test)
        if getattr(self.ctx, "n_loops", len(specs)) == len(specs):
            spec = specs.get(k)
        else:
            cands = [v for v in specs.values() if v.get("match") == src]
            spec = cands[0] if len(cands) == 1 else None
        if spec is None:
            raise Unsupported("loop %s at line %d (`%s`) has no invariant in the sidecar" % (k, s.lineno, src))
        return k, spec

    def cursor_roots(self, names, st):
        return {st.env[n].root for n in names if isinstance(st.env.get(n), Cursor)} | \
               {c["root"] for n, c in (getattr(self.ctx.contract, "cursors", None) or {}).items() if n in names}

    def havoc(self, body, st, k, spec):
        roots = assigned_roots(body)
        roots = roots | self.cursor_roots(roots, st)
        for name in sorted(roots):
            cur = st.env.get(name)
            decl = (self.ctx.contract.locals or {}).get(name)
            if isinstance(cur, Cursor):
                st.env[name] = Cursor(cur.root, fresh(cur.path.ty, name + "_path"))
                continue
            if isinstance(cur, V):
                if cur.ty is NONE and decl is None:
                    raise Unsupported("loop-modified variable %s is None at loop entry and has no declared type" % name)
                st.env[name] = fresh(decl or cur.ty, name)
            elif decl is not None:
                st.env[name] = fresh(decl, name)
            elif cur is not None:
                raise Unsupported("loop-modified variable %s needs a declared type (locals)" % name)
        if st.out is not None and contains_yield(body):
            st.out = fresh(st.out.ty, "_out")
        # a PARAMETER that the loop body only rebinds (`rules = rule["children"]`) and that is mutated in place nowhere in the
        # function: the caller's object is untouched, whatever the name denotes after the loop (frame obligations are about objects)
        fn_ast = getattr(self.ctx, "func_ast", None)
        for name in sorted(roots):
            if ("old:" + name) in st.env and _never_mutated(fn_ast, name):
                st.env["__rebound__"] = frozenset(set(st.env.get("__rebound__", ())) | {name})

    def check_inv(self, kind, spec, st, line, k):
        sub = SpecEval(self.ctx, self.ctx.contract.ns)
        est = State(dict(st.env), st.pc)
        if st.out is not None:
            est.env["_out"] = st.out
        done = []
        for i, inv in enumerate(spec.get("inv", [])):
            g = truthy(sub.ev_str(inv, est))
            # clause i may rely on clauses 0..i-1 at the same program point (each is an obligation of its own)
            self.ctx.oblige(kind, st, g, line, "loop %d invariant[%d]: %s" % (k, i, inv), extra=done)
            done.append(g)

    def assume_inv(self, spec, st):
        sub = SpecEval(self.ctx, self.ctx.contract.ns)
        est = State(dict(st.env), st.pc)
        if st.out is not None:
            est.env["_out"] = st.out
        for inv in spec.get("inv", []):
            st.assume(truthy(sub.ev_str(inv, est)))

    def st_For(self, s, st):
        if s.orelse:
            raise Unsupported("for/else")
        pending = st.pending
        st.pending = None
        itv, idx_start = self.loop_iter(s.iter, st)
        # literal iteration: unroll
        if isinstance(itv, PyTup):
            outs = []
            cur = [st]
            for item in itv.items:
                nxt = []
                for c in cur:
                    self.bind_target(s.target, item, c)
                    for o in self.run_block(s.body, c):
                        if o.kind in ("normal", "continue"):
                            nxt.append(o.st)
                        elif o.kind == "break":
                            outs.append(Outcome("normal", o.st))
                        else:
                            outs.append(o)
                cur = nxt
            outs.extend(self.finish_loop(c, pending, s) for c in cur)
            return outs
        k, spec = self.loop_spec(s)
        is_zip = isinstance(itv, tuple) and itv[0] == "zip"
        if is_zip:
            za, zb = itv[1], itv[2]
            n_zip = z3.If(z3.Length(za.t) <= z3.Length(zb.t), z3.Length(za.t), z3.Length(zb.t))
            itv = ("range", z3.IntVal(0), n_zip)
        is_range = isinstance(itv, tuple) and itv[0] == "range"
        g_rest, g_i, g_it = "_rest%d" % k, "_i%d" % k, "_it%d" % k
        if is_range:
            lo, hi = itv[1], itv[2]
            st.env[g_i] = V(INT, lo)
            st.env["_i"] = st.env[g_i]
        else:
            st.env[g_it] = itv if not isinstance(itv, DictItems) else itv.d
            st.env[g_rest] = st.env[g_it]
            st.env[g_i] = V(INT, z3.IntVal(0))
            st.env["_rest"], st.env["_i"], st.env["_it"] = st.env[g_rest], st.env[g_i], st.env[g_it]
        _ar = assigned_roots(s.body)
        for name in _ar | self.cursor_roots(_ar, st):
            if name in st.env:
                st.env["entry:" + name] = st.env[name]
        if not is_range and isinstance(st.env[g_it], V) and (st.env[g_it].ty is STR or isinstance(st.env[g_it].ty, SeqT)):
            # ghost: the part of the sequence already consumed (invariants may speak about it as _done<k>)
            st.env["_done%d" % k] = st.env["_done"] = V(st.env[g_it].ty, z3.Empty(st.env[g_it].ty.sort()))
        self.check_inv("inv_entry", spec, st, s.lineno, k)
        # arbitrary iteration
        h = st.copy()
        self.havoc(s.body + [ast.Assign(targets=[s.target], value=ast.Constant(value=None), lineno=s.lineno)], h, k, spec)
        for n in ast.walk(s.target):
            if isinstance(n, ast.Name):
                h.env.pop(n.id, None)
        i_sym = fresh(INT, g_i)
        h.env[g_i] = h.env["_i"] = i_sym
        if is_range:
            h.assume(i_sym.t >= lo)
        else:
            h.assume(i_sym.t >= 0)
            rest_sym = fresh(st.env[g_it].ty, g_rest)
            h.env[g_rest] = h.env["_rest"] = rest_sym
            if spec.get("suffix", True) and isinstance(rest_sym.ty, (ListT, DictT)) is False and (rest_sym.ty is STR or isinstance(rest_sym.ty, SeqT)):
                # the remaining part is a suffix of the iterated sequence at offset _i (native Seq reasoning)
                # (stated with a ghost prefix instead of seq.extract: z3 mis-handles `rest == extract(full, i, len - i)`
                # together with `len(rest) <= 0`, DESIGN appendix B)
                full = h.env[g_it].t
                done_sym = fresh(rest_sym.ty, "_done%d" % k)
                h.env["_done%d" % k] = h.env["_done"] = done_sym
                h.assume(z3.And(full == z3.Concat(done_sym.t, rest_sym.t), z3.Length(done_sym.t) == i_sym.t))
        self.assume_inv(spec, h)
        csr = {n for n in _child_share_roots(s.body) if isinstance(h.env.get(n), V) and h.env[n].ty.mutable}
        if csr:
            # entries shared by an earlier iteration are still shared in a later one (and after the loop)
            h.env["__childshared__"] = frozenset(set(h.env.get("__childshared__", ())) | csr)
        outs = []
        # `owned_elements` (declared ASSUMPTION of the contract, listed in the evidence): the elements of this iterable are objects that
        # nothing else refers to, so the loop may update them in place; the loop variable is then the only handle on the element (value
        # semantics stay exact for it) and the iterated name itself is stale afterwards: any later read of it is refused
        owned_iter = isinstance(s.iter, ast.Name) and s.iter.id in (getattr(self.ctx.contract, "owned_elements", None) or {})
        # exit
        ex = h.copy()
        if owned_iter:
            ex.env[s.iter.id] = PyPoison("%s is stale: its elements were updated in place by the loop at line %d" % (s.iter.id, s.lineno))
        # a name stored into a container by some iteration may still be shared after the loop
        esc = {n for n in _escaping_names(s.body) if isinstance(ex.env.get(n), V) and ex.env[n].ty.mutable}
        if esc:
            ex.env["__aliased__"] = frozenset(set(ex.env.get("__aliased__", ())) | esc)
        if is_range:
            ex.assume(i_sym.t >= hi)
        else:
            ne, hd, tl = iter_head_tail(self.rewrap(itv, ex.env[g_rest]))
            ex.assume(z3.Not(ne))
        if self.ctx.feasible(ex.pc):
            outs.append(self.finish_loop(ex, pending, s))
        # one iteration
        it = h.copy()
        if is_range:
            it.assume(i_sym.t < hi)
            item = V(INT, i_sym.t)
            if is_zip:
                item = PyTup([V(za.ty.elem, za.t[i_sym.t]), V(zb.ty.elem, zb.t[i_sym.t])])
        else:
            ne, hd, tl = iter_head_tail(self.rewrap(itv, it.env[g_rest]))
            it.assume(ne)
            item = hd
            # iterating a dict: the current key is a key of the iterated dict (python iteration semantics)
            full_v = it.env.get(g_it)
            if isinstance(full_v, V) and isinstance(full_v.ty, DictT):
                cur_rest = self.rewrap(itv, it.env[g_rest])
                rest_d = cur_rest.d if isinstance(cur_rest, DictItems) else cur_rest
                it.assume(full_v.ty.fn("has")(full_v.t, full_v.ty.k(rest_d.t)))
            tl_v = tl.d if isinstance(tl, DictItems) else tl
            it.env[g_rest] = it.env["_rest"] = tl_v
            dn = it.env.get("_done%d" % k)
            if isinstance(dn, V) and isinstance(dn.ty, SeqT) and isinstance(hd, V) and hd.ty is dn.ty.elem:
                it.env["_done%d" % k] = it.env["_done"] = V(dn.ty, z3.Concat(dn.t, z3.Unit(hd.t)))
            elif isinstance(dn, V) and dn.ty is STR and isinstance(hd, V) and hd.ty is STR:
                it.env["_done%d" % k] = it.env["_done"] = V(STR, z3.Concat(dn.t, hd.t))
            if idx_start is not None:
                item = PyTup([V(INT, idx_start + i_sym.t), hd])
        it.env[g_i] = it.env["_i"] = V(INT, i_sym.t + 1)
        if self.ctx.feasible(it.pc):
            self.bind_target(s.target, item, it)
            # the loop variables denote elements of the iterated container: mutating them in place would change the container
            # (not representable in the functional model) -> ownership discipline refuses it
            al = set(it.env.get("__aliased__", ()))
            for n in ast.walk(s.target):
                if isinstance(n, ast.Name) and isinstance(it.env.get(n.id), V) and it.env[n.id].ty.mutable and not owned_iter:
                    al.add(n.id)
            it.env["__aliased__"] = frozenset(al)
            # (the loop target itself is rebound by every iteration)
            head_al = set(it.env.get("__aliased__", ())) | {n.id for n in ast.walk(s.target) if isinstance(n, ast.Name)}
            for o in self.run_block(s.body, it):
                if o.kind in ("normal", "continue"):
                    # the loop head state is reused for every iteration: aliases created by one iteration must not outlive it
                    extra = {n for n in set(o.st.env.get("__aliased__", ())) - head_al
                             if not _rebound_first(s.body, n) and not _never_mutated(getattr(self.ctx, "func_ast", None), n)}
                    if extra:
                        raise Unsupported("names %s are still shared with a container at the end of a loop iteration (line %d)"
                                          % (sorted(extra), s.lineno))
                    self.check_inv("inv_pres", spec, o.st, s.lineno, k)
                    self.ctx.paths += 1
                elif o.kind == "break":
                    outs.append(Outcome("normal", o.st))
                else:
                    outs.append(o)
        return outs

    def rewrap(self, itv, rest):
        return DictItems(rest, itv.mode) if isinstance(itv, DictItems) else rest

    def finish_loop(self, st, pending, s):
        if pending is not None:
            return Outcome("raise", st, exc=pending, line=s.lineno)
        return Outcome("normal", st)

    def loop_iter(self, node, st):
        """-> (iterated value | ('range', lo, hi), enumerate start or None)"""
        if isinstance(node, ast.Call) and isinstance(node.func, ast.Name) and node.func.id not in st.env:
            fn = node.func.id
            if fn == "enumerate":
                start = z3.IntVal(0)
                if len(node.args) > 1:
                    start = self.evz(node.args[1], st, INT)
                for kw in node.keywords:
                    if kw.arg == "start":
                        start = self.evz(kw.value, st, INT)
                v, _ = self.loop_iter(node.args[0], st)
                return v, start
            if fn == "range":
                a = [self.evz(x, st, INT) for x in node.args]
                if len(a) == 1:
                    return ("range", z3.IntVal(0), a[0]), None
                if len(a) == 2:
                    return ("range", a[0], a[1]), None
                raise Unsupported("range with step")
            if fn in ("list", "tuple", "iter") and len(node.args) == 1:
                return self.loop_iter(node.args[0], st)
            if fn == "zip" and len(node.args) == 2:
                a = lift(self.ev(node.args[0], st))
                b = lift(self.ev(node.args[1], st))
                if isinstance(a, V) and isinstance(b, V) and isinstance(a.ty, SeqT) and isinstance(b.ty, SeqT):
                    return ("zip", a, b), None
                raise Unsupported("zip over %r, %r" % (a, b))
            if fn == "map" and len(node.args) == 2 and isinstance(node.args[0], ast.Call) \
                    and ast.unparse(node.args[0].func) in ("operator.itemgetter", "itemgetter") and len(node.args[0].args) == 1 \
                    and isinstance(node.args[0].args[0], ast.Constant):
                # map(itemgetter(k), xs)  ==  [x[k] for x in xs]   (same generated fold function as that comprehension)
                comp = ast.ListComp(elt=ast.Subscript(value=ast.Name(id="x", ctx=ast.Load()), slice=node.args[0].args[0], ctx=ast.Load()),
                                    generators=[ast.comprehension(target=ast.Name(id="x", ctx=ast.Store()), iter=node.args[1], ifs=[],
                                                                  is_async=0)])
                ast.copy_location(comp, node)
                ast.fix_missing_locations(comp)
                return self.comp_fold(comp, st, "list"), None
        v = self.ev(node, st)
        if isinstance(v, DictItems):
            return v, None
        v = lift(v)
        if isinstance(v, (PyTup, V)):
            return v, None
        raise Unsupported("iteration over %r (line %d)" % (v, node.lineno))

    def st_While(self, s, st):
        if s.orelse:
            raise Unsupported("while/else")
        k, spec = self.loop_spec(s)
        for name in assigned_roots(s.body):
            if name in st.env:
                st.env["entry:" + name] = st.env[name]
        self.check_inv("inv_entry", spec, st, s.lineno, k)
        h = st.copy()
        self.havoc(s.body, h, k, spec)
        self.assume_inv(spec, h)
        csr = {n for n in _child_share_roots(s.body) if isinstance(h.env.get(n), V) and h.env[n].ty.mutable}
        if csr:
            h.env["__childshared__"] = frozenset(set(h.env.get("__childshared__", ())) | csr)
        outs = []
        c = truthy(self.ev(s.test, h))
        ex = h.copy().assume(z3.Not(c))
        esc = {n for n in _escaping_names(s.body) if isinstance(ex.env.get(n), V) and ex.env[n].ty.mutable}
        if esc:
            ex.env["__aliased__"] = frozenset(set(ex.env.get("__aliased__", ())) | esc)
        if self.ctx.feasible(ex.pc):
            outs.append(Outcome("normal", ex))
        it = h.copy().assume(c)
        head_al = set(it.env.get("__aliased__", ()))
        if self.ctx.feasible(it.pc):
            dec0 = None
            if spec.get("decreases"):
                sub = SpecEval(self.ctx, self.ctx.contract.ns)
                dec0 = coerce(sub.ev_str(spec["decreases"], State(dict(it.env), it.pc)), INT).t
            for o in self.run_block(s.body, it):
                if o.kind in ("normal", "continue"):
                    extra = {n for n in set(o.st.env.get("__aliased__", ())) - head_al
                             if not _rebound_first(s.body, n) and not _never_mutated(getattr(self.ctx, "func_ast", None), n)}
                    if extra:
                        raise Unsupported("names %s are still shared with a container at the end of a loop iteration (line %d)"
                                          % (sorted(extra), s.lineno))
                    self.check_inv("inv_pres", spec, o.st, s.lineno, k)
                    if dec0 is not None:
                        sub = SpecEval(self.ctx, self.ctx.contract.ns)
                        dec1 = coerce(sub.ev_str(spec["decreases"], State(dict(o.st.env), o.st.pc)), INT).t
                        self.ctx.oblige("decreases", o.st, z3.And(dec1 < dec0, dec0 >= 0), s.lineno, "loop %d variant" % k)
                    self.ctx.paths += 1
                elif o.kind == "break":
                    outs.append(Outcome("normal", o.st))
                else:
                    outs.append(o)
        return outs


class SpecEval(StmtExec):
    """evaluates sidecar expressions (strings) and spec-function bodies: no safety obligations, sidecar namespace"""

    def __init__(self, ctx, ns):
        Exec.__init__(self, ctx)
        self.registry = {}
        self.ns2 = ns

    def lookup(self, name, st, node=None):
        if name in st.env:
            return st.env[name]
        if self.ns2 is not None and name in self.ns2:
            return lift_ns(self.ns2[name])
        return super().lookup(name, st, node)

    def resolve_contract(self, func_node, st):
        return None

    def ev_str(self, src, st):
        node = _parse_cache(src)
        old = self.ctx.spec_mode
        self.ctx.spec_mode = True
        try:
            return self.ev(node, st)
        finally:
            self.ctx.spec_mode = old

    def ev_Call(self, node, st):
        # old(x): value of parameter x at function entry
        if isinstance(node.func, ast.Name) and node.func.id == "old" and len(node.args) == 1 and isinstance(node.args[0], ast.Name):
            k = "old:" + node.args[0].id
            if k in st.env:
                return st.env[k]
            raise Unsupported("old(%s) unknown" % node.args[0].id)
        if isinstance(node.func, ast.Name) and node.func.id == "entry" and len(node.args) == 1 and isinstance(node.args[0], ast.Name):
            k = "entry:" + node.args[0].id
            if k in st.env:
                return st.env[k]
            raise Unsupported("entry(%s) unknown" % node.args[0].id)
        if isinstance(node.func, ast.Name) and node.func.id == "forall_items" and len(node.args) == 2 \
                and isinstance(node.args[1], ast.Lambda):
            seq = lift(self.ev(node.args[0], st))
            lam = node.args[1]
            if not (isinstance(seq, V) and (isinstance(seq.ty, SeqT))):
                raise Unsupported("forall_items over %r" % (seq,))
            j = z3.Int("fa_j!%d" % id(node))
            sub = st.copy()
            sub.env[lam.args.args[0].arg] = V(seq.ty.elem, seq.t[j])
            body = truthy(self.ev(lam.body, sub))
            return V(BOOL, z3.ForAll([j], z3.Implies(z3.And(j >= 0, j < z3.Length(seq.t)), body), patterns=[seq.t[j]]))
        if isinstance(node.func, ast.Name) and node.func.id == "implies" and len(node.args) == 2:
            a = truthy(self.ev(node.args[0], st))
            s2 = st.copy().assume(a)
            return V(BOOL, z3.Implies(a, truthy(self.ev(node.args[1], s2))))
        return Exec.ev_Call(self, node, st)

    def pure_block(self, stmts, st):
        """value of a pure function body: assignments, if/else, return"""
        if not stmts:
            raise Unsupported("spec function falls off the end")
        s, rest = stmts[0], stmts[1:]
        if isinstance(s, ast.Expr) and isinstance(s.value, ast.Constant):
            return self.pure_block(rest, st)
        if isinstance(s, ast.Return):
            v = self.ev(s.value, st)
            rt = getattr(self, "ret_ty", None)
            return coerce(v, rt) if rt is not None else v
        if isinstance(s, ast.Assign):
            v = self.ev(s.value, st)
            st = st.copy()
            for t in s.targets:
                self.bind_target(t, v, st)
            return self.pure_block(rest, st)
        if isinstance(s, ast.If):
            c = truthy(self.ev(s.test, st))
            a = self.pure_block(s.body + rest, st.copy().assume(c))
            b = self.pure_block(s.orelse + rest, st.copy().assume(z3.Not(c)))
            return ite(c, a, b)
        raise Unsupported("statement %s in spec function (line %d)" % (type(s).__name__, s.lineno))

    def assign_to(self, target, val, st):
        if isinstance(target, ast.Name):
            st.env[target.id] = lift(val)
            return
        return Exec.assign_to(self, target, val, st)


_pc = {}


def _parse_cache(src):
    if src not in _pc:
        _pc[src] = ast.parse(src.strip(), mode="eval").body
    return _pc[src]
