"""child process of pyvc.solve.check_valid: re-run a query z3 has refuted in a proof-producing context and print the
quantifier-free certificate (ground assertions + the quantifier instances of z3's refutation) as SMT-LIB2.
Run as a separate process so that a non-terminating z3 call can be killed (usage: cert_child.py <query.smt2> <timeout_ms>)."""
import sys
import z3


def main():
    path, timeout_ms = sys.argv[1], int(sys.argv[2])
    pctx = z3.Context(proof=True)
    ps = z3.Solver(ctx=pctx)
    ps.set("timeout", timeout_ms)
    asserts = z3.parse_smt2_file(path, ctx=pctx)
    ground = []
    for f in asserts:
        ps.add(f)
        if not z3.is_quantifier(f):
            ground.append(f)
    if len(ground) == len(asserts):
        print("NOQUANT")
        return
    if ps.check() != z3.unsat:
        print("NOTUNSAT")
        return
    gi = []
    seen, stack = set(), [ps.proof()]
    while stack:
        e = stack.pop()
        if e.get_id() in seen:
            continue
        seen.add(e.get_id())
        if z3.is_app(e):
            if e.decl().kind() == z3.Z3_OP_PR_QUANT_INST and e.num_args():
                f = e.children()[-1]
                if z3.is_or(f):
                    gi.extend(c for c in f.children() if not (z3.is_not(c) and z3.is_quantifier(c.arg(0))))
            stack.extend(e.children())
    sg = z3.Solver(ctx=pctx)
    for f in ground:
        sg.add(f)
    for f in gi:
        sg.add(f)
    print("CERT")
    print(sg.to_smt2())


if __name__ == "__main__":
    main()
