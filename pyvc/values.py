"""pyvc.values -- symbolic values and the typed operations on them."""
import z3
from .types import *


class Unsupported(Exception):
    """construct outside the accepted subset -> the function is undecided (never proved, never a violation)"""


class V:
    """typed symbolic value"""
    __slots__ = ("ty", "t")

    def __init__(self, ty, t):
        self.ty = ty
        self.t = t

    def __repr__(self):
        return "V(%s)" % (self.ty,)        # never pretty-print the z3 term here: repr is used in (caught) exception messages


class PyTup:
    """python tuple/list literal whose z3 type is not fixed yet"""
    __slots__ = ("items", "is_list")

    def __init__(self, items, is_list=False):
        self.items = list(items)
        self.is_list = is_list


class PyDict:
    """python dict literal / comprehension with constant keys, not yet typed (coerced to a record on assignment)"""
    __slots__ = ("items",)

    def __init__(self, items):
        self.items = dict(items)


class PyIte:
    """conditional between two literals whose common type is fixed later (by coercion)"""
    __slots__ = ("c", "a", "b")

    def __init__(self, c, a, b):
        self.c, self.a, self.b = c, a, b


class PyGuard:
    """`c and val` with a boolean c and a non-boolean val: python's value is `val if c else False` (kept until an `or` or a test
    consumes it)"""
    __slots__ = ("c", "val")

    def __init__(self, c, val):
        self.c, self.val = c, val


class PyPoison:
    """a value the model cannot type (e.g. `d.pop(k, None)` of a dict of dicts): fine while it is discarded, Unsupported on any use"""
    __slots__ = ("why",)

    def __init__(self, why):
        self.why = why


class PyCat:
    """concatenation of literals / conditionals whose sequence type is fixed later (by coercion)"""
    __slots__ = ("a", "b")

    def __init__(self, a, b):
        self.a, self.b = a, b


class PyFn:
    """python-level callable known to the executor (spec function, lambda, builtin, contract)"""

    def __init__(self, name, call):
        self.name = name
        self.call = call


class PyConstObj:
    """opaque python constant (module, class used as sentinel, ...)"""

    def __init__(self, name, attrs=None):
        self.name = name
        self.attrs = attrs or {}


NONE_V = V(NONE, z3.BoolVal(True))


def lift(c):
    if isinstance(c, (V, PyTup, PyFn, PyConstObj, PyDict, PyIte, PyCat, PyGuard, Cursor)):
        return c
    if c is None:
        return NONE_V
    if isinstance(c, bool):
        return V(BOOL, z3.BoolVal(c))
    if isinstance(c, int):
        return V(INT, z3.IntVal(c))
    if isinstance(c, str):
        return V(STR, z3.StringVal(c))
    if isinstance(c, tuple):
        return PyTup([lift(x) for x in c])
    if isinstance(c, list):
        return PyTup([lift(x) for x in c], True)
    if isinstance(c, PyPoison):
        raise Unsupported("use of %s" % c.why)
    raise Unsupported("constant %r" % (c,))


_fresh_n = [0]


def fresh(ty, hint="v"):
    _fresh_n[0] += 1
    if ty is NONE:
        return NONE_V
    return V(ty, z3.Const("%s!%d" % (hint, _fresh_n[0]), ty.sort()))


def seq_unit(ty, term):
    return z3.Unit(term)


def coerce(val, ty):
    """convert a value to type ty (building constructor terms); raises Unsupported if impossible"""
    val = lift(val)
    if isinstance(val, PyCat):
        return concat(coerce(val.a, ty), coerce(val.b, ty))
    if isinstance(val, PyIte):
        a, b = coerce(val.a, ty), coerce(val.b, ty)
        if ty is NONE:
            return NONE_V
        return V(ty, z3.If(val.c, a.t, b.t))
    if isinstance(val, V):
        if val.ty is ty:
            return val
        if isinstance(ty, UnionT):
            tag = ty.tag_of_type(val.ty)
            if tag is not None:
                return V(ty, ty.mk(tag, None if val.ty is NONE else val.t))
            # nested coercion (e.g. tuple literal into optional tuple)
        if isinstance(val.ty, UnionT):
            tag = val.ty.tag_of_type(ty)
            if tag is not None:
                return V(ty, val.ty.val(val.t, tag))
        if ty is BOOL:
            return V(BOOL, truthy(val))
        if ty is INT and val.ty is BOOL:
            return V(INT, z3.If(val.t, 1, 0))
        if isinstance(ty, SeqT) and isinstance(val.ty, SeqT) and val.ty.elem is ty.elem:
            return V(ty, val.t)
        raise Unsupported("cannot coerce %s to %s" % (val.ty, ty))
    if isinstance(val, PyDict):
        if isinstance(ty, DictT) and not val.items:
            return V(ty, ty.nil)
        if not val.items and getattr(ty, "empty_dict_term", None) is not None:
            # `{}` where the sidecar models the dict-like values of this place by an opaque sort with a named empty value
            return V(ty, ty.empty_dict_term())
        if isinstance(ty, RecT):
            kw = {}
            for k, v in val.items.items():
                f = ty.field_of_key(k)
                if f is None:
                    raise Unsupported("dict key %r is not a field of %s" % (k, ty))
                kw[f] = coerce(v, ty.fields[f]).t
            for f, dv in (getattr(ty, "literal_defaults", None) or {}).items():
                if f not in kw:
                    kw[f] = dv() if callable(dv) else dv
            if set(kw) != set(ty.fields):
                raise Unsupported("dict literal does not give every field of %s" % ty)
            return V(ty, ty.mk(**kw))
        if isinstance(ty, UnionT):
            for tag, alt in ty.alts.items():
                if isinstance(alt, RecT):
                    try:
                        return V(ty, ty.mk(tag, coerce(val, alt).t))
                    except Unsupported:
                        continue
            lit = getattr(ty, "dict_literal_tag", None)
            if lit is not None:
                # the sidecar declares that a dict literal in this position is one fixed constant (e.g. a built-in default rule)
                return V(ty, ty.mk(lit))
        raise Unsupported("cannot coerce dict literal to %s" % ty)
    if isinstance(val, PyTup):
        if isinstance(ty, TupleT):
            if len(val.items) != len(ty.elems):
                raise Unsupported("tuple arity %d vs %s" % (len(val.items), ty))
            return V(ty, ty.mk(*[coerce(x, e).t for x, e in zip(val.items, ty.elems)]))
        if isinstance(ty, SeqT):
            if not val.items:
                return V(ty, z3.Empty(ty.sort()))
            units = [z3.Unit(coerce(x, ty.elem).t) for x in val.items]
            return V(ty, units[0] if len(units) == 1 else z3.Concat(*units))
        if isinstance(ty, ListT):
            t = ty.nil
            for x in reversed(val.items):
                t = ty.cons(coerce(x, ty.elem).t, t)
            return V(ty, t)
        if isinstance(ty, UnionT):
            for tag, alt in ty.alts.items():
                if isinstance(alt, (TupleT, SeqT, ListT)):
                    try:
                        return V(ty, ty.mk(tag, coerce(val, alt).t))
                    except Unsupported:
                        continue
        if isinstance(ty, DictT) and not val.items:
            return V(ty, ty.nil)
        raise Unsupported("cannot coerce literal to %s" % ty)
    raise Unsupported("cannot coerce %r to %s" % (val, ty))


def truthy(val):
    val = lift(val)
    if isinstance(val, PyTup):
        return z3.BoolVal(bool(val.items))
    if isinstance(val, (PyFn, PyConstObj)):
        return z3.BoolVal(True)
    if isinstance(val, PyGuard):
        return z3.And(val.c, truthy(val.val))
    ty = val.ty
    if ty is BOOL:
        return val.t
    if ty is INT:
        return val.t != 0
    if ty is STR:
        return z3.Length(val.t) > 0
    if ty is NONE:
        return z3.BoolVal(False)
    if isinstance(ty, SeqT):
        return z3.Length(val.t) > 0
    if isinstance(ty, SetT):
        return val.t != z3.EmptySet(ty.elem.sort())
    if isinstance(ty, (ListT, DictT)):
        return z3.Not(ty.is_nil(val.t))
    if isinstance(ty, UnionT):
        parts = []
        for tag, alt in ty.alts.items():
            if alt is None or alt is NONE:
                if tag in getattr(ty, "truthy_tags", ()):
                    parts.append(ty.is_(val.t, tag))
                continue
            parts.append(z3.And(ty.is_(val.t, tag), truthy(V(alt, ty.val(val.t, tag)))))
        return z3.Or(*parts) if parts else z3.BoolVal(False)
    if isinstance(ty, RecT):
        b = getattr(ty, "bool_field", None)
        if b:
            return truthy(V(ty.fields[b], ty.get(val.t, b)))
        return z3.BoolVal(True)
    if isinstance(ty, (TupleT, OpaqueT, EnumT)):
        tf = getattr(ty, "truthy_fn", None)
        if tf is not None:
            return tf(val.t)
        if isinstance(ty, TupleT):
            return z3.BoolVal(len(ty.elems) > 0)
        if isinstance(ty, EnumT):
            return z3.BoolVal(True)
    raise Unsupported("truthiness of %s" % ty)


def unify(a, b):
    """bring two values to a common type for ==, If-merge"""
    a, b = lift(a), lift(b)
    if isinstance(a, V) and isinstance(b, V):
        if a.ty is b.ty:
            return a, b
        if a.ty is INT and b.ty is BOOL:
            return a, coerce(b, INT)
        if a.ty is BOOL and b.ty is INT:
            return coerce(a, INT), b
        if isinstance(a.ty, UnionT) and a.ty.tag_of_type(b.ty) is not None:
            return a, coerce(b, a.ty)
        if isinstance(b.ty, UnionT) and b.ty.tag_of_type(a.ty) is not None:
            return coerce(a, b.ty), b
        return None
    if isinstance(a, V) and isinstance(b, (PyTup, PyDict, PyIte, PyCat)):
        try:
            return a, coerce(b, a.ty)
        except Unsupported:
            return None
    if isinstance(b, V) and isinstance(a, (PyTup, PyDict, PyIte, PyCat)):
        r = unify(b, a)
        return (r[1], r[0]) if r else None
    return None


def _may_be_none(v):
    """uninterpreted `v is None` for a value whose declared type is (or wraps) an opaque sort; None if the type excludes None"""
    from .types import OpaqueT
    if isinstance(v.ty, OpaqueT):
        return z3.Function("isnone_%s" % v.ty.name, v.ty.sort(), z3.BoolSort())(v.t)
    if isinstance(v.ty, UnionT):
        parts = []
        for tag, t in v.ty.alts.items():
            if isinstance(t, OpaqueT):
                parts.append(z3.And(v.ty.is_(v.t, tag), z3.Function("isnone_%s" % t.name, t.sort(), z3.BoolSort())(v.ty.val(v.t, tag))))
        if parts:
            return z3.Or(*parts)
    return None


def eq(a, b):
    a, b = lift(a), lift(b)
    if isinstance(a, PyTup) and isinstance(b, PyTup):
        if len(a.items) != len(b.items):
            return z3.BoolVal(False)
        return z3.And(*[eq(x, y) for x, y in zip(a.items, b.items)]) if a.items else z3.BoolVal(True)
    if isinstance(a, PyConstObj) or isinstance(b, PyConstObj):
        return z3.BoolVal(a is b)
    u = unify(a, b)
    if u is None:
        # values of unrelated types are never equal in python (None vs str, ...)
        ta = a.ty if isinstance(a, V) else None
        tb = b.ty if isinstance(b, V) else None
        if ta is not None and tb is not None:
            # ... except that an opaque sort stands for "any python object": whether such a value is None is not known
            for x, y in ((a, b), (b, a)):
                if x.ty is NONE:
                    m = _may_be_none(y)
                    if m is not None:
                        return m
            return z3.BoolVal(False)
        raise Unsupported("equality between %r and %r" % (a, b))
    if u[0].ty is NONE:
        return z3.BoolVal(True)
    return u[0].t == u[1].t


def ite(c, a, b):
    if z3.is_true(c):
        return a
    if z3.is_false(c):
        return b
    a, b = lift(a), lift(b)
    if isinstance(a, PyTup) and isinstance(b, PyTup) and len(a.items) == len(b.items):
        return PyTup([ite(c, x, y) for x, y in zip(a.items, b.items)], a.is_list)
    u = unify(a, b)
    if u is None:
        if isinstance(a, (PyTup, PyDict, PyIte, PyCat)) and isinstance(b, (PyTup, PyDict, PyIte, PyCat)):
            return PyIte(c, a, b)
        raise Unsupported("conditional merge of %r and %r" % (a, b))
    if u[0].ty is NONE:
        return NONE_V
    return V(u[0].ty, z3.If(c, u[0].t, u[1].t))


# ---------------------------------------------------------------------------------------------------------
# sequence-like operations, dispatching on representation

def length(v):
    v = lift(v)
    if isinstance(v, PyTup):
        return z3.IntVal(len(v.items))
    if v.ty is STR or isinstance(v.ty, SeqT):
        return z3.Length(v.t)
    if isinstance(v.ty, (ListT, DictT)):
        return v.ty.fn("len")(v.t)
    raise Unsupported("len of %s" % v.ty)


def norm_index(i, n):
    """python index normalisation for a (possibly negative) index term"""
    if z3.is_int_value(i):
        return i if i.as_long() >= 0 else n + i
    return z3.If(i >= 0, i, n + i)


def index(v, i):
    """v[i] with i a z3 Int; returns (value, safety condition)"""
    v = lift(v)
    if isinstance(v, PyTup):
        if z3.is_int_value(i):
            k = i.as_long()
            if -len(v.items) <= k < len(v.items):
                return v.items[k], z3.BoolVal(True)
            return None, z3.BoolVal(False)
        raise Unsupported("symbolic index into tuple literal")
    if isinstance(v.ty, TupleT):
        if z3.is_int_value(i):
            k = i.as_long()
            if k < 0:
                k += len(v.ty.elems)
            if 0 <= k < len(v.ty.elems):
                return V(v.ty.elems[k], v.ty.get(v.t, k)), z3.BoolVal(True)
            return None, z3.BoolVal(False)
        raise Unsupported("symbolic index into tuple")
    n = length(v)
    ok = z3.And(i < n, i >= -n)
    j = norm_index(i, n)
    if v.ty is STR:
        return V(STR, z3.SubString(v.t, j, 1)), ok
    if isinstance(v.ty, SeqT):
        return V(v.ty.elem, v.t[j]), ok
    if isinstance(v.ty, ListT):
        T = v.ty
        if z3.is_int_value(i) and i.as_long() == 0:
            return V(T.elem, T.hd(v.t)), T.is_cons(v.t)
        if z3.is_int_value(i) and i.as_long() == -1:
            return V(T.elem, T.fn("last")(v.t)), T.is_cons(v.t)
        return V(T.elem, T.fn("nth")(v.t, j)), ok
    if isinstance(v.ty, TupleT):
        if z3.is_int_value(i):
            k = i.as_long()
            if k < 0:
                k += len(v.ty.elems)
            if 0 <= k < len(v.ty.elems):
                return V(v.ty.elems[k], v.ty.get(v.t, k)), z3.BoolVal(True)
            return None, z3.BoolVal(False)
        raise Unsupported("symbolic index into tuple")
    raise Unsupported("index into %s" % v.ty)


def slice_(v, lo, hi):
    """v[lo:hi]; lo/hi z3 Int or None; python clamping semantics"""
    v = lift(v)
    if isinstance(v, PyTup):
        l = lo.as_long() if lo is not None and z3.is_int_value(lo) else (None if lo is None else "x")
        h = hi.as_long() if hi is not None and z3.is_int_value(hi) else (None if hi is None else "x")
        if l == "x" or h == "x":
            raise Unsupported("symbolic slice of literal")
        return PyTup(v.items[l:h], v.is_list)
    n = length(v)

    def norm(x):
        if z3.is_int_value(x):
            return x if x.as_long() >= 0 else z3.simplify(x + n)
        return z3.If(x < 0, x + n, x)
    if v.ty is STR or isinstance(v.ty, SeqT):
        # SMT-LIB seq.extract(s, i, k) is empty for i outside [0,len) or k <= 0 and clamps i+k to len, which is
        # python's clamping once the offset is made non-negative (terms kept small: z3's seq solver mis-handles the
        # heavily ite-clamped form, see DESIGN appendix)
        if lo is None:
            l = z3.IntVal(0)
        else:
            l = norm(lo)
            if not (z3.is_int_value(l) and l.as_long() >= 0):
                l = z3.If(l < 0, 0, l)
        if hi is None:
            return V(v.ty, z3.SubSeq(v.t, l, z3.simplify(n - l)))
        h = norm(hi)
        return V(v.ty, z3.SubSeq(v.t, l, z3.simplify(h - l)))

    def clamp(x, default):
        if x is None:
            return default
        x = norm(x)
        return z3.If(x < 0, 0, z3.If(x > n, n, x))
    l = clamp(lo, z3.IntVal(0))
    h = clamp(hi, n)
    if isinstance(v.ty, ListT):
        T = v.ty
        if hi is None:
            if lo is not None and z3.is_int_value(lo) and lo.as_long() == 1:
                return V(T, T.tl(v.t))    # d[1:] guarded by non-emptiness in spec functions
            return V(T, T.fn("drop")(v.t, z3.simplify(l)))
        if lo is None:
            return V(T, T.fn("take")(v.t, z3.simplify(h)))
        return V(T, T.fn("take")(T.fn("drop")(v.t, z3.simplify(l)), z3.simplify(h - l)))
    raise Unsupported("slice of %s" % v.ty)


def concat(a, b):
    a, b = lift(a), lift(b)
    if isinstance(a, PyTup) and isinstance(b, PyTup):
        return PyTup(a.items + b.items, a.is_list)
    if isinstance(a, (PyTup, PyIte, PyCat)) and isinstance(b, V):
        a = coerce(a, b.ty)
    if isinstance(b, (PyTup, PyIte, PyCat)) and isinstance(a, V):
        b = coerce(b, a.ty)
    if not (isinstance(a, V) and isinstance(b, V)):
        return PyCat(a, b)
    if a.ty is not b.ty:
        raise Unsupported("concat %s + %s" % (a.ty, b.ty))
    if a.ty is STR or isinstance(a.ty, SeqT):
        return V(a.ty, z3.Concat(a.t, b.t))
    if isinstance(a.ty, (ListT, DictT)):
        return V(a.ty, a.ty.fn("app")(a.t, b.t))
    raise Unsupported("concat of %s" % a.ty)


def contains(x, c):
    """x in c"""
    x, c = lift(x), lift(c)
    if isinstance(c, PyTup):
        return z3.Or(*[eq(x, y) for y in c.items]) if c.items else z3.BoolVal(False)
    if getattr(c.ty, "contains_fn", None) is not None:
        return c.ty.contains_fn(x, c)       # an opaque container with a declared membership predicate
    if c.ty is STR:
        return z3.Contains(c.t, coerce(x, STR).t)
    if isinstance(c.ty, SeqT):
        return z3.Contains(c.t, z3.Unit(coerce(x, c.ty.elem).t))
    if isinstance(c.ty, ListT):
        return c.ty.fn("mem")(coerce(x, c.ty.elem).t, c.t)
    if isinstance(c.ty, DictT):
        return c.ty.fn("has")(c.t, coerce(x, c.ty.key).t)
    if isinstance(c.ty, SetT):
        return z3.Select(c.t, coerce(x, c.ty.elem).t)
    raise Unsupported("membership in %s" % c.ty)


def head_tail(v):
    """(nonempty condition, head value, tail value) for iteration"""
    v = lift(v)
    ty = v.ty
    if ty is STR:
        n = z3.Length(v.t)
        return n > 0, V(STR, z3.SubString(v.t, 0, 1)), V(STR, z3.SubString(v.t, 1, n - 1))
    if isinstance(ty, SeqT):
        n = z3.Length(v.t)
        return n > 0, V(ty.elem, v.t[0]), V(ty, z3.SubSeq(v.t, 1, n - 1))
    if isinstance(ty, ListT):
        return ty.is_cons(v.t), V(ty.elem, ty.hd(v.t)), V(ty, ty.tl(v.t))
    if isinstance(ty, DictT):
        # iteration over items: head is the (key, value) pair as a python-level tuple
        return z3.Not(ty.is_nil(v.t)), PyTup([V(ty.key, ty.k(v.t)), V(ty.val, ty.v(v.t))]), V(ty, ty.tl(v.t))
    raise Unsupported("iteration over %s" % ty)


class Cursor:
    """a name that walks into the nested dict owned by another variable (`cur = root; ...; cur = cur[k]; cur[k2] = v`):
    an access path into `root`; reads go through the sidecar's path-get spec function, writes are functional updates of root"""
    __slots__ = ("root", "path")

    def __init__(self, root, path):
        self.root = root
        self.path = path


class DictItems:
    """view produced by d.items() / d.values(): iteration yields (key, value) pairs / values"""
    __slots__ = ("d", "mode")

    def __init__(self, d, mode="items"):
        self.d = d
        self.mode = mode


def iter_head_tail(v):
    """like head_tail but understands dict views (pairs / values) vs plain dict iteration (keys)"""
    if isinstance(v, DictItems):
        ne, hd, tl = head_tail(v.d)
        return ne, (hd if v.mode == "items" else hd.items[1]), DictItems(tl, v.mode)
    v = lift(v)
    if isinstance(v, V) and isinstance(v.ty, DictT):
        ne, hd, tl = head_tail(v)
        return ne, hd.items[0], tl
    return head_tail(v)
