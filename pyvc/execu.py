"""pyvc.execu -- symbolic executor: Python AST of a real function -> proof obligations.

Forward symbolic execution, path by path.  Loops are cut by sidecar invariants, calls use callee contracts only,
generators get list semantics (ghost output sequence), exceptions are outcomes.  Anything outside the subset raises
Unsupported (=> undecided, never proved / never violated).
"""
import ast
import z3
from .defs import rec_function, add_definition
from .types import *
from .values import *

BUILTIN_EXC = {"Exception", "AssertionError", "ValueError", "KeyError", "IndexError", "TypeError",
               "NotImplementedError", "RuntimeError", "StopIteration"}


class State:
    __slots__ = ("env", "pc", "out", "pre", "pending")

    def __init__(self, env=None, pc=None, out=None, pre=None, pending=None):
        self.env = env if env is not None else {}
        self.pc = pc if pc is not None else []
        self.out = out
        self.pre = pre if pre is not None else {}       # precomputed results of raising-contract calls
        self.pending = pending

    def copy(self):
        return State(dict(self.env), list(self.pc), self.out, dict(self.pre), self.pending)

    def assume(self, c):
        if not z3.is_true(c):
            self.pc.append(c)
        return self


class Outcome:
    __slots__ = ("kind", "st", "val", "exc", "line")

    def __init__(self, kind, st, val=None, exc=None, line=0):
        self.kind = kind
        self.st = st
        self.val = val
        self.exc = exc
        self.line = line


class Oblig:
    def __init__(self, name, kind, assumptions, goal, line=0, note=""):
        self.name = name
        self.kind = kind          # post | raises | safety | callpre | frame | inv_entry | inv_pres | decreases | cover
        self.assumptions = assumptions
        self.goal = goal
        self.line = line
        self.note = note

    @property
    def is_contract(self):
        return self.kind in ("post", "raises", "safety", "callpre", "frame", "assert")


class Ctx:
    """per-function verification context"""

    def __init__(self, contract, namespace, feasible=None):
        self.contract = contract
        self.ns = namespace          # sidecar namespace: names -> Ty / SpecFn / python consts
        self.obligs = []
        self.spec_mode = False
        self.loop_no = 0
        self.feasible = feasible or (lambda pc: True)
        self.exc_parents = dict(getattr(contract, "exc_parents", {}) or {})
        self.paths = 0
        self.comp_n = 0
        self.unsupported = None

    def oblige(self, kind, st, goal, line=0, note="", force=False, extra=()):
        if self.spec_mode:
            return
        if z3.is_true(goal) and not force:
            return
        if extra:
            st = State(st.env, list(st.pc) + list(extra))
        # names are ordinal per kind (not line based): an edit elsewhere in the file must not rename them
        n = sum(1 for o in self.obligs if o.kind == kind)
        name = "%s:%s#%d" % (self.contract.key, kind, n)
        self.obligs.append(Oblig(name, kind, list(st.pc), goal, line, note))

    def exc_matches(self, raised, handler):
        if handler in ("Exception", "BaseException") or raised == handler:
            return True
        p = self.exc_parents.get(raised)
        while p:
            if p == handler:
                return True
            p = self.exc_parents.get(p)
        return False


# -----------------------------------------------------------------------------------------------------------
# expression evaluation

class Exec:
    def __init__(self, ctx):
        self.ctx = ctx

    # ---- names
    def lookup(self, name, st, node=None):
        if name in st.env:
            return st.env[name]
        g = getattr(self.ctx.contract, "globals", None) or {}
        if name in g:
            return lift_ns(g[name])
        if name in self.ctx.ns:
            return lift_ns(self.ctx.ns[name])
        if name in BUILTINS:
            return BUILTINS[name]
        raise Unsupported("unknown name %s (line %s)" % (name, getattr(node, "lineno", "?")))

    def ev(self, node, st):
        m = getattr(self, "ev_" + type(node).__name__, None)
        if m is None:
            raise Unsupported("expression %s at line %d" % (type(node).__name__, getattr(node, "lineno", 0)))
        return m(node, st)

    def evz(self, node, st, ty):
        return coerce(self.ev(node, st), ty).t

    def ev_Constant(self, node, st):
        if isinstance(node.value, (int, str, bool)) or node.value is None:
            return lift(node.value)
        raise Unsupported("constant %r" % (node.value,))

    def ev_Name(self, node, st):
        return self.lookup(node.id, st, node)

    def ev_Tuple(self, node, st):
        items = []
        for e in node.elts:
            if isinstance(e, ast.Starred):
                v = self.ev(e.value, st)
                if isinstance(v, PyTup):
                    items.extend(v.items)
                else:
                    raise Unsupported("starred symbolic in literal")
            else:
                items.append(self.ev(e, st))
        return PyTup(items, isinstance(node, ast.List))

    ev_List = ev_Tuple

    def ev_JoinedStr(self, node, st):
        raise Unsupported("f-string")

    def ev_Attribute(self, node, st):
        base = self.ev(node.value, st)
        return self.getattr_(base, node.attr, st, node)

    def getattr_(self, base, attr, st, node=None):
        if isinstance(base, PyConstObj):
            if attr in base.attrs:
                return lift_ns(base.attrs[attr])
            raise Unsupported("attribute %s of %s" % (attr, base.name))
        if isinstance(base, V):
            ty = base.ty
            if isinstance(ty, RecT):
                if attr in ty.fields:
                    return V(ty.fields[attr], ty.get(base.t, attr))
                props = getattr(ty, "props", {})
                if attr in props:
                    return props[attr](self, base, st)
            if isinstance(ty, TupleT) and ty.fields and attr in ty.fields:
                i = ty.fields.index(attr)
                return V(ty.elems[i], ty.get(base.t, i))
            at = getattr(ty, "attrs", None)
            if at and attr in at:
                # sidecar-declared attribute of an opaque object (e.g. a bound method taken as a value)
                return at[attr](base)
            if isinstance(ty, UnionT):
                # attribute access through an optional: project to the single record alternative
                recs = [(tag, alt) for tag, alt in ty.alts.items() if isinstance(alt, (RecT, TupleT))]
                if len(recs) == 1:
                    tag, alt = recs[0]
                    self.ctx.oblige("safety", st, ty.is_(base.t, tag), getattr(node, "lineno", 0), "attribute of optional")
                    return self.getattr_(V(alt, ty.val(base.t, tag)), attr, st, node)
        raise Unsupported("attribute .%s on %r (line %s)" % (attr, base, getattr(node, "lineno", "?")))

    def narrow(self, v, st, accept, line, what):
        """a value of a union type used where only some alternatives make sense (x.keys(), x[k], len(x)): if exactly one acceptable
        alternative is possible under the path condition (e.g. after `isinstance(x, Mapping)`), project to it; the projection is
        backed by a safety obligation, so an incomplete feasibility check cannot make it unsound"""
        ty = v.ty
        cands = [(tag, alt) for tag, alt in ty.alts.items() if alt is not None and alt is not NONE and accept(alt)]
        if len(cands) > 1:
            cands = [(tag, alt) for tag, alt in cands if self.ctx.feasible(list(st.pc) + [ty.is_(v.t, tag)])]
        if len(cands) != 1:
            raise Unsupported("%s on a value of union type %s: %d possible alternatives (line %d)" % (what, ty, len(cands), line))
        tag, alt = cands[0]
        self.ctx.oblige("safety", st, ty.is_(v.t, tag), line, "%s on a union value that is not a %s" % (what, alt))
        return V(alt, ty.val(v.t, tag))

    def ev_Subscript(self, node, st):
        base = self.ev(node.value, st)
        return self.subscript(base, node.slice, st, node)

    def subscript(self, base, sl, st, node):
        line = getattr(node, "lineno", 0)
        if isinstance(base, Cursor):
            base = self.deref(base, st)
        if isinstance(sl, ast.Slice):
            if sl.step is not None:
                raise Unsupported("slice step")
            lo = self.evz(sl.lower, st, INT) if sl.lower is not None else None
            hi = self.evz(sl.upper, st, INT) if sl.upper is not None else None
            return slice_(base, lo, hi)
        base = lift(base)
        if isinstance(base, V) and isinstance(base.ty, RecT):
            sym = self.enum_key(sl, st, base.ty)
            if sym is not None:
                # record indexed by a symbolic enum member (diff[op]): case split over the members
                kv, fields = sym
                fty = base.ty.fields[fields[0][1]]
                t = base.ty.get(base.t, fields[-1][1])
                for pv, f in reversed(fields[:-1]):
                    t = z3.If(kv.t == kv.ty.const(pv), base.ty.get(base.t, f), t)
                return V(fty, t)
            if not isinstance(sl, ast.Constant):
                # record indexed by a name holding one of two literal keys (`k = "a" if c else "b"; rec[k]`): the same conditional over fields
                kv = lift(self.ev(sl, st))
                if isinstance(kv, V) and kv.ty is STR and z3.is_string_value(z3.simplify(kv.t)):
                    f0 = base.ty.field_of_key(z3.simplify(kv.t).as_string())
                    if f0 is not None:
                        return V(base.ty.fields[f0], base.ty.get(base.t, f0))
                if isinstance(kv, V) and kv.ty is STR and z3.is_app_of(kv.t, z3.Z3_OP_ITE):
                    c_, a_, b_ = kv.t.children()
                    if z3.is_string_value(a_) and z3.is_string_value(b_):
                        fa, fb = base.ty.field_of_key(a_.as_string()), base.ty.field_of_key(b_.as_string())
                        if fa is not None and fb is not None and base.ty.fields[fa] is base.ty.fields[fb]:
                            return V(base.ty.fields[fa], z3.If(c_, base.ty.get(base.t, fa), base.ty.get(base.t, fb)))
            key = self.const_key(sl, st)
            f = base.ty.field_of_key(key)
            if f is None:
                raise Unsupported("record key %r on %s (line %d)" % (key, base.ty, line))
            return V(base.ty.fields[f], base.ty.get(base.t, f))
        if isinstance(base, V) and isinstance(base.ty, DictT):
            k = self.evz(sl, st, base.ty.key)
            self.ctx.oblige("safety", st, base.ty.fn("has")(base.t, k), line, "dict key present")
            return V(base.ty.val, base.ty.fn("get")(base.t, k))
        if isinstance(base, V) and isinstance(base.ty, UnionT):
            alts = [(tag, alt) for tag, alt in base.ty.alts.items() if alt is not None and alt is not NONE]
            if len(alts) == 1:
                tag, alt = alts[0]
                self.ctx.oblige("safety", st, base.ty.is_(base.t, tag), line, "subscript of optional")
                return self.subscript(V(alt, base.ty.val(base.t, tag)), sl, st, node)
            return self.subscript(self.narrow(base, st, lambda a: isinstance(a, (DictT, ListT, SeqT, TupleT, RecT)) or a is STR,
                                              line, "subscript"), sl, st, node)
        i = self.evz(sl, st, INT)
        val, ok = index(base, z3.simplify(i))
        self.ctx.oblige("safety", st, ok, line, "index in range")
        if val is None:
            raise Unsupported("constant index out of range (line %d)" % line)
        return val

    def enum_key(self, node, st, rty):
        """(key value, [(python member, field)]) when `node` is a non-constant enum value indexing a record whose fields are
        the enum's members (all of one type); None when the key is a constant"""
        if isinstance(node, ast.Constant):
            return None
        v = self.ev(node, st)
        if not (isinstance(v, V) and isinstance(v.ty, EnumT)):
            return None
        sv = z3.simplify(v.t)
        for pv in v.ty.values:
            if sv.eq(v.ty.const(pv)):
                return None
        fields = []
        for pv in v.ty.values:
            f = rty.field_of_key(pv)
            if f is None:
                # a dict literal without an entry for this member: indexing with it is a KeyError -> safety obligation
                if not self.ctx.spec_mode:
                    self.ctx.oblige("safety", st, v.t != v.ty.const(pv), getattr(node, "lineno", 0),
                                    "key %r is not in the mapping" % (pv,))
                continue
            fields.append((pv, f))
        if not fields:
            raise Unsupported("record %s has no field for any member of %s" % (rty, v.ty))
        if len({id(rty.fields[f]) for _, f in fields}) != 1:
            raise Unsupported("record %s indexed by a symbolic key has fields of different types" % rty)
        return v, fields

    def const_key(self, node, st):
        """python constant used as a record key (string literal or enum member)"""
        if isinstance(node, ast.Constant):
            return node.value
        v = self.ev(node, st)
        if isinstance(v, V) and isinstance(v.ty, EnumT):
            s = z3.simplify(v.t)
            for pv in v.ty.values:
                if s.eq(v.ty.const(pv)):
                    return pv
        raise Unsupported("non-constant record key (line %d)" % getattr(node, "lineno", 0))

    def ev_UnaryOp(self, node, st):
        v = self.ev(node.operand, st)
        if isinstance(node.op, ast.Not):
            return V(BOOL, z3.Not(truthy(v)))
        if isinstance(node.op, ast.USub):
            return V(INT, -coerce(v, INT).t)
        raise Unsupported("unary op")

    def ev_BoolOp(self, node, st):
        vals = []
        cur = st
        first = self.ev(node.values[0], cur)
        acc = first
        conds = []
        for nxt in node.values[1:]:
            t = truthy(acc)
            sub = cur.copy()
            sub.assume(t if isinstance(node.op, ast.And) else z3.Not(t))
            sub.pre = cur.pre
            n_sub = len(sub.pc)
            rhs = self.ev(nxt, sub)
            guards = [(tt if isinstance(node.op, ast.And) else z3.Not(tt)) for tt, _, _ in conds] + \
                     [t if isinstance(node.op, ast.And) else z3.Not(t)]
            for f in sub.pc[n_sub:]:
                st.assume(z3.Implies(z3.And(*guards), f))
            conds.append((t, acc, rhs))
            # python value semantics: and -> (rhs if truthy(acc) else acc); or -> (acc if truthy(acc) else rhs)
            try:
                if isinstance(node.op, ast.Or) and isinstance(acc, PyGuard):
                    # (c and v) or rhs: when the left side is truthy its value is v
                    acc = ite(t, acc.val, rhs)
                elif isinstance(node.op, ast.And) and isinstance(acc, V) and acc.ty is BOOL and isinstance(lift(rhs), V) \
                        and lift(rhs).ty is not BOOL:
                    acc = PyGuard(t, lift(rhs))
                else:
                    acc = ite(t, rhs, acc) if isinstance(node.op, ast.And) else ite(t, acc, rhs)
            except Unsupported:
                # fall back to boolean result (sufficient in test positions)
                tr = truthy(rhs)
                acc = V(BOOL, z3.And(t, tr) if isinstance(node.op, ast.And) else z3.Or(t, tr))
            cur = sub
        return acc

    def ev_NamedExpr(self, node, st):
        # (name := value): bind in the current state, the expression's value is the bound value
        v = self.ev(node.value, st)
        self.assign_to(node.target, v, st)
        return st.env[node.target.id] if isinstance(node.target, ast.Name) else v

    def ev_IfExp(self, node, st):
        c = truthy(self.ev(node.test, st))
        s1 = st.copy().assume(c)
        s2 = st.copy().assume(z3.Not(c))
        n0 = len(st.pc)
        if z3.is_true(z3.simplify(c)):
            r = self.ev(node.body, s1)
            self._keep_facts(st, s1, n0 + 1, None)
            return r
        if z3.is_false(z3.simplify(c)):
            r = self.ev(node.orelse, s2)
            self._keep_facts(st, s2, n0 + 1, None)
            return r
        a = self.ev(node.body, s1)
        b = self.ev(node.orelse, s2)
        # facts learnt while evaluating a branch (postconditions of called contracts, ...) hold under the branch condition
        self._keep_facts(st, s1, n0 + 1, c)
        self._keep_facts(st, s2, n0 + 1, z3.Not(c))
        return ite(c, a, b)

    @staticmethod
    def _keep_facts(st, sub, start, guard):
        for f in sub.pc[start:]:
            st.assume(f if guard is None else z3.Implies(guard, f))

    def ev_BinOp(self, node, st):
        a = self.ev(node.left, st)
        b = self.ev(node.right, st)
        return self.binop(node.op, a, b, st, node)

    def binop(self, op, a, b, st, node=None):
        a, b = lift(a), lift(b)
        seqlike = lambda x: isinstance(x, (PyTup, PyIte, PyCat)) or (isinstance(x, V) and (x.ty is STR or isinstance(x.ty, (SeqT, ListT, DictT))))
        if isinstance(op, ast.Add) and isinstance(a, V) and isinstance(b, V) and (a.ty is STR or b.ty is STR) and a.ty is not b.ty:
            # str + <union with a str alternative>: python raises TypeError unless the value is a str
            other, is_left = (a, True) if b.ty is STR else (b, False)
            if isinstance(other.ty, UnionT) and other.ty.tag_of_type(STR) is not None:
                tag = other.ty.tag_of_type(STR)
                self.ctx.oblige("safety", st, other.ty.is_(other.t, tag), getattr(node, "lineno", 0), "str concatenation with a non-str value")
                proj = V(STR, other.ty.val(other.t, tag))
                a, b = (proj, b) if is_left else (a, proj)
        if isinstance(op, ast.Add) and seqlike(a) and seqlike(b):
            return concat(a, b)
        if isinstance(op, ast.Mod) and isinstance(a, V) and a.ty is STR:
            return self.opaque_fmt("pct", a, b)
        if isinstance(op, ast.Mult) and isinstance(a, V) and a.ty is STR:
            return V(STR, str_repeat()(a.t, coerce(b, INT).t))
        if isinstance(op, ast.BitOr) and isinstance(a, V) and isinstance(a.ty, SetT):
            return V(a.ty, z3.SetUnion(a.t, coerce(b, a.ty).t))
        if isinstance(op, ast.BitAnd) and isinstance(a, V) and a.ty is BOOL:
            return V(BOOL, z3.And(a.t, coerce(b, BOOL).t))
        if isinstance(op, ast.BitOr) and isinstance(a, V) and a.ty is BOOL:
            return V(BOOL, z3.Or(a.t, coerce(b, BOOL).t))
        x, y = coerce(a, INT).t, coerce(b, INT).t
        if isinstance(op, ast.Add):
            return V(INT, x + y)
        if isinstance(op, ast.Sub):
            return V(INT, x - y)
        if isinstance(op, ast.Mult):
            return V(INT, x * y)
        if isinstance(op, ast.FloorDiv):
            # z3 integer division is floor division for a positive divisor; other signs are outside the subset
            self.ctx.oblige("safety", st, y > 0, getattr(node, "lineno", 0), "floor division by non-positive (unsupported sign)")
            return V(INT, x / y)
        if isinstance(op, ast.Mod):
            self.ctx.oblige("safety", st, y > 0, getattr(node, "lineno", 0), "modulus by non-positive (unsupported sign)")
            return V(INT, x % y)
        raise Unsupported("binary op %s" % type(op).__name__)

    def opaque_fmt(self, kind, fmt, args):
        """string formatting left opaque (A7): an uninterpreted function of the format and the argument tuple"""
        args = lift(args)
        items = args.items if isinstance(args, PyTup) else [args]

        def _as_text(x):
            # Optional[str] formats as the string itself or as the text "None": the same opaque function as for plain strings
            if isinstance(x, V) and isinstance(x.ty, UnionT) and set(x.ty.alts) == {"none", "some"} and x.ty.alts["some"] is STR:
                return V(STR, z3.If(x.ty.is_(x.t, "none"), z3.StringVal("None"), x.ty.val(x.t, "some")))
            return x
        items = [_as_text(x) for x in items]
        terms = [fmt.t] + [x.t for x in items]
        name = "fmt_%s_%s" % (kind, "_".join(x.ty.name for x in items))
        name = name.replace("[", "_").replace("]", "_")
        f = z3.Function(name, *([t.sort() for t in terms] + [z3.StringSort()]))
        return V(STR, f(*terms))

    def ev_Compare(self, node, st):
        left = self.ev(node.left, st)
        res = []
        for op, rn in zip(node.ops, node.comparators):
            right = self.ev(rn, st)
            res.append(self.compare(op, left, right, st, node))
            left = right
        return V(BOOL, z3.And(*res) if len(res) > 1 else res[0])

    def cursor_spec(self, name):
        cfg = (getattr(self.ctx.contract, "cursors", None) or {}).get(name)
        if cfg is None:
            raise Unsupported("%s is not a declared cursor" % name)
        return cfg

    def deref(self, cur, st, name=None):
        """the sub-dict a cursor points at: <get>(root, path)"""
        cfg = None
        for n, c in (getattr(self.ctx.contract, "cursors", None) or {}).items():
            if c["root"] == cur.root:
                cfg = c
        getf = lift_ns(self.ctx.ns[cfg["get"]])
        return getf.call(self, [st.env[cur.root], cur.path], {}, st, None)

    def compare(self, op, a, b, st, node=None):
        if isinstance(b, Cursor):
            b = self.deref(b, st)
        a, b = lift(a), lift(b)
        if isinstance(op, (ast.Eq, ast.Is)):
            return eq(a, b)
        if isinstance(op, (ast.NotEq, ast.IsNot)):
            return z3.Not(eq(a, b))
        if isinstance(op, (ast.In, ast.NotIn)) and isinstance(b, V) and isinstance(b.ty, UnionT):
            # membership in an Optional container: only meaningful for the container alternative (backed by a safety obligation)
            b = self.narrow(b, st, lambda alt: True, getattr(node, "lineno", 0), "membership test")
        if isinstance(op, ast.In):
            return contains(a, b)
        if isinstance(op, ast.NotIn):
            return z3.Not(contains(a, b))
        if isinstance(a, V) and a.ty is STR:
            x, y = a.t, coerce(b, STR).t
            return {ast.Lt: lambda: x < y, ast.LtE: lambda: x <= y, ast.Gt: lambda: y < x, ast.GtE: lambda: y <= x}[type(op)]()
        cmpf = getattr(a.ty, "lt_fn", None) if isinstance(a, V) else None
        if cmpf is not None:
            bb = coerce(b, a.ty)
            lt, le = cmpf(a.t, bb.t), z3.Or(cmpf(a.t, bb.t), a.t == bb.t)
            gt, ge = cmpf(bb.t, a.t), z3.Or(cmpf(bb.t, a.t), a.t == bb.t)
            return {ast.Lt: lt, ast.LtE: le, ast.Gt: gt, ast.GtE: ge}[type(op)]
        x, y = coerce(a, INT).t, coerce(b, INT).t
        return {ast.Lt: x < y, ast.LtE: x <= y, ast.Gt: x > y, ast.GtE: x >= y}[type(op)]

    # ---- comprehensions: all/any/list over one generator -> auto-generated recursive function
    def comp_fold(self, comp, st, mode):
        """mode in all|any|list|sum ; comp is GeneratorExp or ListComp with one `for`"""
        if len(comp.generators) != 1 or comp.generators[0].is_async:
            raise Unsupported("nested comprehension")
        g = comp.generators[0]
        if isinstance(g.iter, ast.Call) and isinstance(g.iter.func, ast.Name) and g.iter.func.id == "zip" and "zip" not in st.env \
                and len(g.iter.args) == 2 and not g.iter.keywords and mode in ("all", "any") and not g.ifs:
            return self.comp_fold_zip(comp, st, mode)
        if isinstance(g.iter, ast.Call) and isinstance(g.iter.func, ast.Name) and g.iter.func.id == "range" and "range" not in st.env \
                and len(g.iter.args) == 1 and not g.iter.keywords and mode == "list" and isinstance(g.target, ast.Name):
            return self.comp_fold_range(comp, st)
        it = self.iter_value(g.iter, st)
        if isinstance(it, PyTup):
            vals = []
            for item in it.items:
                sub = st.copy()
                self.bind_target(g.target, item, sub)
                conds = [truthy(self.ev(c, sub)) for c in g.ifs]
                vals.append((z3.And(*conds) if conds else z3.BoolVal(True), self.ev(comp.elt, sub)))
            if mode == "all":
                return V(BOOL, z3.And(*[z3.Implies(c, truthy(v)) for c, v in vals]) if vals else z3.BoolVal(True))
            if mode == "any":
                return V(BOOL, z3.Or(*[z3.And(c, truthy(v)) for c, v in vals]) if vals else z3.BoolVal(False))
            if mode == "list" and all(z3.is_true(c) for c, _ in vals):
                return PyTup([v for _, v in vals], True)
            raise Unsupported("comprehension over literal with filter")
        view = None
        if isinstance(it, DictItems):
            view = it.mode
            it = it.d
        if not isinstance(it.ty, (ListT, SeqT, DictT)) and it.ty is not STR:
            raise Unsupported("comprehension over %s" % it.ty)
        # free variables: every V in env whose name occurs in the comprehension
        used = set()
        for part in [comp.elt] + list(g.ifs):
            used |= {n.id for n in ast.walk(part) if isinstance(n, ast.Name)}
        names = sorted(used & set(st.env))
        tnames = {n.id for n in ast.walk(g.target) if isinstance(n, ast.Name)}
        free = [(n, st.env[n]) for n in names if n not in tnames and isinstance(st.env[n], V) and st.env[n].ty is not NONE]
        free = [(n, self._prenarrow(v, st, comp)) for n, v in free]
        import hashlib as _h
        # the declared result type (if any) is part of the identity: the same text with another element type is another function
        # (for list comprehensions the RESULT TYPE is part of the identity - the same text with another element type is another
        #  function - and is only known after the element has been typed, see below)
        sig = "%s|%s|%s|%s|%s|%s|%s" % (mode, ast.unparse(comp.elt), ast.unparse(g.target), [ast.unparse(c) for c in g.ifs],
                                        it.ty.name, [(n, v.ty.name) for n, v in free], view)
        fname = "comp_" + _h.md5(sig.encode()).hexdigest()[:10]
        if mode != "list" and fname in _comp_cache:
            f, rty = _comp_cache[fname]
            return V(rty, f(*([it.t] + [v.t for _, v in free])))
        params = [z3.Const(fname + "_it", it.ty.sort())] + [z3.Const(fname + "_" + n, v.ty.sort()) for n, v in free]
        sub = State({n: V(v.ty, p) for (n, v), p in zip(free, params[1:])})
        for n, v in st.env.items():
            if n not in sub.env and not isinstance(v, V):
                sub.env[n] = v
        pv = V(it.ty, params[0])
        nonempty, hd, tl = iter_head_tail(DictItems(pv, view) if view else pv)
        if isinstance(tl, DictItems):
            tl = tl.d
        self.bind_target(g.target, hd, sub)
        old_spec = self.ctx.spec_mode
        self.ctx.spec_mode = True
        try:
            conds = [truthy(self.ev(c, sub)) for c in g.ifs]
            cond = z3.And(*conds) if conds else z3.BoolVal(True)
            elt = self.ev(comp.elt, sub)
            if mode in ("all", "any"):
                f = rec_function(fname, *([p.sort() for p in params] + [z3.BoolSort()]))
                rec = f(*([tl.t] + params[1:]))
                e = truthy(elt)
                if mode == "all":
                    body = z3.If(nonempty, z3.And(z3.Implies(cond, e), rec), True)
                else:
                    body = z3.If(nonempty, z3.Or(z3.And(cond, e), rec), False)
                add_definition(f, params, body)
                _comp_cache[fname] = (f, BOOL)
                return V(BOOL, f(*([it.t] + [v.t for _, v in free])))
            if mode == "sum":
                f = rec_function(fname, *([p.sort() for p in params] + [z3.IntSort()]))
                rec = f(*([tl.t] + params[1:]))
                add_definition(f, params, z3.If(nonempty, z3.If(cond, coerce(elt, INT).t, 0) + rec, 0))
                _comp_cache[fname] = (f, INT)
                return V(INT, f(*([it.t] + [v.t for _, v in free])))
            if mode == "list":
                ct = getattr(self.ctx.contract, "comp_types", None) or {}
                rty = ct.get(getattr(comp, "_comp_no", None)) or ct.get("*")
                if rty is None:
                    rty = getattr(self, "ret_ty", None) if isinstance(getattr(self, "ret_ty", None), (SeqT, ListT)) else None
                    if rty is not None:
                        # the enclosing function's result type is only a guess for a nested comprehension: it must fit the elements
                        try:
                            coerce(elt, rty.elem)
                        except Unsupported:
                            rty = None
                if rty is None and isinstance(elt, V) and not isinstance(elt.ty, (ListT, DictT)):
                    rty = SeqT(elt.ty)
                if rty is None:
                    raise Unsupported("list comprehension #%s at line %d needs a declared type (comp_types)"
                                      % (getattr(comp, "_comp_no", "?"), comp.lineno))
                fkey = fname + "_" + _h.md5(rty.name.encode()).hexdigest()[:6]
                if fkey in _comp_cache:
                    f, rty = _comp_cache[fkey]
                    return V(rty, f(*([it.t] + [v.t for _, v in free])))
                params = [z3.Const(fkey + "_it", it.ty.sort())] + [z3.Const(fkey + "_" + n, v.ty.sort()) for n, v in free]
                # re-translate the body over the parameters of the final name (cheap; keeps symbol names unique per function)
                sub = State({n: V(v.ty, p) for (n, v), p in zip(free, params[1:])})
                for n, v in st.env.items():
                    if n not in sub.env and not isinstance(v, V):
                        sub.env[n] = v
                pv = V(it.ty, params[0])
                nonempty, hd, tl = iter_head_tail(DictItems(pv, view) if view else pv)
                if isinstance(tl, DictItems):
                    tl = tl.d
                self.bind_target(g.target, hd, sub)
                conds = [truthy(self.ev(c, sub)) for c in g.ifs]
                cond = z3.And(*conds) if conds else z3.BoolVal(True)
                elt = self.ev(comp.elt, sub)
                fname = fkey
                f = rec_function(fname, *([p.sort() for p in params] + [rty.sort()]))
                rec = f(*([tl.t] + params[1:]))
                e = coerce(elt, rty.elem).t
                if isinstance(rty, SeqT):
                    empty = z3.Empty(rty.sort())
                    body = z3.If(nonempty, z3.If(cond, z3.Concat(z3.Unit(e), rec), rec), empty)
                else:
                    body = z3.If(nonempty, z3.If(cond, rty.cons(e, rec), rec), rty.nil)
                add_definition(f, params, body)
                _comp_cache[fname] = (f, rty)
                return V(rty, f(*([it.t] + [v.t for _, v in free])))
        finally:
            self.ctx.spec_mode = old_spec
        raise Unsupported("comprehension mode %s" % mode)

    def _prenarrow(self, v, st, node):
        """a union-typed variable captured by a comprehension: the body is translated without the path condition, so if the path
        condition leaves exactly one alternative (after an isinstance test) the captured value is that alternative"""
        if not (isinstance(v, V) and isinstance(v.ty, UnionT)) or self.ctx.spec_mode:
            return v
        alts = [(tag, alt) for tag, alt in v.ty.alts.items() if alt is not None and alt is not NONE]
        live = [(tag, alt) for tag, alt in alts if self.ctx.feasible(list(st.pc) + [v.ty.is_(v.t, tag)])]
        nullary_live = [tag for tag, alt in v.ty.alts.items() if (alt is None or alt is NONE)
                        and self.ctx.feasible(list(st.pc) + [v.ty.is_(v.t, tag)])]
        if len(live) == 1 and not nullary_live:
            tag, alt = live[0]
            self.ctx.oblige("safety", st, v.ty.is_(v.t, tag), getattr(node, "lineno", 0), "captured union value is a %s" % alt)
            return V(alt, v.ty.val(v.t, tag))
        return v

    def comp_fold_range(self, comp, st):
        """[E for i in range(N) if C]  (list mode): a recursive function of the index"""
        g = comp.generators[0]
        n_v = coerce(self.ev(g.iter.args[0], st), INT)
        used = set()
        for part in [comp.elt] + list(g.ifs):
            used |= {n.id for n in ast.walk(part) if isinstance(n, ast.Name)}
        tname = g.target.id
        free = [(n, self._prenarrow(st.env[n], st, comp)) for n in sorted(used & set(st.env))
                if n != tname and isinstance(st.env[n], V) and st.env[n].ty is not NONE]
        ct = getattr(self.ctx.contract, "comp_types", None) or {}
        rty = ct.get(getattr(comp, "_comp_no", None)) or ct.get("*")
        if rty is None:
            rty = getattr(self, "ret_ty", None) if isinstance(getattr(self, "ret_ty", None), (SeqT, ListT)) else None
        import hashlib as _h
        sig = "range|%s|%s|%s|%s|%s" % (ast.unparse(comp.elt), tname, [ast.unparse(c) for c in g.ifs], [(n, v.ty.name) for n, v in free],
                                         rty.name if rty is not None else None)
        fname = "compr_" + _h.md5(sig.encode()).hexdigest()[:10]
        if fname not in _comp_cache:
            pi, pn = z3.Int(fname + "_i"), z3.Int(fname + "_n")
            fps = [z3.Const(fname + "_" + n, v.ty.sort()) for n, v in free]
            sub = State({n: V(v.ty, p) for (n, v), p in zip(free, fps)})
            for n, v in st.env.items():
                if n not in sub.env and not isinstance(v, V):
                    sub.env[n] = v
            sub.env[tname] = V(INT, pi)
            old_spec = self.ctx.spec_mode
            self.ctx.spec_mode = True
            try:
                conds = [truthy(self.ev(c, sub)) for c in g.ifs]
                cond = z3.And(*conds) if conds else z3.BoolVal(True)
                elt = self.ev(comp.elt, sub)
            finally:
                self.ctx.spec_mode = old_spec
            if rty is None and isinstance(elt, V) and not isinstance(elt.ty, (ListT, DictT)):
                rty = SeqT(elt.ty)
            if rty is None:
                raise Unsupported("list comprehension over range at line %d needs a declared type (comp_types)" % comp.lineno)
            f = rec_function(fname, *([z3.IntSort(), z3.IntSort()] + [p.sort() for p in fps] + [rty.sort()]))
            rec = f(*([pi + 1, pn] + fps))
            e = coerce(elt, rty.elem).t
            if isinstance(rty, SeqT):
                body = z3.If(z3.And(pi >= 0, pi < pn), z3.If(cond, z3.Concat(z3.Unit(e), rec), rec), z3.Empty(rty.sort()))
            else:
                body = z3.If(z3.And(pi >= 0, pi < pn), z3.If(cond, rty.cons(e, rec), rec), rty.nil)
            add_definition(f, [pi, pn] + fps, body)
            _comp_cache[fname] = (f, rty)
        f, rty = _comp_cache[fname]
        return V(rty, f(*([z3.IntVal(0), n_v.t] + [v.t for _, v in free])))

    def comp_fold_zip(self, comp, st, mode):
        """all(E for x in zip(A, B)) / any(...) over two sequences: pairwise, up to the shorter one"""
        g = comp.generators[0]
        a = lift(self.ev(g.iter.args[0], st))
        b = lift(self.ev(g.iter.args[1], st))
        if not (isinstance(a, V) and isinstance(b, V) and isinstance(a.ty, SeqT) and isinstance(b.ty, SeqT)):
            raise Unsupported("comprehension over zip of %r, %r" % (a, b))
        used = {n.id for n in ast.walk(comp.elt) if isinstance(n, ast.Name)}
        tnames = {n.id for n in ast.walk(g.target) if isinstance(n, ast.Name)}
        free = [(n, st.env[n]) for n in sorted(used & set(st.env)) if n not in tnames and isinstance(st.env[n], V) and st.env[n].ty is not NONE]
        import hashlib as _h
        sig = "zip|%s|%s|%s|%s|%s|%s" % (mode, ast.unparse(comp.elt), ast.unparse(g.target), a.ty.name, b.ty.name, [(n, v.ty.name) for n, v in free])
        fname = "compz_" + _h.md5(sig.encode()).hexdigest()[:10]
        if fname not in _comp_cache:
            pa, pb = z3.Const(fname + "_a", a.ty.sort()), z3.Const(fname + "_b", b.ty.sort())
            fps = [z3.Const(fname + "_" + n, v.ty.sort()) for n, v in free]
            sub = State({n: V(v.ty, p) for (n, v), p in zip(free, fps)})
            for n, v in st.env.items():
                if n not in sub.env and not isinstance(v, V):
                    sub.env[n] = v
            self.bind_target(g.target, PyTup([V(a.ty.elem, pa[0]), V(b.ty.elem, pb[0])]), sub)
            old_spec = self.ctx.spec_mode
            self.ctx.spec_mode = True
            try:
                e = truthy(self.ev(comp.elt, sub))
            finally:
                self.ctx.spec_mode = old_spec
            f = rec_function(fname, *([pa.sort(), pb.sort()] + [p.sort() for p in fps] + [z3.BoolSort()]))
            nonempty = z3.And(z3.Length(pa) > 0, z3.Length(pb) > 0)
            rec = f(*([z3.SubSeq(pa, 1, z3.Length(pa) - 1), z3.SubSeq(pb, 1, z3.Length(pb) - 1)] + fps))
            body = z3.If(nonempty, z3.And(e, rec), True) if mode == "all" else z3.If(nonempty, z3.Or(e, rec), False)
            add_definition(f, [pa, pb] + fps, body)
            _comp_cache[fname] = (f, BOOL)
        f, _ = _comp_cache[fname]
        return V(BOOL, f(*([a.t, b.t] + [v.t for _, v in free])))

    def ev_ListComp(self, node, st):
        return self.comp_fold(node, st, "list")

    def ev_GeneratorExp(self, node, st):
        return self.comp_fold(node, st, "list")

    def _pykey(self, v):
        v = lift(v)
        if isinstance(v, V):
            t = z3.simplify(v.t)
            if v.ty is STR and z3.is_string_value(t):
                return t.as_string()
            if v.ty is INT and z3.is_int_value(t):
                return t.as_long()
            if isinstance(v.ty, EnumT):
                for pv in v.ty.values:
                    if t.eq(v.ty.const(pv)):
                        return pv
        raise Unsupported("dict key is not a constant")

    def ev_Dict(self, node, st):
        items = {}
        for k, v in zip(node.keys, node.values):
            if k is None:
                raise Unsupported("dict unpacking")
            items[self._pykey(self.ev(k, st))] = self.ev(v, st)
        return PyDict(items)

    def ev_DictComp(self, node, st):
        if len(node.generators) != 1:
            raise Unsupported("dict comprehension shape")
        g = node.generators[0]
        if isinstance(g.iter, ast.Call) and isinstance(g.iter.func, ast.Name) and g.iter.func.id == "enumerate" and not g.ifs \
                and isinstance(g.target, (ast.Tuple, ast.List)) and len(g.target.elts) == 2 \
                and all(isinstance(e, ast.Name) for e in g.target.elts) \
                and isinstance(node.key, ast.Name) and isinstance(node.value, ast.Name) \
                and node.key.id == g.target.elts[1].id and node.value.id == g.target.elts[0].id:
            # {k: i for (i, k) in enumerate(d)}: position of every key
            d = lift(self.ev(g.iter.args[0], st))
            rty = getattr(self.ctx.contract, "index_map_type", None)
            if isinstance(d, V) and isinstance(d.ty, DictT) and rty is not None:
                key = "idxmap_%s_%s" % (d.ty.name, rty.name)
                if key not in _comp_cache:
                    f = rec_function(key, d.ty.sort(), z3.IntSort(), rty.sort())
                    dd = z3.Const(key + "_d", d.ty.sort())
                    ii = z3.Int(key + "_i")
                    add_definition(f, [dd, ii], z3.If(d.ty.is_nil(dd), rty.nil, rty.cons(d.ty.k(dd), ii, f(d.ty.tl(dd), ii + 1))))
                    _comp_cache[key] = (f, rty)
                return V(rty, _comp_cache[key][0](d.t, z3.IntVal(0)))
            raise Unsupported("index-map comprehension needs contract.index_map_type")
        it = self.ev(g.iter, st)
        if isinstance(it, DictItems) and it.mode == "items":
            return self.dict_comp_symbolic(node, it.d, st)
        if g.ifs:
            raise Unsupported("dict comprehension shape")
        it = lift(it)
        if not isinstance(it, PyTup):
            raise Unsupported("dict comprehension over a symbolic iterable")
        items = {}
        for x in it.items:
            sub = st.copy()
            self.bind_target(g.target, x, sub)
            items[self._pykey(self.ev(node.key, sub))] = self.ev(node.value, sub)
        return PyDict(items)

    def dict_comp_symbolic(self, node, d, st):
        """{k: e for k, v in d.items() if c} over a dict with distinct keys, the key expression being the source key:
        a filter/map that keeps the source order (fold function generated from the text, like list comprehensions)"""
        g = node.generators[0]
        if not (isinstance(g.target, (ast.Tuple, ast.List)) and len(g.target.elts) == 2 and isinstance(g.target.elts[0], ast.Name)
                and isinstance(node.key, ast.Name) and node.key.id == g.target.elts[0].id):
            raise Unsupported("dict comprehension whose key is not the source key")
        used = set()
        for part in [node.value] + list(g.ifs):
            used |= {n.id for n in ast.walk(part) if isinstance(n, ast.Name)}
        tnames = {n.id for n in ast.walk(g.target) if isinstance(n, ast.Name)}
        free = [(n, st.env[n]) for n in sorted(used & set(st.env)) if n not in tnames and isinstance(st.env[n], V) and st.env[n].ty is not NONE]
        import hashlib as _h
        sig = "dict|%s|%s|%s|%s|%s" % (ast.unparse(node.value), ast.unparse(g.target), [ast.unparse(c) for c in g.ifs], d.ty.name,
                                       [(n, v.ty.name) for n, v in free])
        fname = "dcomp_" + _h.md5(sig.encode()).hexdigest()[:10]
        T = d.ty
        if fname not in _comp_cache:
            params = [z3.Const(fname + "_it", T.sort())] + [z3.Const(fname + "_" + n, v.ty.sort()) for n, v in free]
            sub = State({n: V(v.ty, p) for (n, v), p in zip(free, params[1:])})
            for n, v in st.env.items():
                if n not in sub.env and not isinstance(v, V):
                    sub.env[n] = v
            pv = V(T, params[0])
            self.bind_target(g.target, PyTup([V(T.key, T.k(pv.t)), V(T.val, T.v(pv.t))]), sub)
            old_spec = self.ctx.spec_mode
            self.ctx.spec_mode = True
            try:
                conds = [truthy(self.ev(c, sub)) for c in g.ifs]
                cond = z3.And(*conds) if conds else z3.BoolVal(True)
                val = coerce(self.ev(node.value, sub), T.val)
            finally:
                self.ctx.spec_mode = old_spec
            f = rec_function(fname, *([p.sort() for p in params] + [T.sort()]))
            rec = f(*([T.tl(pv.t)] + params[1:]))
            add_definition(f, params, z3.If(T.is_nil(pv.t), T.nil, z3.If(cond, T.cons(T.k(pv.t), val.t, rec), rec)))
            _comp_cache[fname] = (f, T)
        f, _ = _comp_cache[fname]
        return V(T, f(*([d.t] + [v.t for _, v in free])))

    def ev_Lambda(self, node, st):
        env = dict(st.env)

        def call(ex, args, kwargs, st2, cnode):
            sub = st2.copy()
            sub.env = dict(env)
            for a, v in zip(node.args.args, args):
                sub.env[a.arg] = v
            return ex.ev(node.body, sub)
        return PyFn("<lambda>", call)

    def iter_value(self, node, st):
        """value iterated by a for/comprehension: list-like V, PyTup, or handled wrappers"""
        v = self.ev(node, st)
        v = lift(v)
        if isinstance(v, V) and isinstance(v.ty, UnionT):
            raise Unsupported("iteration over union")
        return v

    # ---- calls
    def ev_Call(self, node, st):
        if id(node) in st.pre:
            return st.pre[id(node)]
        f = node.func
        if isinstance(f, ast.Attribute) and f.attr == "__class__" and not node.args and not node.keywords:
            # x.__class__(): an empty container of the same kind (odict() for a config tree)
            base = lift(self.ev(f.value, st))
            if isinstance(base, V) and isinstance(base.ty, DictT):
                return V(base.ty, base.ty.nil)
            if isinstance(base, V) and isinstance(base.ty, SeqT):
                return V(base.ty, z3.Empty(base.ty.sort()))
            raise Unsupported("%s.__class__() (line %d)" % (ast.unparse(f.value), node.lineno))
        # method call
        if isinstance(f, ast.Attribute):
            recv_node = f.value
            # spec/namespace objects first (e.g. Op.ADDED is attribute not call; module.func)
            try:
                recv = self.ev(recv_node, st)
            except Unsupported:
                raise
            if isinstance(recv, PyConstObj):
                target = self.getattr_(recv, f.attr, st, node)
                return self.call_value(target, node, st)
            return self.call_method(recv, recv_node, f.attr, node, st)
        if isinstance(f, ast.Name) and f.id == "filter" and "filter" not in st.env and len(node.args) == 2 and not node.keywords \
                and isinstance(node.args[0], ast.Lambda) and len(node.args[0].args.args) == 1 and not node.args[0].args.defaults:
            # filter(lambda x: C, xs)  ==  [x for x in xs if C]
            lam = node.args[0]
            name = lam.args.args[0].arg
            comp = ast.ListComp(elt=ast.Name(id=name, ctx=ast.Load()), generators=[ast.comprehension(
                target=ast.Name(id=name, ctx=ast.Store()), iter=node.args[1], ifs=[lam.body], is_async=0)])
            ast.copy_location(comp, node)
            ast.fix_missing_locations(comp)
            return self.ev(comp, st)
        if isinstance(f, ast.Name) and f.id == "map" and "map" not in st.env and len(node.args) == 2 and not node.keywords \
                and isinstance(node.args[0], ast.Lambda) and len(node.args[0].args.args) == 1 and not node.args[0].args.defaults:
            # map(lambda x: E, xs)  ==  [E for x in xs]   (same generated fold function as that comprehension)
            lam = node.args[0]
            comp = ast.ListComp(elt=lam.body, generators=[ast.comprehension(
                target=ast.Name(id=lam.args.args[0].arg, ctx=ast.Store()), iter=node.args[1], ifs=[], is_async=0)])
            ast.copy_location(comp, node)
            ast.fix_missing_locations(comp)
            return self.ev(comp, st)
        target = self.ev(f, st)
        return self.call_value(target, node, st)

    def eval_args(self, node, st):
        args = []
        for a in node.args:
            if isinstance(a, ast.Starred):
                v = self.ev(a.value, st)
                if isinstance(v, PyTup):
                    args.extend(v.items)
                else:
                    args.append(("*", v))
            else:
                args.append(self.ev(a, st))
        kwargs = {}
        for k in node.keywords:
            if k.arg is None:
                kwargs["**"] = self.ev(k.value, st)
            else:
                kwargs[k.arg] = self.ev(k.value, st)
        return args, kwargs

    def call_value(self, target, node, st):
        if isinstance(target, PyFn):
            # builtins that need the raw AST (all/any over generator expressions)
            if getattr(target, "raw", False):
                return target.call(self, node, st)
            args, kwargs = self.eval_args(node, st)
            return target.call(self, args, kwargs, st, node)
        raise Unsupported("call of %r at line %d" % (target, node.lineno))

    def call_method(self, recv, recv_node, name, node, st):
        recv = lift(recv)
        line = node.lineno
        args, kwargs = self.eval_args(node, st)
        if name in ("append", "extend", "pop", "insert", "sort", "clear", "update", "add", "setdefault", "remove", "add_cmd"):
            self.check_mutation(recv_node, st, structural=True)
            for a in node.args:
                self.note_escape(a, st)
                if isinstance(a, ast.Name) and isinstance(st.env.get(a.id), V) and st.env[a.id].ty.mutable:
                    r = recv_node
                    while isinstance(r, (ast.Subscript, ast.Attribute)):
                        r = r.value
                    if isinstance(r, ast.Name):
                        st.env["__childshared__"] = frozenset(set(st.env.get("__childshared__", ())) | {r.id})
        if isinstance(recv, PyTup) and recv.is_list and name == "append":
            self.assign_to(recv_node, PyTup(recv.items + [args[0]], True), st)
            return NONE_V
        if not isinstance(recv, V):
            raise Unsupported("method %s on literal (line %d)" % (name, line))
        ty = recv.ty
        if isinstance(ty, UnionT) and ty.tag_of_type(STR) is not None and name in (
                "startswith", "endswith", "strip", "lower", "format", "replace", "split"):
            tag = ty.tag_of_type(STR)
            self.ctx.oblige("safety", st, ty.is_(recv.t, tag), line, "str method on union value")
            recv = V(STR, ty.val(recv.t, tag))
            ty = STR
        if isinstance(ty, UnionT):
            # a method that exactly one alternative's type declares: the value must be that alternative (safety obligation)
            owners = [(tag, alt) for tag, alt in ty.alts.items() if alt is not None and name in (getattr(alt, "methods", None) or {})]
            if len(owners) == 1:
                tag, alt = owners[0]
                self.ctx.oblige("safety", st, ty.is_(recv.t, tag), line, "method .%s on a union value that is not a %s" % (name, alt))
                recv = V(alt, ty.val(recv.t, tag))
                ty = alt
            elif name in ("keys", "items", "values", "get"):
                recv = self.narrow(recv, st, lambda a: isinstance(a, (DictT, RecT)), line, "method .%s" % name)
                ty = recv.ty
        meths = getattr(ty, "methods", None)
        if meths and name in meths:
            return meths[name](self, recv, recv_node, args, kwargs, st, node)
        if ty is STR:
            return self.str_method(recv, name, args, st, node)
        if isinstance(ty, (SeqT, ListT)):
            if name == "append":
                self.assign_to(recv_node, concat(recv, PyTup([args[0]], True)), st)
                return NONE_V
            if name == "extend":
                self.assign_to(recv_node, concat(recv, args[0]), st)
                return NONE_V
            if name == "pop" and not args and isinstance(ty, SeqT):
                n = z3.Length(recv.t)
                self.ctx.oblige("safety", st, n > 0, line, "pop from empty list")
                self.assign_to(recv_node, V(ty, z3.SubSeq(recv.t, 0, n - 1)), st)
                return V(ty.elem, recv.t[n - 1])
            if name == "clear":
                self.assign_to(recv_node, coerce(PyTup([], True), ty), st)
                return NONE_V
            if name == "copy":
                return recv
            if name == "index" or name == "count":
                raise Unsupported("list.%s" % name)
        if isinstance(ty, SetT):
            if name == "update" and len(args) == 1:
                self.assign_to(recv_node, V(ty, z3.SetUnion(recv.t, coerce(args[0], ty).t)), st)
                return NONE_V
            if name == "add" and len(args) == 1:
                self.assign_to(recv_node, V(ty, z3.SetAdd(recv.t, coerce(args[0], ty.elem).t)), st)
                return NONE_V
            if name in ("union",) and len(args) == 1:
                return V(ty, z3.SetUnion(recv.t, coerce(args[0], ty).t))
            if name == "difference" and len(args) == 1:
                return V(ty, z3.SetDifference(recv.t, coerce(args[0], ty).t))
            if name == "intersection" and len(args) == 1:
                return V(ty, z3.SetIntersect(recv.t, coerce(args[0], ty).t))
        if isinstance(ty, DictT):
            has, get = ty.fn("has"), ty.fn("get")
            if name == "get":
                k = coerce(args[0], ty.key).t
                dflt = args[1] if len(args) > 1 else NONE_V
                return ite(has(recv.t, k), V(ty.val, get(recv.t, k)), dflt)
            if name == "items":
                return DictItems(recv)
            if name == "values":
                return DictItems(recv, "values")
            if name == "keys":
                return recv if getattr(ty, "keys_as_self", True) else None
            if name == "copy":
                return recv
            if name == "pop":
                k = coerce(args[0], ty.key).t
                if len(args) < 2:
                    self.ctx.oblige("safety", st, has(recv.t, k), line, "dict.pop key present")
                    res = V(ty.val, get(recv.t, k))
                else:
                    try:
                        res = ite(has(recv.t, k), V(ty.val, get(recv.t, k)), args[1])
                    except Unsupported:
                        res = PyPoison("the result of dict.pop(k, default) with a default of another type (line %d)" % line)
                self.assign_to(recv_node, V(ty, ty.fn("delete")(recv.t, k)), st)
                return res
        if isinstance(ty, RecT):
            if name == "get":
                key = args[0]
                k = z3.simplify(key.t) if isinstance(key, V) else None
                if isinstance(key, V) and key.ty is STR and z3.is_string_value(k):
                    fld = ty.field_of_key(k.as_string())
                elif isinstance(key, V) and isinstance(key.ty, EnumT):
                    fld = None
                    for pv in key.ty.values:
                        if k.eq(key.ty.const(pv)):
                            fld = ty.field_of_key(pv)
                else:
                    fld = None
                if fld is not None:
                    return V(ty.fields[fld], ty.get(recv.t, fld))
                optional = getattr(ty, "absent_keys", ())
                if isinstance(key, V) and key.ty is STR and z3.is_string_value(k) and k.as_string() in optional:
                    return args[1] if len(args) > 1 else NONE_V
                raise Unsupported("record.get with unknown key (line %d)" % line)
            if name == "copy":
                return recv
            if name == "keys":
                ks = getattr(ty, "key_list", None)
                if ks is not None:
                    return lift(list(ks))
        raise Unsupported("method .%s on %s (line %d)" % (name, ty, line))

    def str_method(self, recv, name, args, st, node):
        s = recv.t
        if name in ("startswith", "endswith"):
            f = z3.PrefixOf if name == "startswith" else z3.SuffixOf
            a = lift(args[0])
            if isinstance(a, PyTup):
                return V(BOOL, z3.Or(*[f(coerce(x, STR).t, s) for x in a.items]) if a.items else z3.BoolVal(False))
            if isinstance(a, V) and isinstance(a.ty, SeqT) and a.ty.elem is STR:
                return V(BOOL, any_affix(name)(s, a.t))
            return V(BOOL, f(coerce(a, STR).t, s))
        if name == "strip" and not args:
            return V(STR, str_strip()(s))
        if name == "lower" and not args:
            return V(STR, str_lower()(s))
        if name == "format":
            return self.opaque_fmt("format", recv, PyTup([a[1] if isinstance(a, tuple) else a for a in args]))
        if name == "replace" and len(args) == 2:
            return V(STR, z3.Function("str_replace_all", z3.StringSort(), z3.StringSort(), z3.StringSort(), z3.StringSort())
                     (s, coerce(args[0], STR).t, coerce(args[1], STR).t))
        if name == "count" and len(args) == 1:
            # number of non-overlapping occurrences: left uninterpreted (A7), only its sign is used
            c = z3.Function("str_count", z3.StringSort(), z3.StringSort(), z3.IntSort())(s, coerce(args[0], STR).t)
            st.assume(c >= 0)
            return V(INT, c)
        if name == "join":
            a = lift(args[0])
            if isinstance(a, V) and isinstance(a.ty, SeqT) and a.ty.elem is STR:
                return V(STR, z3.Function("str_join", z3.StringSort(), a.ty.sort(), z3.StringSort())(s, a.t))
            if isinstance(a, PyTup):
                a = coerce(a, SEQ_STR)
                return V(STR, z3.Function("str_join", z3.StringSort(), a.ty.sort(), z3.StringSort())(s, a.t))
            # any other iterable of strings: the joined text is left unconstrained (an over-approximation)
            return fresh(STR, "joined")
        raise Unsupported("str.%s (line %d)" % (name, node.lineno))

    # ---- lvalues
    def note_alias(self, target, value_node, val, st):
        """`x = y` with a mutable value: both names denote the same object (whole alias: no in-place mutation through either).
        `x = y[k]` / `x = y.a` / `c[i] = y[k]`: a CHILD of y is shared: x (as a whole) is aliased; y - and a container the child was
        stored into - may still have entries replaced (`y[k2] = v`, `y.pop(k)`), but nothing below an entry may be mutated in place"""
        if not (isinstance(val, V) and val.ty.mutable):
            return
        n = value_node
        while isinstance(n, (ast.Subscript, ast.Attribute)):
            n = n.value
        if isinstance(n, ast.Name) and isinstance(value_node, (ast.Name, ast.Subscript, ast.Attribute)):
            if isinstance(value_node, ast.Subscript) and isinstance(value_node.slice, ast.Slice):
                return
            al = set(st.env.get("__aliased__", ()))
            cs = set(st.env.get("__childshared__", ()))
            if isinstance(value_node, ast.Name):
                al.add(n.id)
            else:
                cs.add(n.id)
            if isinstance(target, ast.Name):
                al.add(target.id)
            else:
                r = target
                while isinstance(r, (ast.Subscript, ast.Attribute)):
                    r = r.value
                if isinstance(r, ast.Name):
                    cs.add(r.id)
            st.env["__aliased__"] = frozenset(al)
            st.env["__childshared__"] = frozenset(cs)

    def note_escape(self, node, st):
        """a mutable value stored into a container (append / item store / yield) is shared from now on: later
        in-place mutation through the source name would be visible through the container"""
        if isinstance(node, ast.Name):
            v = st.env.get(node.id)
            if isinstance(v, V) and v.ty.mutable:
                st.env["__aliased__"] = frozenset(set(st.env.get("__aliased__", ())) | {node.id})

    def check_mutation(self, target, st, structural=False):
        """target: the lvalue being stored to (`y[k]`, `y.a`, `y[k][j]`) or, with structural=True, the receiver of a mutating
        method (`y` in y.append(..), `y[k]` in y[k].append(..))"""
        n, depth = target, 0
        while isinstance(n, (ast.Subscript, ast.Attribute)):
            n = n.value
            depth += 1
        if not isinstance(n, ast.Name):
            return
        if n.id in st.env.get("__aliased__", ()):
            raise Unsupported("in-place mutation of %s, which is aliased (ownership discipline; line %d)"
                              % (n.id, getattr(target, "lineno", 0)))
        if n.id in st.env.get("__childshared__", ()):
            # replacing / adding / removing a top-level entry is fine, reaching below an entry is not
            if (structural and depth >= 1) or (not structural and depth >= 2):
                raise Unsupported("in-place mutation below an entry of %s, whose entries are shared (ownership discipline; line %d)"
                                  % (n.id, getattr(target, "lineno", 0)))

    def assign_to(self, target, val, st):
        if isinstance(target, (ast.Subscript, ast.Attribute)):
            self.check_mutation(target, st)
        if isinstance(target, ast.Name):
            if ("old:" + target.id) in st.env and not getattr(self.ctx, "spec_mode", False):
                st.env["__rebound__"] = frozenset(set(st.env.get("__rebound__", ())) | {target.id})
            decl = (self.ctx.contract.locals or {}).get(target.id)
            if decl is None:
                cur = st.env.get(target.id)
                if isinstance(cur, V) and cur.ty.mutable and isinstance(val, PyTup):
                    decl = cur.ty
            if decl is not None:
                try:
                    val = coerce(val, decl)
                except Unsupported:
                    # the declaration types literals (`res = []`); rebinding the name to a value of another, fully known type
                    # (`res = list(map(...))`) is ordinary python
                    if not isinstance(lift(val), V):
                        raise
            st.env[target.id] = lift(val)
            if target.id in st.env.get("__aliased__", ()):
                st.env["__aliased__"] = frozenset(set(st.env["__aliased__"]) - {target.id})
            if target.id in st.env.get("__childshared__", ()):
                st.env["__childshared__"] = frozenset(set(st.env["__childshared__"]) - {target.id})
            return
        if isinstance(target, (ast.Tuple, ast.List)):
            self.bind_target(target, val, st)
            return
        if isinstance(target, ast.Subscript) and isinstance(target.value, ast.Name) and isinstance(st.env.get(target.value.id), Cursor):
            cur = st.env[target.value.id]
            cfg = self.cursor_spec(target.value.id)
            root = st.env[cur.root]
            k = coerce(self.ev(target.slice, st), root.ty.key)
            setf = lift_ns(self.ctx.ns[cfg["set"]])
            st.env[cur.root] = setf.call(self, [root, cur.path, k, coerce(val, root.ty)], {}, st, None)
            return
        if isinstance(target, ast.Subscript):
            base = lift(self.ev(target.value, st))
            line = target.lineno
            vn = getattr(self, "_store_value_node", None)
            if vn is not None:
                self.note_escape(vn, st)
            if isinstance(target.slice, ast.Slice):
                raise Unsupported("slice assignment")
            if isinstance(base, V) and isinstance(base.ty, RecT) and self.enum_key(target.slice, st, base.ty) is not None:
                kv, fields = self.enum_key(target.slice, st, base.ty)
                newv = coerce(val, base.ty.fields[fields[0][1]]).t
                kw = {g: base.ty.get(base.t, g) for g in base.ty.fields}
                for pv, f in fields:
                    kw[f] = z3.If(kv.t == kv.ty.const(pv), newv, kw[f])
                nv = V(base.ty, base.ty.mk(**kw))
            elif isinstance(base, V) and isinstance(base.ty, RecT):
                key = self.const_key(target.slice, st)
                f = base.ty.field_of_key(key)
                if f is None:
                    raise Unsupported("record key %r" % (key,))
                nv = V(base.ty, base.ty.set(base.t, f, coerce(val, base.ty.fields[f]).t))
            elif isinstance(base, V) and isinstance(base.ty, TupleT) and getattr(base.ty, "item_store", False):
                # a python list of fixed shape declared as a tuple type in the sidecar (`row = [lo, hi]; row[1] = v`)
                i = z3.simplify(self.evz(target.slice, st, INT))
                if not z3.is_int_value(i) or not (0 <= i.as_long() < len(base.ty.elems)):
                    raise Unsupported("store into a fixed-shape list at a non-constant index (line %d)" % line)
                parts = [base.ty.get(base.t, j) for j in range(len(base.ty.elems))]
                parts[i.as_long()] = coerce(val, base.ty.elems[i.as_long()]).t
                nv = V(base.ty, base.ty.mk(*parts))
            elif isinstance(base, V) and isinstance(base.ty, DictT):
                k = self.evz(target.slice, st, base.ty.key)
                nv = V(base.ty, base.ty.fn("set")(base.t, k, coerce(val, base.ty.val).t))
            elif isinstance(base, V) and isinstance(base.ty, SeqT):
                i = self.evz(target.slice, st, INT)
                n = z3.Length(base.t)
                self.ctx.oblige("safety", st, z3.And(i < n, i >= -n), line, "index in range (store)")
                j = norm_index(z3.simplify(i), n)
                nv = V(base.ty, z3.Concat(z3.SubSeq(base.t, 0, j), z3.Unit(coerce(val, base.ty.elem).t),
                                          z3.SubSeq(base.t, j + 1, n - j - 1)))
            else:
                raise Unsupported("subscript store on %r (line %d)" % (base, line))
            self.assign_to(target.value, nv, st)
            return
        if isinstance(target, ast.Attribute):
            base = lift(self.ev(target.value, st))
            if isinstance(base, V) and isinstance(base.ty, RecT) and target.attr in base.ty.fields:
                f = target.attr
                nv = V(base.ty, base.ty.set(base.t, f, coerce(val, base.ty.fields[f]).t))
                self.assign_to(target.value, nv, st)
                return
            raise Unsupported("attribute store .%s" % target.attr)
        raise Unsupported("assignment target %s" % type(target).__name__)

    def bind_target(self, target, val, st):
        if isinstance(target, ast.Name):
            self.assign_to(target, val, st)
            return
        if isinstance(target, (ast.Tuple, ast.List)):
            val = lift(val)
            n = len(target.elts)
            if isinstance(val, PyTup):
                if len(val.items) != n:
                    raise Unsupported("unpack arity (line %d)" % target.lineno)
                items = val.items
            elif isinstance(val, V) and isinstance(val.ty, TupleT):
                if len(val.ty.elems) != n:
                    raise Unsupported("unpack arity of %s (line %d)" % (val.ty, target.lineno))
                items = [V(e, val.ty.get(val.t, i)) for i, e in enumerate(val.ty.elems)]
            else:
                raise Unsupported("unpack of %r (line %d)" % (val, target.lineno))
            for t, v in zip(target.elts, items):
                self.bind_target(t, v, st)
            return
        self.assign_to(target, val, st)


# uninterpreted string helpers (A7) -- created lazily, one per process
_uf = {}
_comp_cache = {}


def _get_uf(name, *sorts):
    if name not in _uf:
        _uf[name] = z3.Function(name, *[s() for s in sorts])
    return _uf[name]


def str_strip():
    return _get_uf("str_strip", z3.StringSort, z3.StringSort)


def str_lower():
    return _get_uf("str_lower", z3.StringSort, z3.StringSort)


def str_repeat():
    return _get_uf("str_repeat", z3.StringSort, z3.IntSort, z3.StringSort)


SEQ_STR = SeqT(STR)


def any_affix(kind):
    """s.startswith(tuple_of_strings) with a symbolic tuple: recursive disjunction"""
    key = "any_" + kind
    if key not in _uf:
        S = z3.SeqSort(z3.StringSort())
        f = rec_function(key, z3.StringSort(), S, z3.BoolSort())
        s = z3.String(key + "_s")
        xs = z3.Const(key + "_xs", S)
        test = z3.PrefixOf if kind == "startswith" else z3.SuffixOf
        n = z3.Length(xs)
        add_definition(f, [s, xs], z3.If(n <= 0, False, z3.Or(test(xs[0], s), f(s, z3.SubSeq(xs, 1, n - 1)))))
        _uf[key] = f
    return _uf[key]


def lift_ns(x):
    """namespace object -> executor value"""
    from .dsl import SpecFn, Opaque, Lazy
    if isinstance(x, Lazy):
        x = x.get()
    if isinstance(x, (V, PyTup, PyFn, PyConstObj, DictItems, PyDict, PyIte, PyCat, Cursor)):
        return x
    if isinstance(x, SpecFn):
        return PyFn(x.name, x.sym_call)
    if isinstance(x, Opaque):
        return PyFn(x.name, x.sym_call)
    if isinstance(x, Ty):
        return PyConstObj("type:" + x.name, {"__ty__": x})
    if isinstance(x, (int, str, bool, tuple, list)) or x is None:
        return lift(x)
    raise Unsupported("namespace object %r" % (x,))


# -----------------------------------------------------------------------------------------------------------
# builtins

def _b_len(ex, args, kwargs, st, node):
    v = lift(args[0])
    if isinstance(v, V) and isinstance(v.ty, UnionT):
        v = ex.narrow(v, st, lambda a: isinstance(a, (DictT, ListT, SeqT)) or a is STR, getattr(node, "lineno", 0), "len()")
    return V(INT, length(v))


def _b_all_any(mode):
    def call(ex, node, st):
        a = node.args[0]
        if isinstance(a, ast.Call) and isinstance(a.func, ast.Name) and a.func.id == "map" and "map" not in st.env and len(a.args) == 2 \
                and isinstance(a.args[0], ast.Lambda) and len(a.args[0].args.args) == 1 and not a.args[0].args.defaults:
            # all(map(lambda x: E, xs)) == all(E for x in xs)
            lam = a.args[0]
            a = ast.GeneratorExp(elt=lam.body, generators=[ast.comprehension(
                target=ast.Name(id=lam.args.args[0].arg, ctx=ast.Store()), iter=a.args[1], ifs=[], is_async=0)])
            ast.copy_location(a, node)
            ast.fix_missing_locations(a)
        if isinstance(a, (ast.GeneratorExp, ast.ListComp)):
            return ex.comp_fold(a, st, mode)
        v = lift(ex.ev(a, st))
        if isinstance(v, PyTup):
            ts = [truthy(x) for x in v.items]
            if mode == "all":
                return V(BOOL, z3.And(*ts) if ts else z3.BoolVal(True))
            return V(BOOL, z3.Or(*ts) if ts else z3.BoolVal(False))
        if isinstance(v, V) and isinstance(v.ty, SeqT) and v.ty.elem is BOOL:
            f = seq_bool_fold(mode)
            return V(BOOL, f(v.t))
        if isinstance(v, V) and isinstance(v.ty, (ListT, SeqT)):
            # all(xs) over a list of truthy-able elements
            fake = ast.GeneratorExp(elt=ast.Name(id="__x", ctx=ast.Load()),
                                    generators=[ast.comprehension(target=ast.Name(id="__x", ctx=ast.Store()),
                                                                  iter=a, ifs=[], is_async=0)])
            ast.copy_location(fake, node)
            ast.fix_missing_locations(fake)
            return ex.comp_fold(fake, st, mode)
        raise Unsupported("%s over %r" % (mode, v))
    f = PyFn(mode, call)
    f.raw = True
    return f


def seq_bool_fold(mode):
    key = "seqbool_" + mode
    if key not in _uf:
        S = z3.SeqSort(z3.BoolSort())
        f = rec_function(key, S, z3.BoolSort())
        xs = z3.Const(key + "_xs", S)
        n = z3.Length(xs)
        rest = f(z3.SubSeq(xs, 1, n - 1))
        if mode == "all":
            add_definition(f, [xs], z3.If(n <= 0, True, z3.And(xs[0], rest)))
        else:
            add_definition(f, [xs], z3.If(n <= 0, False, z3.Or(xs[0], rest)))
        _uf[key] = f
    return _uf[key]


def _b_isinstance(ex, args, kwargs, st, node):
    v, k = lift(args[0]), args[1]
    if isinstance(k, PyTup):
        # isinstance(x, (A, B)): any of the kinds
        parts = [truthy(_b_isinstance(ex, [v, kk], kwargs, st, node)) for kk in k.items]
        return V(BOOL, z3.simplify(z3.Or(*parts)) if parts else z3.BoolVal(False))
    kind = k.name if isinstance(k, (PyConstObj, PyFn)) else None
    if kind in ("odict", "OrderedDict"):
        kind = "dict"
    if isinstance(v, V) and isinstance(v.ty, UnionT):
        kinds = getattr(v.ty, "pykinds", {})
        if kind in kinds:
            return V(BOOL, v.ty.is_(v.t, kinds[kind]))
        raise Unsupported("isinstance(%s, %s)" % (v.ty, kind))
    if isinstance(v, V) and kind == "str":
        return V(BOOL, z3.BoolVal(v.ty is STR))
    if isinstance(v, V) and kind == "dict":
        return V(BOOL, z3.BoolVal(isinstance(v.ty, (DictT, RecT))))
    if isinstance(v, V) and isinstance(v.ty, RecT) and v.ty.pyclass:
        return V(BOOL, z3.BoolVal(v.ty.pyclass == kind))
    raise Unsupported("isinstance(%r, %s)" % (v, kind))


def _b_tuple(ex, args, kwargs, st, node):
    if not args:
        return PyTup([])
    return args[0]      # tuple(list) keeps the sequence value (immutability is not modelled separately)


def _b_list(ex, args, kwargs, st, node):
    if not args:
        return PyTup([], True)
    return args[0]


def _b_bool(ex, args, kwargs, st, node):
    return V(BOOL, truthy(args[0]))


def _b_str(ex, args, kwargs, st, node):
    v = lift(args[0])
    if isinstance(v, V) and v.ty is STR:
        return v
    if isinstance(v, V) and v.ty is INT:
        return V(STR, z3.IntToStr(v.t))
    conv = getattr(v.ty, "str_fn", None) if isinstance(v, V) else None
    if conv:
        return V(STR, conv(v.t))
    raise Unsupported("str(%r)" % (v,))


def _b_int(ex, args, kwargs, st, node):
    v = lift(args[0])
    if v.ty is INT:
        return v
    if v.ty is BOOL:
        return coerce(v, INT)
    raise Unsupported("int(%r)" % (v,))


def _b_min_max(which):
    def call(ex, args, kwargs, st, node):
        if len(args) == 2:
            a, b = coerce(args[0], INT).t, coerce(args[1], INT).t
            return V(INT, z3.If(a <= b, a, b) if which == "min" else z3.If(a >= b, a, b))
        raise Unsupported(which)
    return call


def _b_dhead(ex, args, kwargs, st, node):
    d = lift(args[0])
    if isinstance(d, V) and isinstance(d.ty, DictT):
        return PyTup([V(d.ty.key, d.ty.k(d.t)), V(d.ty.val, d.ty.v(d.t))])
    raise Unsupported("dhead of %r" % (d,))


def _b_dtail(ex, args, kwargs, st, node):
    d = lift(args[0])
    if isinstance(d, V) and isinstance(d.ty, DictT):
        return V(d.ty, d.ty.tl(d.t))
    raise Unsupported("dtail of %r" % (d,))


def _b_dcons(ex, args, kwargs, st, node):
    d = lift(args[2])
    if isinstance(d, V) and isinstance(d.ty, DictT):
        return V(d.ty, d.ty.cons(coerce(args[0], d.ty.key).t, coerce(args[1], d.ty.val).t, d.t))
    raise Unsupported("dcons onto %r" % (d,))


def _b_dput(ex, args, kwargs, st, node):
    d = lift(args[0])
    if isinstance(d, V) and isinstance(d.ty, DictT):
        return V(d.ty, d.ty.fn("set")(d.t, coerce(args[1], d.ty.key).t, coerce(args[2], d.ty.val).t))
    raise Unsupported("dput into %r" % (d,))


def _b_ddel(ex, args, kwargs, st, node):
    d = lift(args[0])
    if isinstance(d, V) and isinstance(d.ty, DictT):
        return V(d.ty, d.ty.fn("delete")(d.t, coerce(args[1], d.ty.key).t))
    raise Unsupported("ddel from %r" % (d,))


def _b_dapp(ex, args, kwargs, st, node):
    return concat(args[0], args[1])


def _b_dhas(ex, args, kwargs, st, node):
    return V(BOOL, contains(args[1], args[0]))


def _b_odict(ex, args, kwargs, st, node):
    if args:
        raise Unsupported("odict(...) with arguments")
    return PyTup([], True)


def _b_dfn(name):
    def call(ex, args, kwargs, st, node):
        d = lift(args[0])
        if isinstance(d, V) and isinstance(d.ty, DictT):
            rest = [coerce(a, d.ty) .t if isinstance(lift(a), V) and lift(a).ty is d.ty else lift(a).t for a in args[1:]]
            return V(BOOL, d.ty.fn(name)(d.t, *rest))
        raise Unsupported("%s of %r" % (name, d))
    return call


def _b_cpath(ex, args, kwargs, st, node):
    if isinstance(args[0], Cursor):
        return args[0].path
    raise Unsupported("cpath of a non-cursor")


def _b_seq_prefix(ex, args, kwargs, st, node):
    a, b = lift(args[0]), lift(args[1])
    if isinstance(a, (PyTup, PyCat, PyIte)) and isinstance(b, V):
        a = coerce(a, b.ty)
    if isinstance(a, V) and isinstance(b, V) and a.ty is b.ty and (a.ty is STR or isinstance(a.ty, SeqT)):
        return V(BOOL, z3.PrefixOf(a.t, b.t))
    raise Unsupported("seq_prefix of %r, %r" % (a, b))


BUILTINS = {
    "seq_prefix": PyFn("seq_prefix", _b_seq_prefix),
    "cpath": PyFn("cpath", _b_cpath),
    "dhead": PyFn("dhead", _b_dhead), "dtail": PyFn("dtail", _b_dtail), "dcons": PyFn("dcons", _b_dcons),
    "dput": PyFn("dput", _b_dput), "ddel": PyFn("ddel", _b_ddel), "odict": PyFn("odict", _b_odict), "dapp": PyFn("dapp", _b_dapp),
    "dhas": PyFn("dhas", _b_dhas),
    "dwf": PyFn("dwf", _b_dfn("wf")), "ddisj": PyFn("ddisj", _b_dfn("disj")),
    "len": PyFn("len", _b_len),
    "all": _b_all_any("all"),
    "any": _b_all_any("any"),
    "isinstance": PyFn("isinstance", _b_isinstance),
    "tuple": PyFn("tuple", _b_tuple),
    "list": PyFn("list", _b_list),
    "bool": PyFn("bool", _b_bool),
    "str": PyFn("str", _b_str),
    "int": PyFn("int", _b_int),
    "min": PyFn("min", _b_min_max("min")),
    "max": PyFn("max", _b_min_max("max")),
    "dict": PyConstObj("dict"),
    "True": lift(True), "False": lift(False), "None": NONE_V,
}
BUILTINS["str"].name = "str"
