#!/usr/bin/env python
"""debug runner: verify the contracts of one sidecar module (optionally one function) and print the obligations"""
import sys, json, os
sys.path.insert(0, os.path.dirname(os.path.dirname(os.path.abspath(__file__))))
from pyvc import solve
mod = sys.argv[1]
only = sys.argv[2] if len(sys.argv) > 2 else None
import importlib
sm = importlib.import_module(mod).M
keys = [c.key for c in sm.contracts if only is None or c.qual == only]
res = solve.run_modules([mod], tier=os.environ.get("TIER", "quick"), only_keys=set(keys))
for r in res:
    if "crash" in r:
        print("CRASH", r["crash"]); continue
    if r["kind"] in ("universe", "lemmas"):
        bad = [x for x in r["results"] if x["status"] not in ("proved", "assumed")]
        print(r["kind"], len(r["results"]), "obligations,", len(bad), "not proved")
        for x in bad: print("   ", x)
        continue
    x = r["result"]
    print("==", x["key"], x["status"], x.get("reason", ""), "paths", x.get("paths"), "wall", x.get("wall_s"))
    for o in x["obligations"]:
        flag = "" if o["status"] == "proved" else "  <<<<<<"
        print("   %-8s %-9s L%-4d %6.3fs %s %s%s" % (o["status"], o["kind"], o["line"], o["time_s"], o["backend"], o["note"][:90], flag))
        if o["status"] == "refuted" and os.environ.get("MODEL"): print(o["model"])
    for c in x.get("canaries", []): print("   canary", c)
