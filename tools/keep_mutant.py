#!/usr/bin/env python
"""tools/keep_mutant.py <PID> <mK> <detected: yes|no|after-strengthening> "<caught by / note>"
confirms the seeded change in its scratch worktree (/tmp/seed/<PID>) and stores it under /verif/seeded/<PID>_<mK>/"""
import json, os, shutil, subprocess, sys
pid, mk, detected, note = sys.argv[1], sys.argv[2], sys.argv[3], sys.argv[4]
wt = "/tmp/seed/%s" % pid
md = "%s/out/%s" % (wt, mk)
root = os.path.dirname(os.path.dirname(os.path.abspath(__file__)))
out = subprocess.run([os.path.join(root, "tools/confirm_mutant.sh"), wt, md], capture_output=True, text=True).stdout.strip().splitlines()[-1]
conf = json.loads(out)
ok = conf.get("applies") and conf["demo_clean_exit"] == 0 and conf["demo_patched_exit"] == 1 and " passed" in conf["testsuite_patched"] \
    and "failed" not in conf["testsuite_patched"]
print(pid, mk, "confirmed" if ok else "NOT CONFIRMED", conf)
if not ok:
    sys.exit(1)
dst = os.path.join(root, "seeded", "%s_%s" % (pid, mk))
os.makedirs(dst, exist_ok=True)
shutil.copy(os.path.join(md, "patch.diff"), dst)
shutil.copy(os.path.join(md, "demo.py"), dst)
their = json.load(open(os.path.join(md, "meta.json")))
meta = dict(property=pid, summary=their.get("summary"), needs_to_manifest=their.get("needs_to_manifest"),
            files_touched=their.get("files_touched"),
            confirmed_by_lead=dict(command="tools/confirm_mutant.sh %s %s" % (wt, md), **conf),
            checks_run="tools/try_mutant.sh %s %s/patch.diff %s  (ANNET_REPO=<scratch worktree with the patch applied> ./check %s --tier quick)" % (wt, md, pid, pid),
            detected=detected, detected_by=note)
json.dump(meta, open(os.path.join(dst, "meta.json"), "w"), indent=1)
