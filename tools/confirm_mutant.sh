#!/bin/bash
# tools/confirm_mutant.sh <worktree> <mutant dir (with patch.diff, demo.py)>   -- confirm a seeded change independently:
# applies, passes the whole existing test suite, demo fails with it and passes without it.  Prints one JSON line.
WT="$1"; MD="$2"
git -C "$WT" checkout -q -- . || exit 9
cd "$WT"
PYTHONPATH="$WT" /venv/bin/python "$MD/demo.py" > /tmp/cm_clean.$$ 2>&1; clean=$?
git apply "$MD/patch.diff" || { echo '{"applies": false}'; exit 9; }
suite=$(/venv/bin/python -m pytest -q -p no:cacheprovider --timeout=900 tests 2>&1 | tail -1)
PYTHONPATH="$WT" /venv/bin/python "$MD/demo.py" > /tmp/cm_pat.$$ 2>&1; pat=$?
git checkout -q -- .
echo "{\"applies\": true, \"demo_clean_exit\": $clean, \"demo_patched_exit\": $pat, \"testsuite_patched\": \"$suite\"}"
rm -f /tmp/cm_clean.$$ /tmp/cm_pat.$$
