#!/usr/bin/env python
"""MANIFEST.json is generated from checks/props.py + tools/manifest_meta.py so that it stays valid and in sync"""
import json, os, sys
ROOT = os.path.dirname(os.path.dirname(os.path.abspath(__file__)))
sys.path.insert(0, ROOT)
from checks.props import PROPS
from tools.manifest_meta import META, NOT_APPLICABLE, NOTES
checks = []
for pid in sorted(PROPS):
    m = META[pid]
    checks.append(dict(
        property_id=pid,
        quick_cmd="./check %s --tier quick" % pid,
        thorough_cmd="./check %s --tier thorough" % pid,
        evidence_file="evidence/%s.json" % pid,
        replay_cmd_template="./check %s --replay {path}" % pid,
        engine="pyvc",
        level_claimed=dict(category=PROPS[pid]["level"], text=m["text"], design_ref=m.get("design_ref", "DESIGN.md section 5, %s" % pid)),
        level_note=m["note"],
        technique=m["technique"],
    ))
man = dict(
    version=1,
    setup_cmd="./setup.sh",
    hooks=dict(guard="ANNET_VERIF", enable="no hooks in /repo: contracts live in sidecars under /verif/specs and wrap the real function objects from outside (ANNET_VERIF is reserved and unused)",
               baseline_off_cmd="cd /repo && /venv/bin/python -m pytest -ra -q -p no:cacheprovider --timeout=900 --continue-on-collection-errors",
               source_commits=[], add_only=True),
    engines=[dict(name="pyvc", path="pyvc/", serves_properties=sorted(PROPS),
                  kind_free_text="contract-based deductive verification of the real Python source: sidecar contracts, AST->VC symbolic executor (loop invariants, callee contracts, fuel-unfolded spec functions), z3 5.1 + cvc5 1.0.3; bounded run-time contracts on the real function objects as labelled stand-in")],
    checks=checks,
    notes=NOTES,
    not_applicable=[dict(property_id=k, reason=v) for k, v in sorted(NOT_APPLICABLE.items()) if k not in PROPS],
)
json.dump(man, open(os.path.join(ROOT, "MANIFEST.json"), "w"), indent=1)
import jsonschema
jsonschema.validate(man, json.load(open("/root/.vp/MANIFEST.schema.json")))
print("MANIFEST.json written:", len(checks), "checks,", len(man["not_applicable"]), "not applicable")
