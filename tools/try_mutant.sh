#!/bin/bash
# tools/try_mutant.sh <worktree> <patch.diff> <property id>...   -- run the registered checks against a scratch worktree with a
# seeded change applied (never touches /repo; evidence and replay files go to a scratch dir)
WT="$1"; PATCH="$2"; shift 2
cd "$(dirname "$0")/.."
git -C "$WT" checkout -q -- . && git -C "$WT" apply "$PATCH" || { echo "patch does not apply"; exit 9; }
OUT=$(mktemp -d /tmp/mutrun.XXXXXX)
for P in "$@"; do
  ANNET_REPO="$WT" VERIF_EVIDENCE_DIR="$OUT/evidence" VERIF_REPLAY_DIR="$OUT/replay" ./check "$P" --tier "${TIER:-quick}" > "$OUT/$P.log" 2>&1
  rc=$?
  echo "$P rc=$rc $(grep -c '^VIOLATION' "$OUT/$P.log") violation line(s); $(grep '^VIOLATION' "$OUT/$P.log" | head -2 | tr '\n' ' ')"
  grep -h '"key"\|"text"' "$OUT"/replay/$P/*_1.json 2>/dev/null | head -2 | cut -c1-260
  grep "^note:\|CHECKER" "$OUT/$P.log" | head -3 | cut -c1-260
done
git -C "$WT" checkout -q -- .
rm -rf "$OUT"
