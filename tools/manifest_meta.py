META = {
    "C05": dict(
        technique="contract-based deductive verification (AST->VC, loop invariants, lemmas by induction, z3+cvc5) of the real tabparser functions incl. parse_to_tree; bounded run-time contracts beside it",
        text="proof: _parse_indent, _filtered_lines, _parsed_indents, _stripped_indents, _stacked and parse_to_tree are proved equal to the "
             "column-stack offside reference (every line sequence, every indentation, unbounded), including ParserError raised iff and "
             "where the reference errs and the nested-dict insertion (the `cur` alias modelled as a (root, path) cursor). The equivalence of "
             "the column-stack reference with the 'nearest preceding line with smaller indentation' wording is covered by the bounded "
             "layer only (exhaustive to 5/6 lines).",
        note="trusted: Python semantics assumptions A1,A7,A8,A9,A10,A13; z3/cvc5; the opaque str.strip / str.split",
    ),
    "C18": dict(
        technique="contract-based deductive verification of Registry.match (most specific registered vendor; assumed stable-sort axiom) and find_true_sequences (membership form with a universally quantified ghost variable); run-time contracts evaluated exhaustively over the finite configuration space as bounded stand-in for the rest (Mako rendering, importlib and regex compilation are outside the VC subset)",
        text="exploration, exhaustive over the finite space: for every devdb sequence (model string synthesised per regex chain) x software-version "
             "shapes x every vendor's canonical hardware: true sequences prefix-closed, vendor = unique most specific one under 28 registration "
             "orders, get_rulebook renders/compiles/resolves every %logic function, two fresh providers give structurally equal rulebooks. "
             "Registry.match is also asked during registration and after __add__. "
             "Registry.match (most specific registered vendor, registry unmodified) and find_true_sequences (exactly the sequences of the "
             "nodes whose whole regex chain matches) are proved; the text above describes the bounded layer.",
        note="_make_allowed_by_seq / _build_tree / HardwareLeaf / rulebook loading bounded only; synthesised model strings are one per sequence; known finding: ambiguous short-name alias SN",
    ),
}

_B = "bounded run-time contracts on the real entry points (labelled stand-in, never counted as proved)"
META.update({
    "C01": dict(
        technique="contract-based deductive verification of the patch logic functions (default, ordered, rewrite, undo_redo, ignore_changes, permanent: AST->VC, z3+cvc5), of cmd_paths / _indent_blocks, and slot-convergence lemmas per logic; " + _B + " with an executable device simulator",
        text="exploration + proved links: each common logic function is proved equal to its spec for every bucket set; lemmas prove that "
             "executing its commands on a (rule,key) slot turns the old row into the new one under make_pre's bucket invariant (default, "
             "ordered, undo_redo; rewrite/ignore_changes except in their by-design cases), that removal precedes re-creation, and that the depth "
             "at which cmd_paths sends a command equals the depth at which patch() shows it; make_pre is proved equal to its grouping spec, base_diff / default_diff / ordered_diff equal to the per-level "
             "diff spec. The composition through call_diff_logic / make_patch is NOT proved: end-to-end convergence, second diff empty and chains are decided by the bounded layer "
             "(8 rulebook families x 5 vendors x pairs/chains of small trees, device simulator from the statement). 12 known findings.",
        note="call_diff_logic (assumed), make_patch, get_order not under discharged contracts; device semantics for %rewrite/%ordered from DESIGN.md",
    ),
    "C02": dict(
        technique="contract-based deductive verification of apply_acl_diff / apply_acl (AST->VC with ADT lists/dicts, z3) relative to the assumed matcher contract + lemmas (no undeletable row stays REMOVED; negations only from REMOVED/MOVED buckets); " + _B,
        text="exploration + proved links: apply_acl_diff is proved to keep exactly the covered items, in order, with REMOVED turned into AFFECTED "
             "iff every flag of the governing rule forbids deletion, children filtered by the children rules (any depth); the lemma "
             "acl_diff_never_removes_undeletable is proved over its spec; logic functions emit a negation only from a REMOVED/MOVED bucket. "
             "Clauses (a)-(c) end to end through _diff_and_patch with a device simulator and an independent reference ACL matcher: bounded "
             "layer. 1 known finding (undeletable child removed with a deletable ancestor).",
        note="relative to the opaque matcher; make_patch not under contract",
    ),
    "C03": dict(
        technique="contract-based deductive verification of make_diff / apply_diff_rb / the rulebook matcher / base_diff / default_diff / ordered_diff / _ignore_case and strip_unchanged / mark_unchanged (AST->VC with ADT lists and dicts, z3+cvc5) + lemmas (ops exact, strip idempotent); " + _B + " for the whole diff construction and the text renderings",
        text="exploration + proved links: make_diff / apply_diff_rb are proved (every row gets the match of the rulebook matcher, rows no rule "
             "matches are dropped from both sides and only those, the caller's trees untouched); _find_rules_matches / _match_row_to_rules "
             "are proved relative to re.match; base_diff (hence default_diff, ordered_diff) is proved equal to its spec for every level (REMOVED rows "
             "of old absent from new at their old index; rows of new ADDED iff absent from old, else MOVED / parent's op by the index rule; "
             "merged by the index sort), with lemmas: removed only if absent from new, added iff absent from old, nothing removed when all rows "
             "stay. strip_unchanged and mark_unchanged are proved equal to their specs for every diff (any length, any depth); "
             "strip is idempotent (lemma). Reconstruction (proj_old/proj_new), exact ops, self-diff empty, MOVED, formatter.diff and "
             "gen_pre_as_diff read-back: bounded layer over 7 real compiled rulebooks x all pairs of small trees (depth<=2/3) x 14 vendor "
             "formatters. 4 known findings (MOVED by index, old order of MOVED rows, unchanged %rewrite groups absent).",
        note="call_diff_logic (assumed contract), rewrite_diff: bounded only; list.sort opaque (A3); composition across sidecars by name",
    ),
    "C04": dict(
        technique="contract-based deductive verification of the indentation parse chain (shared with C05); " + _B + " for every vendor's join/split round trip",
        text="exploration + proved links: the parse side of the indentation family (_parse_indent .. _stacked) is proved (C05). Round trip "
             "parse(join(t)) == t and fixed point for all 14 vendors: bounded layer, every ordered tree shape with depth<=3, <=3 rows per level "
             "and <=11 nodes (quick; thorough depth<=5, 22 nodes, random to 40) under 3 labellings + vendor keyword rows. 4 known findings "
             "(RouterOS nested sections).",
        note="join side and vendor-specific split functions bounded only",
    ),
    "C06": dict(
        technique="contract-based deductive verification of apply_acl / apply_acl_diff (AST->VC, loop invariants, z3+cvc5) relative to an assumed contract of the matcher; lemmas over the spec functions; " + _B,
        text="exploration + proved links: apply_acl is proved equal to spec_filter for every tree and rule set (order-preserving, children by the "
             "children rules, reverse rows of undeletable rules dropped), with AclError/AclNotExclusiveError raised iff and where the spec says; "
             "lemmas prove sub-tree, idempotence, strict-mode-iff-uncovered over the spec. All of it is RELATIVE to the opaque matcher "
             "match_row_to_acl; the matcher itself, the ACL compiler and merge monotonicity are decided by the bounded layer against an "
             "independent reference matcher (3 known findings: %global coverage, merge monotonicity).",
        note="assumed contract: match_row_to_acl (opaque macl); bounded: <=2-line ACL texts x trees depth<=3 (exhaustive) + random",
    ),
    "C07": dict(
        technique="per-pattern regular-language equivalence (compiled regexp vs rule-language reference) decided by z3's regex theory for ALL rows; " + _B + " for keys, reverse templates, flags, deploy matching",
        text="exploration + proved sub-obligations: for 1773 enumerated patterns (grammar <=3/4 tokens and every rule of the shipped patching and "
             "ordering rulebooks of 14 vendors) the language of the real compiled regexp equals the reference built from the tokens by the prose, "
             "over all rows (unbounded in the row; the pattern quantifier is enumerated). 11 shipped patterns with look-around / inner anchors are "
             "skipped. Keys, removal templates, (?i), ACL/deploy compilers: bounded layer (exhaustive rows <=5 words).",
        note="trusted: re->z3 translation (A11), row domain ASCII without leading/trailing blanks; 1 known finding ((?i) + negation prefix), 1 fixed",
    ),
    "C08": dict(
        technique="contract-based deductive verification of Orderer.get_order and Orderer.order_config (AST->VC, loop invariants, z3+cvc5) with lemmas (only permutes the rows of a block; sorted rows ascend by key) and of the logic functions' emission order (lemma removal_before_recreation); " + _B + " for rank semantics, patches and idempotence",
        text="exploration + proved links: undo_redo/ordered/default are proved to emit a key's removal before its re-creation (lemma over their "
             "proved contracts). Orderer.order_config is proved equal to its spec for every tree (per block: the rows of the input, stably sorted by "
             "(rank if direct else -rank, direct), children ordered by the rules get_order hands down), with lemmas: the result has exactly the rows of "
             "the input block, is a dict, and its rows ascend by key (sorting is stable and idempotent). Orderer.get_order is proved equal to a fold over the ordering "
             "rules (best match by weight, %order_reverse pins, block exit last, children = matching rules' children + %global), with lemmas: rules that do not "
             "mention a row change nothing, and the only matching rule gives the rank. "
             "PatchTree.sort / make_patch, idempotence, independence of unrelated rows: bounded layer (synthetic disjoint ordering rulebooks, shipped "
             "*.order files on the corpus, pinned small scenarios). 1 fixed (order_config took `notify ...` for a removal), 2 known findings.",
        note="make_patch sort_key / PatchTree.sort not under a discharged contract",
    ),
    "C09": dict(
        technique="contract-based deductive verification of common.apply (loop-free: complete path enumeration, z3+cvc5), match_deploy_rule, make_cmd_params, fill_cmd_params, apply_deploy_rulebook, cmd_paths and lemma no_commit_when_disabled; " + _B + " for flattening and deploy rule parameters",
        text="exploration + proved links: common.apply is proved equal to the pinned per-vendor session table for all hardware flags (hierarchy axiom "
             "as precondition) and the no-commit-when-disabled lemma is proved over it; cmd_paths and _indent_blocks are proved relative "
             "to the assumed token-stream contract of blocks_and_context (sent depth == shown depth lemma); match_deploy_rule is proved to walk the command's "
             "block path through the rule tree; make_cmd_params / fill_cmd_params are proved to give a command the timeout and one Question per dialog of its "
             "rule, (30 s, none) without a rule; apply_deploy_rulebook is proved to send, per maximal run of commands sharing a session wrapper, the wrapper's "
             "enter commands, the run's commands in patch order at their depth, and the wrapper's leave commands (relative to the opaque apply logic, a "
             "groupby model and one declared ownership assumption). patch()/cmd_paths agreement end to end, block exits, the token stream of "
             "blocks_and_context: bounded layer (PatchTrees depth<=4, 12 hardware models, corpus). 3 known findings "
             "(cmd_paths dict collapses repeated commands).",
        note="blocks_and_context assumed; apply_deploy_rulebook bounded only",
    ),
    "C10": dict(
        technique="contract-based deductive verification of apply_acl (strict mode raises iff uncovered: lemma strict_iff_uncovered) relative to the assumed matcher contract, of match_row_to_acl's exclusivity, and of merge_dicts on trees (merge == union of block paths, by induction); " + _B,
        text="exploration + proved links: apply_acl(fatal_acl=True) raises AclError iff the spec finds an uncovered row at a covered parent (proved, "
             "relative to the opaque matcher); merge_dicts on config trees is proved equal to its spec and the spec to be the union of the "
             "block paths of its arguments (nothing lost, nothing else appears). Generator programs through the real _run_partial_generator/_old_new_per_device, exclusivity and "
             "union: bounded layer (random programs <=6 statements, depth<=3). 1 known finding (reverse row of an undeletable rule vanishes).",
        note="match_row_to_acl's exclusivity iff is proved relative to _find_acl_matches / merge_dicts (assumed); TreeGenerator bookkeeping bounded only",
    ),
    "C11": dict(
        technique="contract-based deductive verification of collapse_vlandb and its cisco / huawei wrappers (lemma: the produced ranges denote exactly the sorted distinct VLANs) and of the huawei logic _process_vlandb / single / multi / multi_all / _parse_vlancfg_actions (finite sets: remove exactly old - new, add exactly new - old); " + _B + " for parsing, the cisco logic and the end-to-end simulation",
        text="exploration + proved links: collapse_vlandb is proved equal to the rendering of the run-length ranges of sorted(set(vlans)) "
             "(tiny_ranges honoured), AssertionError iff the input is empty; lemmas prove that a VLAN is denoted by those ranges iff it is a "
             "member of the input and that every range has lo <= hi. Everything else is bounded: through the real shipped huawei/cisco/nexus rulebooks and make_patch, for 10 VLAN-list rule kinds: all pairs of subsets of "
             "a 5-element universe x every splitting over 1-4 lines (quick; thorough up to 8 elements), strided 65,536-pair sweep, random sets of "
             "1..4094: simulated final set == new set, no VLAN of old&new removed even transiently, expand(collapse(S)) == S. 1 known finding "
             "(multi_all `undo ... all` wipes VLANs of unchanged lines).",
        note="expand functions (int() of substrings), _process_vlandb / vlan_diff, chunking: bounded only; sorted(set()) axiom assumed",
    ),
    "C16": dict(
        technique="contract-based deductive verification of both front ends (_diff_and_patch, _read_old_new_diff_patch) as the same composition of the pipeline stages + lemma front_ends_agree; effect obligations inferred from the real source of all 49 shipped %logic functions (does not read the UNCHANGED bucket), proved contracts of make_diff / make_pre / strip_unchanged / the common logic functions; " + _B + " comparing both front ends",
        text="exploration + proved links: both front ends are proved to build the patch from the full diff through the same stages and to "
             "strip unchanged rows only for display (relative to assumed stage contracts; patch_from_pre is not under contract); 46 of 49 shipped logic functions are proved (by effect inference over their real source, interprocedural) "
             "not to read diff[Op.UNCHANGED] or the UNCHANGED buckets of rule_pre/root_pre; strip_unchanged is proved; the common logic "
             "functions are proved independent of the unchanged bucket. The two real front ends are compared on the shipped corpus, its cross "
             "products and random trees. 1 fixed (file mode stripped before make_pre), 3 known findings (logic functions that read UNCHANGED, "
             "latent since the fix).",
        note="make_pre proved against its grouping spec; make_patch reduction lemmas not proved",
    ),
    "C17": dict(
        technique="contract-based deductive verification of implicit.config, compile_tree and merge_dicts on trees (AST->VC, nested loops, comprehension; z3+cvc5) + lemmas on the logic functions (an unchanged-only bucket emits nothing); " + _B,
        text="exploration + proved links: implicit.config is proved equal to its rule-by-rule spec for every tree and rule set (default row added "
             "iff the rule is not match-only, no line matches and the row is absent; recursion under matching lines), relative to the opaque "
             "regex matcher; unchanged_only_emits_nothing is proved for the common logics. Sub-tree, iff, idempotence and the patch clause "
             "on 18 hardware models: bounded layer. 2 known findings.",
        note="merge_dicts on trees proved (union of paths); the composition in gen.py and `iff` / idempotence over it bounded only",
    ),
    "C13": dict(
        technique="contract-based deductive verification of _resolve_json_pointers (glob resolution: nested loops, comprehensions over dict keys and index ranges, union-typed documents; AST->VC, z3+cvc5) and of RunGeneratorResult.new_json_fragment_files (== sequential chain per file, relative to the opaque apply_json_fragment) + frame lemmas step_frame / chain_frame (generators of other files leave a file's planned entry alone); " + _B + " for the jsonpointer / jsonpatch compositions",
        text="exploration + proved link: _resolve_json_pointers is proved to return exactly the existing paths whose parts match the pattern "
             "parts, in document order (relative to fnmatch / JsonPointer); new_json_fragment_files is proved equal to the sequential chain of its generators per file, and a chain none of whose generators names a file leaves that file's entry unchanged (lemma). Everything else is bounded: fragment confinement, idempotence, patch round trip, filters return sub-documents, inputs unmodified, chaining = sequential "
             "application, over all key-presence shapes of one schema (keys with '/', '~', '|', '*') x 342 pointer lists (strided) + random. "
             "1 fixed (pointer escaping), 1 known finding (sorted patch breaks array ops).",
        note="apply_json_fragment / apply_acl_filters / make_patch: library compositions, bounded only",
    ),
    "C14": dict(
        technique=_B + "; no deductive obligations (no contract within reach states ACL coverage of the vendor dispatch code)",
        text="exploration: RouteMap programs from 68 condition and 74 action atoms (singletons, pairs, seeded random programs) x 3 entity sets x "
             "huawei/arista (through _run_partial_generator with use_acl) and cumulus: no uncovered line, parse-back nesting, referenced lists "
             "defined, error-before-lines. 2 fixed, 8 known findings (rows emitted before the rejection).",
        note="bounded stand-in only",
    ),
    "C15": dict(
        technique="contract-based deductive verification of the field mergers (Merger.__call__, UseFirst/UseLast/Forbid/ForbidChange/Concat/Unite/DictMerge._merge) and of MeshRulesRegistry.lookup_direct with the lemma 'both ends see the same pairs' (AST->VC, z3+cvc5); " + _B + " for mirrored sessions",
        text="exploration + proved links: every merger class is proved against its law (unset never overrides set; ForbidChange returns x iff x == y "
             "else raises; Concat = x + y; Unite = x | y; DictMerge key-wise with the value merger, x unmodified), plus commutativity/"
             "associativity lemmas. Bounded: mirrored peers/AS/families/interfaces for 30-34 topologies x rule templates x handler specs, all registration orders; "
             "merge laws per declared merger on seeded model instances (order independence, associativity, unset never overrides).",
        note="lookup_indirect, executor and to_bgp_peer are bounded only",
    ),
    "C19": dict(
        technique="contract-based deductive verification of RunGeneratorResult.add_entire / new_files (AST->VC, z3) + induction lemmas (fold of add_entire dominates every listed result); " + _B + " for upload/reload/diff",
        text="exploration + proved links: add_entire and new_files are proved against their specs for all states; lemmas prove that folding "
             "add_entire over ANY sequence leaves, per path, an entry with at least every listed priority (=> arg-max, order-independent with "
             "distinct prios). Upload iff differs, bytes, reload, diff-empty-iff-equal: bounded layer through run_file_generators and "
             "PCDeployerJob.parse_result. 6 known findings (splitlines-based differ).",
        note="PCDeployerJob.parse_result / pc_diff / differ bounded only; None path modelled as empty string",
    ),
    "C20": dict(
        technique="frame / effect obligations inferred from the real source (modular syntactic effect analysis) for all 55 shipped logic functions and the diff/patch path; frame obligations of the proved contracts; " + _B + " for cross-history equality",
        text="exploration + proved frames: every shipped %logic function mutates at most rule/diff, every %diff_logic at most old/new/diff_pre, none "
             "writes module state; make_diff, apply_acl(_diff), mark/strip_unchanged, make_pre, order_config, get_order modify none of their "
             "arguments (except the declared ACL scratch field); Orderer.insert / ref_insert only rebind their own attributes (no write into "
             "the provider-cached ordering rulebook). Result equality after arbitrary job histories vs a fresh interpreter, "
             "snapshots of old/new/rulebook: bounded layer (corpus + synthetic mutating logics).",
        note="effect inference is an upper bound with a fixed purity table for non-annet callees; caches not modelled deductively",
    ),
})

_PENDING = "check not built yet in this round (planned in DESIGN.md section 5); no claim is made"
NOT_APPLICABLE = {
    "C12": "schedules / fault sequences of an OS process pool (multiprocessing queues, worker exit codes): no contract on a call or a data structure expresses it and no verifier here models multiprocessing; a proof would be about a hand-written model, which is a different family (DESIGN.md section 5, C12)",
}
for _p in []:
    NOT_APPLICABLE.setdefault(_p, _PENDING)
NOTES = ("Exit codes of every check: 0 held, 1 VIOLATION, 2 undecided, 3 checker broken. Level 'proof' is claimed only where every "
         "clause is covered by discharged obligations; everything bounded is labelled and never added to obligations/discharged.")
