META = {
    "C05": dict(
        technique="contract-based deductive verification (AST->VC, loop invariants, z3+cvc5) of the real tabparser functions; bounded run-time contract as stand-in for parse_to_tree",
        text="proof: _parse_indent, _filtered_lines, _parsed_indents, _stripped_indents and _stacked are proved equal to the column-stack "
             "offside reference (every line sequence, every indentation, unbounded), including ParserError raised iff and where the "
             "reference errs; parse_to_tree's final nested-dict insertion and the equivalence of the column-stack reference with the "
             "'nearest preceding line with smaller indentation' wording are covered by the bounded layer only (exhaustive to 5/6 lines).",
        note="trusted: Python semantics assumptions A1,A7,A8,A9,A10; z3/cvc5; the opaque str.strip; parse_to_tree cursor loop bounded only",
    ),
    "C18": dict(
        technique="run-time contracts evaluated exhaustively over the finite configuration space (bounded stand-in; no deductive obligations: Mako rendering, importlib and regex compilation are outside the VC subset)",
        text="exploration, exhaustive over the finite space: for every devdb sequence (model string synthesised per regex chain) x software-version "
             "shapes x every vendor's canonical hardware: true sequences prefix-closed, vendor = unique most specific one under 28 registration "
             "orders, get_rulebook renders/compiles/resolves every %logic function, two fresh providers give structurally equal rulebooks. "
             "Registry.match and find_true_sequences are not under a discharged contract yet.",
        note="bounded stand-in only; synthesised model strings are one per sequence; known finding: ambiguous short-name alias SN",
    ),
}
_PENDING = "check not built yet in this round (planned in DESIGN.md section 5); no claim is made"
NOT_APPLICABLE = {
    "C12": "schedules / fault sequences of an OS process pool (multiprocessing queues, worker exit codes): no contract on a call or a data structure expresses it and no verifier here models multiprocessing; a proof would be about a hand-written model, which is a different family (DESIGN.md section 5, C12)",
}
for _p in ["C01", "C02", "C03", "C04", "C06", "C07", "C08", "C09", "C10", "C11", "C13", "C14", "C15", "C16", "C17", "C19", "C20"]:
    NOT_APPLICABLE.setdefault(_p, _PENDING)
NOTES = ("Exit codes of every check: 0 held, 1 VIOLATION, 2 undecided, 3 checker broken. Level 'proof' is claimed only where every "
         "clause is covered by discharged obligations; everything bounded is labelled and never added to obligations/discharged.")
