META = {
    "C05": dict(
        technique="contract-based deductive verification (AST->VC, loop invariants, z3+cvc5) of the real tabparser functions; bounded run-time contract as stand-in for parse_to_tree",
        text="proof: _parse_indent, _filtered_lines, _parsed_indents, _stripped_indents and _stacked are proved equal to the column-stack "
             "offside reference (every line sequence, every indentation, unbounded), including ParserError raised iff and where the "
             "reference errs; parse_to_tree's final nested-dict insertion and the equivalence of the column-stack reference with the "
             "'nearest preceding line with smaller indentation' wording are covered by the bounded layer only (exhaustive to 5/6 lines).",
        note="trusted: Python semantics assumptions A1,A7,A8,A9,A10; z3/cvc5; the opaque str.strip; parse_to_tree cursor loop bounded only",
    ),
    "C18": dict(
        technique="run-time contracts evaluated exhaustively over the finite configuration space (bounded stand-in; no deductive obligations: Mako rendering, importlib and regex compilation are outside the VC subset)",
        text="exploration, exhaustive over the finite space: for every devdb sequence (model string synthesised per regex chain) x software-version "
             "shapes x every vendor's canonical hardware: true sequences prefix-closed, vendor = unique most specific one under 28 registration "
             "orders, get_rulebook renders/compiles/resolves every %logic function, two fresh providers give structurally equal rulebooks. "
             "Registry.match and find_true_sequences are not under a discharged contract yet.",
        note="bounded stand-in only; synthesised model strings are one per sequence; known finding: ambiguous short-name alias SN",
    ),
}

_B = "bounded run-time contracts on the real entry points (labelled stand-in, never counted as proved)"
META.update({
    "C03": dict(
        technique="contract-based deductive verification of strip_unchanged / mark_unchanged (AST->VC with ADT lists, z3) + idempotence lemma; " + _B + " for the diff construction and the text renderings",
        text="exploration + proved links: strip_unchanged and mark_unchanged are proved equal to their specs for every diff (any length, any depth); "
             "strip is idempotent (lemma). Reconstruction (proj_old/proj_new), exact ops, self-diff empty, MOVED, formatter.diff and "
             "gen_pre_as_diff read-back: bounded layer over 7 real compiled rulebooks x all pairs of small trees (depth<=2/3) x 14 vendor "
             "formatters. 4 known findings (MOVED by index, old order of MOVED rows, unchanged %rewrite groups absent).",
        note="base_diff, call_diff_logic, apply_diff_rb, make_diff not under discharged contracts",
    ),
    "C04": dict(
        technique="contract-based deductive verification of the indentation parse chain (shared with C05); " + _B + " for every vendor's join/split round trip",
        text="exploration + proved links: the parse side of the indentation family (_parse_indent .. _stacked) is proved (C05). Round trip "
             "parse(join(t)) == t and fixed point for all 14 vendors: bounded layer, every ordered tree shape with depth<=3, <=3 rows per level "
             "and <=11 nodes (quick; thorough depth<=5, 22 nodes, random to 40) under 3 labellings + vendor keyword rows. 4 known findings "
             "(RouterOS nested sections).",
        note="join side and vendor-specific split functions bounded only",
    ),
    "C06": dict(
        technique="contract-based deductive verification of apply_acl / apply_acl_diff (AST->VC, loop invariants, z3+cvc5) relative to an assumed contract of the matcher; lemmas over the spec functions; " + _B,
        text="exploration + proved links: apply_acl is proved equal to spec_filter for every tree and rule set (order-preserving, children by the "
             "children rules, reverse rows of undeletable rules dropped), with AclError/AclNotExclusiveError raised iff and where the spec says; "
             "lemmas prove sub-tree, idempotence, strict-mode-iff-uncovered over the spec. All of it is RELATIVE to the opaque matcher "
             "match_row_to_acl; the matcher itself, the ACL compiler and merge monotonicity are decided by the bounded layer against an "
             "independent reference matcher (3 known findings: %global coverage, merge monotonicity).",
        note="assumed contract: match_row_to_acl (opaque macl); bounded: <=2-line ACL texts x trees depth<=3 (exhaustive) + random",
    ),
    "C07": dict(
        technique="per-pattern regular-language equivalence (compiled regexp vs rule-language reference) decided by z3's regex theory for ALL rows; " + _B + " for keys, reverse templates, flags, deploy matching",
        text="exploration + proved sub-obligations: for 1773 enumerated patterns (grammar <=3/4 tokens and every rule of the shipped patching and "
             "ordering rulebooks of 14 vendors) the language of the real compiled regexp equals the reference built from the tokens by the prose, "
             "over all rows (unbounded in the row; the pattern quantifier is enumerated). 11 shipped patterns with look-around / inner anchors are "
             "skipped. Keys, removal templates, (?i), ACL/deploy compilers: bounded layer (exhaustive rows <=5 words).",
        note="trusted: re->z3 translation (A11), row domain ASCII without leading/trailing blanks; 1 known finding ((?i) + negation prefix), 1 fixed",
    ),
    "C08": dict(
        technique="contract-based deductive verification of the logic functions' emission order (lemma removal_before_recreation); " + _B + " for rank semantics and order_config",
        text="exploration + proved links: undo_redo/ordered/default are proved to emit a key's removal before its re-creation (lemma over their "
             "proved contracts). Rank semantics, permutation and idempotence of PatchTree.sort / order_config, independence of unrelated rows: "
             "bounded layer (synthetic disjoint ordering rulebooks, shipped *.order files on the corpus). 2 known findings.",
        note="Orderer.get_order / order_config / PatchTree.sort not under a discharged contract",
    ),
    "C09": dict(
        technique="contract-based deductive verification of common.apply (loop-free: complete path enumeration, z3+cvc5) and lemma no_commit_when_disabled; " + _B + " for flattening and deploy rule parameters",
        text="exploration + proved links: common.apply is proved equal to the pinned per-vendor session table for all hardware flags (hierarchy axiom "
             "as precondition) and the no-commit-when-disabled lemma is proved over it. patch()/cmd_paths agreement, block exits, "
             "apply_deploy_rulebook body and per-rule timeouts: bounded layer (PatchTrees depth<=4, 12 hardware models, corpus). 3 known findings "
             "(cmd_paths dict collapses repeated commands).",
        note="formatter flattening and apply_deploy_rulebook bounded only",
    ),
    "C10": dict(
        technique="contract-based deductive verification of apply_acl (strict mode raises iff uncovered: lemma strict_iff_uncovered) relative to the assumed matcher contract; " + _B,
        text="exploration + proved links: apply_acl(fatal_acl=True) raises AclError iff the spec finds an uncovered row at a covered parent (proved, "
             "relative to the opaque matcher). Generator programs through the real _run_partial_generator/_old_new_per_device, exclusivity and "
             "union: bounded layer (random programs <=6 statements, depth<=3). 1 known finding (reverse row of an undeletable rule vanishes).",
        note="merge_dicts, match_row_to_acl(exclusive) and TreeGenerator bookkeeping are not under discharged contracts",
    ),
    "C13": dict(
        technique=_B + "; no deductive obligations (jsonpointer/jsonpatch/fnmatch cannot be brought under contract)",
        text="exploration: fragment confinement, idempotence, patch round trip, filters return sub-documents, inputs unmodified, chaining = sequential "
             "application, over all key-presence shapes of one schema (keys with '/', '~', '|', '*') x 342 pointer lists (strided) + random. "
             "1 fixed (pointer escaping), 1 known finding (sorted patch breaks array ops).",
        note="bounded stand-in only",
    ),
    "C14": dict(
        technique=_B + "; no deductive obligations (no contract within reach states ACL coverage of the vendor dispatch code)",
        text="exploration: RouteMap programs from 68 condition and 74 action atoms (singletons, pairs, seeded random programs) x 3 entity sets x "
             "huawei/arista (through _run_partial_generator with use_acl) and cumulus: no uncovered line, parse-back nesting, referenced lists "
             "defined, error-before-lines. 2 fixed, 8 known findings (rows emitted before the rejection).",
        note="bounded stand-in only",
    ),
    "C15": dict(
        technique="contract-based deductive verification of the field mergers (Merger.__call__, UseFirst/UseLast/Forbid/ForbidChange/Concat/Unite/DictMerge._merge; AST->VC, z3+cvc5); " + _B + " for mirrored sessions",
        text="exploration + proved links: every merger class is proved against its law (unset never overrides set; ForbidChange returns x iff x == y "
             "else raises; Concat = x + y; Unite = x | y; DictMerge key-wise with the value merger, x unmodified), plus commutativity/"
             "associativity lemmas. Bounded: mirrored peers/AS/families/interfaces for 30-34 topologies x rule templates x handler specs, all registration orders; "
             "merge laws per declared merger on seeded model instances (order independence, associativity, unset never overrides).",
        note="registry lookup, executor and to_bgp_peer are bounded only",
    ),
    "C19": dict(
        technique="contract-based deductive verification of RunGeneratorResult.add_entire / new_files (AST->VC, z3) + induction lemmas (fold of add_entire dominates every listed result); " + _B + " for upload/reload/diff",
        text="exploration + proved links: add_entire and new_files are proved against their specs for all states; lemmas prove that folding "
             "add_entire over ANY sequence leaves, per path, an entry with at least every listed priority (=> arg-max, order-independent with "
             "distinct prios). Upload iff differs, bytes, reload, diff-empty-iff-equal: bounded layer through run_file_generators and "
             "PCDeployerJob.parse_result. 6 known findings (splitlines-based differ).",
        note="PCDeployerJob.parse_result / pc_diff / differ bounded only; None path modelled as empty string",
    ),
    "C20": dict(
        technique="frame / effect obligations inferred from the real source (modular syntactic effect analysis) for all 55 shipped logic functions and the diff/patch path; frame obligations of the proved contracts; " + _B + " for cross-history equality",
        text="exploration + proved frames: every shipped %logic function mutates at most rule/diff, every %diff_logic at most old/new/diff_pre, none "
             "writes module state; make_diff, apply_acl(_diff), mark/strip_unchanged, make_pre, order_config, get_order modify none of their "
             "arguments (except the declared ACL scratch field). Result equality after arbitrary job histories vs a fresh interpreter, "
             "snapshots of old/new/rulebook: bounded layer (corpus + synthetic mutating logics).",
        note="effect inference is an upper bound with a fixed purity table for non-annet callees; caches not modelled deductively",
    ),
})

_PENDING = "check not built yet in this round (planned in DESIGN.md section 5); no claim is made"
NOT_APPLICABLE = {
    "C12": "schedules / fault sequences of an OS process pool (multiprocessing queues, worker exit codes): no contract on a call or a data structure expresses it and no verifier here models multiprocessing; a proof would be about a hand-written model, which is a different family (DESIGN.md section 5, C12)",
}
for _p in ["C01", "C02", "C11", "C16", "C17"]:
    NOT_APPLICABLE.setdefault(_p, _PENDING)
NOTES = ("Exit codes of every check: 0 held, 1 VIOLATION, 2 undecided, 3 checker broken. Level 'proof' is claimed only where every "
         "clause is covered by discharged obligations; everything bounded is labelled and never added to obligations/discharged.")
