#!/usr/bin/env python
"""record the names of the obligations discharged on the unchanged tree (specs/expected_obligations.json), so that
"passed before, fails now" and "disappeared" are both detectable.  Run after changing a sidecar."""
import json, os, sys, importlib
ROOT = os.path.dirname(os.path.dirname(os.path.abspath(__file__)))
sys.path.insert(0, ROOT); sys.path.insert(0, "/repo")
from pyvc import solve
from checks.props import PROPS
mods = sorted({m for p in PROPS.values() for m in p.get("modules", [])})
only = sys.argv[1:] or mods
path = os.path.join(ROOT, "specs", "expected_obligations.json")
exp = json.load(open(path)) if os.path.exists(path) else {}
res = solve.run_modules(only, tier="quick")
bad = 0
for r in res:
    if r.get("kind") != "contract" or "result" not in r:
        if "crash" in r: print("CRASH", r["crash"]); bad += 1
        continue
    x = r["result"]
    names = sorted(o["name"] for o in x["obligations"] if o["status"] == "proved")
    notp = [o["name"] for o in x["obligations"] if o["status"] != "proved"]
    if x["status"] == "trusted":
        continue            # an assumed contract (the same function may be proved in another sidecar)
    if x["status"] != "ok" or notp:
        # (the all-modules run can starve the slowest queries: an earlier complete record of the function is kept, not dropped)
        print("NOT RECORDED (not fully proved in this run; previous record kept):", x["key"], x["status"], x.get("reason"), notp[:5]); bad += 1
        continue
    exp[x["key"]] = names
json.dump(exp, open(path, "w"), indent=1, sort_keys=True)
print("recorded", sum(len(v) for v in exp.values()), "obligations of", len(exp), "functions;", bad, "problems")
