"""re-run a recorded failing case on the current tree and print expected / actual"""
import importlib
import json
import sys


def main(pid, path):
    rec = json.load(open(path))
    print("property:", rec.get("property"), "key:", rec.get("key"))
    print("what:", rec.get("text"))
    if rec.get("kind") == "bounded":
        modname, _fn = rec["check"].rsplit(".", 1)
        m = importlib.import_module(modname)
        r = m.replay(rec["case"])
        print("expected:", json.dumps(r.get("expected"), default=str)[:2000])
        print("actual:  ", json.dumps(r.get("actual"), default=str)[:2000])
        print("holds now:" if r.get("ok") else "STILL FAILS")
        return 0 if r.get("ok") else 1
    if rec.get("kind") == "contract":
        from pyvc import native
        m = importlib.import_module(rec["module"])
        c = next(x for x in m.M.contracts if x.key == rec["function"])
        fn = c.native_fn or native.resolve_callable(c)
        inp = rec["failure"]["input"]
        idx = rec["failure"].get("input_index")
        if idx is not None and c.native_inputs is not None:
            # regenerate the input (it may contain live objects that JSON cannot carry); generators are deterministic
            import itertools
            inp = next(itertools.islice(c.native_inputs(), idx, idx + 1), inp)
        r = native.check_case(c, fn, inp, vars(m))
        print("input:", json.dumps(native._jsonable(inp), default=str)[:2000])
        print("result:", "contract holds now" if r is None else json.dumps(native._jsonable(r), default=str)[:2000])
        print("holds now:" if r is None else "STILL FAILS")
        return 0 if r is None else 1
    print("obligation-level record (no concrete input):")
    print(json.dumps(rec, indent=1, default=str)[:4000])
    return 1
