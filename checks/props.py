"""registry: which sidecars, lemmas and bounded layers decide which property"""

PROPS = {
    "C05": dict(
        level="proof",
        modules=["specs.tabparser"],
        bounded=[("bounded.c05", "run")],
        assumes=["A1", "A7", "A8", "A9", "A10", "A13"],
        trusted=["parse_to_tree's cursor loop (nested odict insertion) is outside the proved set: bounded only",
                 "splitter (CommonFormatter.split = str.split) is opaque"],
    ),
}
