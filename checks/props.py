"""registry: which sidecars, lemmas and bounded layers decide which property"""

PROPS = {
    "C05": dict(
        level="proof",
        modules=["specs.tabparser"],
        bounded=[("bounded.c05", "run")],
        assumes=["A1", "A7", "A8", "A9", "A10", "A13"],
        trusted=["parse_to_tree's cursor loop (nested odict insertion) is outside the proved set: bounded only",
                 "splitter (CommonFormatter.split = str.split) is opaque"],
    ),
    "C18": dict(
        level="exploration",
        modules=[],
        bounded=[("bounded.c18", "run")],
        assumes=["A6", "A9"],
        trusted=["model strings are synthesised per regex chain (one per devdb sequence): the one non-exhaustive ingredient"],
        rule="exhaustive over the finite configuration space",
    ),
}
