"""registry: which sidecars, lemmas and bounded layers decide which property"""

PROPS = {
    "C05": dict(
        level="proof",
        modules=["specs.tabparser"],
        bounded=[("bounded.c05", "run")],
        assumes=["A1", "A7", "A8", "A9", "A10", "A13"],
        trusted=["parse_to_tree is proved (cursor idiom: the `cur` alias of a node of the result tree is modelled as (root, path) with "
                 "sidecar tget/tset, 7 lemmas); the equivalence of the column-stack reference with the 'nearest preceding line with "
                 "smaller indentation' wording is bounded only",
                 "splitter (CommonFormatter.split = str.split) is opaque"],
    ),
    "C18": dict(
        level="exploration",
        modules=["specs.registry", "specs.devdb"],
        bounded=[("bounded.c18", "run")],
        assumes=["A3", "A6", "A9"],
        trusted=["Registry.match is proved to return the first vendor (registration order) among those owning a matching path with the "
                 "largest number of dots, else the default, and to leave the registry unmodified - relative to vendor.match() / "
                 "HardwareView.match (opaque) and the assumed stable-sort axiom; independence of the registration order additionally "
                 "needs the most specific vendor to be unique, which is a fact about devdb.json decided by the bounded layer",
                 "find_true_sequences is proved in membership form: for EVERY sequence s, s is returned iff it belongs to a tree node "
                 "whose whole regex chain matches the model string (relative to re.search); _make_allowed_by_seq / _build_tree "
                 "(Counter, nested set comprehensions), HardwareLeaf, rulebook rendering / compilation: bounded only",
                 "model strings are synthesised per regex chain (one per devdb sequence): the one non-exhaustive ingredient"],
        rule="exhaustive over the finite configuration space",
    ),
    "C08": dict(
        level="exploration",
        modules=["specs.rbcommon", "specs.ordercfg", "specs.getorder"],
        bounded=[("bounded.c08", "run")],
        assumes=["A3", "A6", "A9"],
        trusted=["Orderer.get_order is proved equal to a fold over the ordering rules (relative to re.match and rule_weight; float('inf') "
                 "modelled as an integer constant above every rule index); Orderer.order_config is proved relative to get_order being a function of "
                 "(rules, vendor, row, direction) - which the get_order contract establishes -, the stable-sort model of sorted() and "
                 "left-to-right odict(pairs); make_patch's sort_key and PatchTree.sort are not under a discharged contract (bounded only)"],
    ),
    "C09": dict(
        level="exploration",
        modules=["specs.rbcommon", "specs.formatter", "specs.deployrule", "specs.cmdparams"],
        bounded=[("bounded.c09", "run")],
        assumes=["A1", "A6", "A8", "A9", "A13"],
        trusted=["CommonFormatter.patch (the text shown), cmd_paths (what is sent), _blocks, _indent_blocks and _filtered_block_marks are "
                 "proved relative to the assumed contract of blocks_and_context (a well-bracketed token stream); match_deploy_rule (which rule "
                 "gives a command its timeout and dialogs: the walk of its block path through the rule tree) is proved relative to "
                 "re.match / match_context; apply_deploy_rulebook is proved equal to its spec (per maximal run of commands with one session wrapper: the "
                 "wrapper's enter commands at depth 0, the run's commands in patch order at depth len(path) - 1 with their rule's timeout and "
                 "dialogs, the wrapper's leave commands) relative to match_deploy_rule / the rule's apply logic (opaque), itertools.groupby modelled "
                 "as maximal runs of equal keys (the key function is an obligation), the assumed rb_question_to_question, and the assumption that "
                 "every dialog answer of the rulebook has send_nl; blocks_and_context itself and block_exit strings: bounded only",
                 "hardware flags are booleans with the hierarchy axiom as precondition of common.apply"],
    ),
    "C14": dict(
        level="exploration",
        modules=[],
        bounded=[("bounded.c14", "run")],
        assumes=["A9"],
        trusted=["no contract within reach states ACL coverage of 1.7 kLoC of vendor dispatch: bounded stand-in only"],
    ),
    "C15": dict(
        level="exploration",
        modules=["specs.mesh", "specs.meshreg"],
        bounded=[("bounded.c15", "run")],
        assumes=["A9"],
        trusted=["MeshRulesRegistry.lookup_direct is proved (every direct rule tried in both orientations, nested registries included) and "
                 "both ends are proved to see the same pairs (lemma both_ends_see_the_same_pairs), relative to PairMatcher.match_pair "
                 "and _normalize_host; lookup_indirect, the mesh executor, adaptix conversion, basemodel._merge/merge (getattr/setattr "
                 "reflection): bounded only",
                 "Merger._merge hook and DictMerge's value merger are opaque (vmerge); copy.copy is a one-level copy (A5)"],
    ),
    "C20": dict(
        level="exploration",
        modules=["specs.rbcommon", "specs.patching", "specs.diffrb"],
        provers=[("checks.effects_check", "run_c20")],
        bounded=[("bounded.c20", "run")],
        assumes=["A5", "A9", "A12"],
        trusted=["effect inference is syntactic and flow-insensitive (upper bound); callees outside annet are classified pure by a fixed table",
                 "cache tables (lru_cache, provider dicts) are not modelled: history independence across caches is bounded only"],
    ),
    "C06": dict(
        level="exploration",
        modules=["specs.patching", "specs.aclmatch", "specs.filteracl"],
        bounded=[("bounded.c06", "run")],
        assumes=["A2", "A6", "A9", "A12"],
        trusted=["apply_acl / apply_acl_diff use match_row_to_acl through an assumed contract (opaque function macl); of the matcher, "
                 "_select_match (prio / specificity choice, children-rule merge) and match_row_to_acl's dispatch are proved, "
                 "_find_acl_matches (regex matching) and merge_dicts are assumed; compared with an independent reference matcher in "
                 "the bounded layer",
                 "filter_config / filter_patch are proved to be parse -> apply_acl(fatal_acl=False) -> join (composition, stages opaque)",
                 "compile_acl_text / _merge_toplevel, filter_diff (shift_op / tree_to_diff string handling): bounded only"],
    ),
    "C07": dict(
        level="exploration",
        modules=[],
        provers=[("checks.c07_lang", "run")],
        bounded=[("bounded.c07", "run")],
        assumes=["A6", "A9"],
        trusted=["A11: the translation of Python re syntax to z3 regular languages (pyvc/relang.py) for the accepted subset; "
                 "counter-models are replayed through the real re object",
                 "row domain: printable ASCII, space, tab; no leading/trailing blanks (what parse_to_tree hands on)",
                 "key extraction, reverse templates, (?i) and deploy path matching are bounded only"],
    ),
    "C10": dict(
        level="exploration",
        modules=["specs.patching", "specs.aclmatch", "specs.mergedicts"],
        bounded=[("bounded.c10", "run")],
        assumes=["A2", "A6", "A9"],
        trusted=["merge_dicts on config trees is proved equal to its spec and the spec is proved to be the union: a block path exists in "
                 "the merge of any number of trees iff it exists in one of them (lemma merge_is_union_of_paths); RunGeneratorResult.config_tree is "
                 "proved to be that merge over all partial results, so the desired configuration has a block path iff some generator "
                 "yielded it (lemma desired_config_is_the_union_of_the_generators_outputs); the list / scalar branches of merge_dicts "
                 "(ACL rule dicts), TreeGenerator block bookkeeping and _run_partial_generator are bounded only",
                 "match_row_to_acl is proved to raise AclNotExclusiveError iff two generators' rules match the row (exclusive mode) "
                 "relative to the assumed contracts of _find_acl_matches (regex matching) and merge_dicts"],
    ),
    "C13": dict(
        level="exploration",
        modules=["specs.jsonptr", "specs.jsonfrag"],
        bounded=[("bounded.c13", "run")],
        assumes=["A9"],
        trusted=["_resolve_json_pointers is proved: a globbed pointer resolves to exactly the paths that exist in the document and whose "
                 "parts match the pattern parts (depth first, document order), relative to fnmatch.fnmatchcase / jsonpointer.escape / "
                 "JsonPointer (opaque); the model has no str scalars that act as sequences (outside the property's domain)",
                 "new_json_fragment_files is proved: the generators of one file are applied one after the other, each on the result of "
                 "the previous one, starting from the device's file or an empty document; the reload command comes from the generator "
                 "with the largest reload priority among those that changed the file (relative to apply_json_fragment / format_json)",
                 "apply_json_fragment, apply_acl_filters, make_patch / apply_patch are compositions of jsonpointer / jsonpatch "
                 "library calls (set, to_last, JsonPatch.apply), which cannot be brought under contract: bounded only"],
    ),
    "C19": dict(
        level="exploration",
        modules=["specs.results"],
        bounded=[("bounded.c19", "run")],
        assumes=["A2", "A9"],
        trusted=["PCDeployerJob.parse_result, pc_diff and the file differ: bounded only",
                 "a None path is modelled as the empty string in add_entire's contract"],
    ),
    "C03": dict(
        level="exploration",
        modules=["specs.patching", "specs.basediff", "specs.rbmatch", "specs.diffrb"],
        bounded=[("bounded.c03", "run")],
        assumes=["A2", "A3", "A5", "A9"],
        trusted=["make_diff and apply_diff_rb are proved: diff_pre attaches to every row the match of _match_row_to_rules, rows no rule "
                 "matches are deleted from both (copied) trees and kept otherwise (lemma unknown_rows_dropped_known_rows_kept), "
                 "the caller's trees are not modified; _rules_local_global / _find_rules_matches / _match_row_to_rules are proved "
                 "relative to re.Pattern.match (all matching rules in rulebook order, none if an `ignore` rule matches). The "
                 "composition make_diff -> call_diff_logic -> base_diff is by name only: call_diff_logic (dispatch on function "
                 "values) is an assumed contract and the callees proved in other sidecars appear as opaque functions",
                 "base_diff / default_diff / ordered_diff are proved against their spec (REMOVED rows of old absent from new at their old "
                 "index, rows of new ADDED / MOVED / parent's op by the index rule, merged by the index sort), on the levels as _ignore_case "
                 "returns them (both branches of _ignore_case are proved: rows of %ignore_case rules lower-cased, diff_pre extended), with lemmas: removed only if absent from new, added iff absent from old, nothing removed when all "
                 "rows stay; the list.sort() of (index, item) pairs is an opaque permutation (A3); call_diff_logic (dispatch on function "
                 "values stored in the rulebook), apply_diff_rb, make_diff, rewrite_diff are bounded only; "
                 "strip_unchanged and mark_unchanged are proved",
                 "text renderings (formatter.diff, gen_pre_as_diff) are bounded only"],
    ),
    "C04": dict(
        level="exploration",
        modules=["specs.tabparser", "specs.formatter"],
        bounded=[("bounded.c04", "run")],
        assumes=["A1", "A7", "A8", "A9", "A13"],
        trusted=["the join side: CommonFormatter.join is proved to be the newline-joined rows of the indented token stream (_blocks, "
                 "_indent_blocks, _filtered_block_marks proved) relative to the assumed blocks_and_context contract; the brace / RouterOS / Cisco / "
                 "Huawei split functions are bounded only; the indentation parse side incl. parse_to_tree is the proved C05 chain"],
    ),
    "C11": dict(
        level="exploration",
        modules=["specs.vlandb", "specs.vlanlogic"],
        bounded=[("bounded.c11", "run")],
        assumes=["A3", "A7", "A9"],
        trusted=["collapse_vlandb (and the cisco / huawei wrappers, chunk_len == 0) is proved: result == rendering of the ranges rg(S) of "
                 "S = sorted(set(vlans)), with the lemma that a VLAN is denoted by rg(S) iff it is a member of S (so expanding the "
                 "collapsed list gives back exactly the set) and that every range has lo <= hi; sorted(set()) is an opaque function "
                 "with an assumed axiom (strictly increasing), '%' formatting and str(int) are opaque (A7)",
                 "huawei _process_vlandb (single / multi / multi_all) and _parse_vlancfg_actions are proved: the undo command is built from "
                 "exactly the VLANs of the removed lines that no added line has (old - new), the add command from exactly new - old, in "
                 "that order, with the `all` / bare-reverse shortcuts only when nothing is added - relative to _parse_vlancfg (line -> "
                 "prefix, VLAN set), collapse_vlandb (proved in specs.vlandb) and _chunked, which are opaque here",
                 "huawei vlan_diff is proved: a removed `vlan N` that a `vlan batch` line of the new configuration still holds is only AFFECTED, an "
                 "option-less `vlan N` held by the batch is not listed, everything else of default_diff passes through",
                 "huawei_expand_vlandb / cisco_expand_vlandb (int() of substrings), the cisco _process_vlandb / swtrunk "
                 "logic and the chunking are not under a discharged contract: bounded only"],
    ),
    "C16": dict(
        level="exploration",
        modules=["specs.patching", "specs.rbcommon", "specs.makepre", "specs.frontends", "specs.diffrb"],
        provers=[("checks.effects_check", "run_c16")],
        bounded=[("bounded.c16", "run")],
        assumes=["A5", "A9", "A12"],
        trusted=["effect inference is syntactic (upper bound of what a logic function reads)",
                 "the two front ends _diff_and_patch and _read_old_new_diff_patch are proved to be the same composition make_diff -> "
                 "make_pre -> patch_from_pre (patch from the FULL diff) with strip_unchanged for display only, and to agree when no ACL "
                 "is given (lemma front_ends_agree) - relative to ASSUMED contracts of the stages: each is a function of its arguments "
                 "(make_diff, make_pre, strip_unchanged are proved so elsewhere; patch_from_pre / make_patch is not under contract and "
                 "may modify only the pre it is given); file_diff_worker / file_patch_worker and the CLI plumbing are bounded only"],
    ),
    "C17": dict(
        level="exploration",
        modules=["specs.implicit", "specs.rbcommon", "specs.patching", "specs.mergedicts"],
        bounded=[("bounded.c17", "run")],
        assumes=["A2", "A6", "A9"],
        trusted=["implicit.config and compile_tree (parsed default text -> rule table) are proved; merge_dicts on trees is proved to be "
                 "the union of paths, so every explicit line is kept by t + implicit(t) (lemma explicit_lines_are_kept) and merging a "
                 "tree with itself changes nothing; re.Pattern.match and syntax.compile_row_regexp are opaque; _implicit_tree (the per-hardware default text) "
                 "and syntax.parse_text are bounded only",
                 "the composition in gen._old_new_per_device (merge_dicts(t, implicit.config(t, rules))) and the lemmas `iff` / "
                 "`implicit(m) adds nothing` over it are not proved: bounded only"],
    ),
    "C01": dict(
        level="exploration",
        modules=["specs.rbcommon", "specs.patching", "specs.formatter", "specs.makepre", "specs.aclmatch", "specs.basediff"],
        bounded=[("bounded.c01", "run")],
        assumes=["A2", "A3", "A6", "A7", "A8", "A9"],
        trusted=["make_pre is proved equal to its bucket-grouping spec (diffs without %multiline rules), base_diff / default_diff / "
                 "ordered_diff equal to the per-level diff spec (make_diff / apply_diff_rb are proved under C03); call_diff_logic is an "
                 "assumed contract; make_patch / Orderer.get_order are not under discharged contracts: the composition lemma L-C01 is not proved; "
                 "convergence is decided by the bounded layer with an executable device simulator written from the statement",
                 "blocks_and_context (token stream producer) is an assumed contract (well-bracketed stream)"],
    ),
    "C02": dict(
        level="exploration",
        modules=["specs.patching", "specs.rbcommon", "specs.aclmatch", "specs.frontends"],
        bounded=[("bounded.c02", "run")],
        assumes=["A2", "A6", "A9", "A12"],
        trusted=["match_row_to_acl is an assumed contract (opaque macl) as seen from apply_acl*; _diff_and_patch is proved to filter old and "
                 "new by the generators' ACL before diffing and to hand the ACL and the filter ACL to make_diff (composition contract, "
                 "stages opaque); make_patch is not under contract",
                 "coverage in the bounded layer is decided by an independent reference matcher; ambiguous governing rules are skipped"],
    ),
}
