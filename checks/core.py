"""checks.core -- per-property driver: P (proved obligations on the real functions), L (lemmas over spec functions),
B (bounded run-time contracts), verdict, evidence, known findings, replay."""
import importlib
import json
import multiprocessing as mp
import os
import sys
import time
import traceback

ROOT = os.path.dirname(os.path.dirname(os.path.abspath(__file__)))
sys.path.insert(0, ROOT)
REPO = os.environ.get("ANNET_REPO", "/repo")
if REPO not in sys.path:
    sys.path.insert(0, REPO)
os.environ.setdefault("PYTHONDONTWRITEBYTECODE", "1")
sys.dont_write_bytecode = True

ASSUMPTIONS = {
    "A1": "python int is mathematical (no overflow)",
    "A2": "dict/OrderedDict iterate in insertion order; d[k]=v on an existing key keeps its position",
    "A3": "list.sort/sorted return a stable permutation sorted by the key",
    "A5": "copy.deepcopy returns a fresh equal value sharing nothing with its argument",
    "A6": "re.Pattern.match/search are pure functions of (pattern, string)",
    "A7": "opaque string functions (strip, lower, %, format, replace, join) are pure; no further axioms used",
    "A8": "generators have list semantics: consumers do not interleave mutation of shared state between next() calls",
    "A9": "functions under contract are not monkey-patched at run time",
    "A10": "termination is not verified except where a `decreases` obligation is listed",
    "A12": "distinct parameters of a function under contract do not alias each other",
    "A13": "solvers: a query with sequence/string operations counts as proved only when a cvc5 (1.0.3, 1.0.3 --seq-array=lazy or 1.4) "
           "answers unsat -- on the query itself or on z3's quantifier-free certificate (ground part + the lemma instances of z3's "
           "refutation); z3 5.1 alone is trusted only for pure datatype/arithmetic queries; sequence queries run in killable child "
           "processes (z3-new CLI, /usr/bin/cvc5, cvc5 wheel); the SMT-LIB text z3 prints is adapted for cvc5 by syntactic "
           "rewriting only (declaration order, seq.nth variants, z3's array-encoded finite sets -> cvc5's theory of sets)",
    "A14": "the VC generator itself (pyvc: ast -> VCs; Python semantics of the accepted subset as listed in DESIGN 2.2-2.6, dicts as "
           "association lists with first-match lookup, ownership discipline for in-place mutation) is trusted; it is cross-checked "
           "against CPython by evaluating every contract on the real function (function_contract_evaluations) and by canaries",
}


def known_findings():
    path = os.path.join(ROOT, "known_findings.txt")
    out = []
    if os.path.exists(path):
        for line in open(path, encoding="utf-8"):
            line = line.strip()
            if line.startswith("finding:"):
                parts = line.split()
                d = dict(p.split("=", 1) for p in parts[1:3] if "=" in p)
                d["text"] = " ".join(parts[3:])
                out.append(d)
    return out


def _native_task(args):
    modname, key, limit = args
    try:
        from pyvc import native
        m = importlib.import_module(modname)
        c = next(x for x in m.M.contracts if x.key == key)
        r = native.check_contract(c, vars(m), limit)
        r["key"] = key
        r["module"] = modname
        return r
    except Exception:
        return dict(key=key, module=modname, evaluations=0, failures=[], crash=traceback.format_exc()[-2000:])


def _bounded_task(args):
    modname, fn, tier, seed, part, nparts = args
    try:
        m = importlib.import_module(modname)
        return getattr(m, fn)(tier=tier, seed=seed, part=part, nparts=nparts)
    except Exception:
        return dict(crash=traceback.format_exc()[-3000:], evaluations=0, nontrivial=[], failures=[], samples=[])


class Run:
    def __init__(self, pid, cfg, tier, seed):
        self.pid = pid
        self.cfg = cfg
        self.tier = tier
        self.seed = seed
        self.t0 = time.time()
        self.violations = []      # dict(key, text, replay)
        self.notes = []
        self.broken = []          # checker problems -> exit 3
        self.undecided = []

    # ---------------------------------------------------------------- P and L layers
    def run_proofs(self):
        from pyvc import solve
        mods = self.cfg.get("modules", [])
        keys = set()
        for mn in mods:
            sm = importlib.import_module(mn).M
            for c in sm.contracts:
                if self.pid in c.properties:
                    keys.add(c.key)
        self.contract_keys = keys
        if not mods:
            return []
        res = solve.run_modules(mods, tier=self.tier, only_keys=keys)
        return res

    def run_native(self):
        tasks = []
        for mn in self.cfg.get("modules", []):
            sm = importlib.import_module(mn).M
            for c in sm.contracts:
                if self.pid in c.properties and c.native_inputs is not None:
                    tasks.append((mn, c.key, None if self.tier == "thorough" else 20000))
        if not tasks:
            return []
        with mp.get_context("fork").Pool(min(16, len(tasks)), maxtasksperchild=1) as pool:
            return pool.map(_native_task, tasks, chunksize=1)

    def run_bounded(self):
        out = []
        for (modname, fn) in self.cfg.get("bounded", []):
            nparts = 16
            with mp.get_context("fork").Pool(nparts, maxtasksperchild=1) as pool:
                parts = pool.map(_bounded_task, [(modname, fn, self.tier, self.seed, i, nparts) for i in range(nparts)], chunksize=1)
            agg = dict(name="%s.%s" % (modname, fn), evaluations=0, nontrivial=set(), failures=[], samples=[], crash=None,
                       rule=None, bound=None)
            for p in parts:
                if p.get("crash"):
                    agg["crash"] = p["crash"]
                    continue
                agg["evaluations"] += p.get("evaluations", 0)
                agg["nontrivial"].update(p.get("nontrivial", []))
                agg["failures"].extend(p.get("failures", []))
                if len(agg["samples"]) < 4:
                    agg["samples"].extend(p.get("samples", [])[:2])
                agg["rule"] = p.get("rule", agg["rule"])
                agg["bound"] = p.get("bound", agg["bound"])
                agg.setdefault("known_hits", []).extend(p.get("known_hits", []))
            out.append(agg)
        return out


def write_json(path, obj):
    os.makedirs(os.path.dirname(path), exist_ok=True)
    tmp = path + ".tmp"
    with open(tmp, "w", encoding="utf-8") as f:
        json.dump(obj, f, indent=1, sort_keys=False, default=str)
    os.replace(tmp, path)


def expected_obligations():
    p = os.path.join(ROOT, "specs", "expected_obligations.json")
    if os.path.exists(p):
        return json.load(open(p))
    return {}


def main(pid, tier, seed, cfg):
    run = Run(pid, cfg, tier, seed)
    kf = [k for k in known_findings() if k.get("property") == pid]
    replay_dir = os.path.join(os.environ.get("VERIF_REPLAY_DIR") or os.path.join(ROOT, "replay"), pid)
    os.makedirs(replay_dir, exist_ok=True)
    n_replay = [0]

    def new_replay(payload):
        n_replay[0] += 1
        path = os.path.join(replay_dir, "%s_%d.json" % (tier, n_replay[0]))
        write_json(path, payload)
        return path

    def report(key, text, payload, no_input=False):
        for k in kf:
            if k.get("key") == key:
                print("KNOWN-FINDING: property=%s %s" % (pid, k["text"] or text))
                run.notes.append("known finding hit: %s" % key)
                return
        payload = dict(payload)
        payload.update(property=pid, key=key, text=text)
        path = new_replay(payload)
        run.violations.append(dict(key=key, text=text, replay=path))
        print("VIOLATION property=%s replay=%s%s" % (pid, path, " no-failing-input-found" if no_input else ""))

    # ---- P / L
    proof_res = run.run_proofs()
    functions = []
    lemmas = []
    assumed_lemmas = []
    universe = []
    n_obl = n_dis = 0
    solver_time = 0.0
    backends = {}
    lost = []          # (function key, obligation dict)
    undecided_fns = []
    canaries = []
    exp = expected_obligations()
    for r in proof_res:
        if "crash" in r:
            run.broken.append("worker crash: %s" % r["crash"][-500:])
            continue
        if r["kind"] == "universe":
            for x in r["results"]:
                universe.append(x)
                n_obl += 1
                if x["status"] == "proved":
                    n_dis += 1
                else:
                    run.broken.append("list/dict lemma library not proved: %s" % x["name"])
                solver_time += x.get("time_s", 0)
            continue
        if r["kind"] == "lemmas":
            for x in r["results"]:
                if pid not in x.get("properties", []) and x.get("properties"):
                    continue
                if x["status"] == "assumed":
                    assumed_lemmas.append("assumed axiom %s: %s (%s)" % (x["name"], x.get("statement"), x.get("note")))
                    continue
                lemmas.append(x)
                n_obl += 1
                if x["status"] == "proved":
                    n_dis += 1
                solver_time += x.get("time_s", 0)
            continue
        x = r["result"]
        f = dict(key=x["key"], status=x["status"], sha256=x.get("sha256"), paths=x.get("paths"), lines=x.get("lines"),
                 obligations=len(x["obligations"]), discharged=sum(1 for o in x["obligations"] if o["status"] == "proved"),
                 uses_lemmas=x.get("uses_lemmas", []), reason=x.get("reason"))
        functions.append(f)
        if x["status"] in ("undecided", "error", "vacuous"):
            undecided_fns.append(f)
            if x["status"] == "error":
                run.broken.append("generator error in %s: %s" % (x["key"], (x.get("reason") or "")[-400:]))
            if x["status"] == "vacuous":
                run.broken.append("vacuous contract: %s" % x["key"])
            continue
        if x["status"] == "trusted":
            continue
        for o in x["obligations"]:
            n_obl += 1
            solver_time += o["time_s"]
            backends[o["backend"]] = backends.get(o["backend"], 0) + 1
            if o["status"] == "proved":
                n_dis += 1
            else:
                lost.append((x["key"], o))
        for c in x.get("canaries", []):
            canaries.append(dict(function=x["key"], **c))
            if c.get("proved"):
                run.broken.append("canary proved (unsound generator?): %s :: %s" % (x["key"], c["post"]))
        # obligations that were discharged on the unchanged tree must still exist
        names_now = {o["name"] for o in x["obligations"]}
        for name in exp.get(x["key"], []):
            if name not in names_now:
                lost.append((x["key"], dict(name=name, kind="disappeared", status="disappeared", note="obligation no longer generated",
                                            contract=False, line=0)))

    # ---- extra provers (per-pattern obligations discharged by a dedicated decision procedure)
    prover_fail = []
    for (modname, fn) in cfg.get("provers", []):
        try:
            pr = getattr(importlib.import_module(modname), fn)(tier=tier, seed=seed)
        except Exception:
            run.broken.append("prover %s crashed: %s" % (modname, traceback.format_exc()[-600:]))
            continue
        fkey = "%s.%s" % (modname, fn)
        n_here = len(pr["obligations"])
        d_here = sum(1 for o in pr["obligations"] if o["status"] == "proved")
        functions.append(dict(key=fkey, status="ok", obligations=n_here, discharged=d_here, skipped=len(pr.get("skipped", [])),
                              skipped_samples=pr.get("skipped", [])[:12], sha256=None, paths=None, lines=None, uses_lemmas=[], reason=None))
        for o in pr["obligations"]:
            n_obl += 1
            solver_time += o.get("time_s", 0)
            backends[o["backend"]] = backends.get(o["backend"], 0) + 1
            if o["status"] == "proved":
                n_dis += 1
            elif o["status"] == "error":
                run.broken.append("prover %s: %s: %s" % (modname, o["name"], (o.get("reason") or "")[:300]))
            elif o["status"] != "refuted":
                lost.append((fkey, o))
        for f in pr["failures"]:
            prover_fail.append((fkey, f))
        if n_here == 0:
            run.broken.append("prover %s generated no obligations" % modname)

    # ---- function-level native contracts (bounded; also the CPython cross-check of the encoding)
    native_res = run.run_native()
    native_eval = 0
    native_fail = {}
    for r in native_res:
        if r.get("crash"):
            run.broken.append("native harness crash for %s: %s" % (r["key"], r["crash"][-400:]))
            continue
        native_eval += r["evaluations"]
        if r.get("oracle_errors"):
            run.broken.append("oracle error for %s: %s" % (r["key"], r["oracle_errors"][0]["clause"]))
        if r["failures"]:
            native_fail[r["key"]] = r

    # ---- property-level bounded layer
    bounded_res = run.run_bounded()
    for b in bounded_res:
        if b["crash"]:
            run.broken.append("bounded layer crash in %s: %s" % (b["name"], b["crash"][-600:]))

    # ---- verdict
    lost_fns = sorted({k for k, _ in lost})
    all_aux_ok = {}
    for k, o in lost:
        all_aux_ok.setdefault(k, True)
        if not o.get("contract"):
            all_aux_ok[k] = False
    for key, r in native_fail.items():
        f0 = r["failures"][0]
        report("contract:%s:%s" % (key, f0["kind"]),
               "run-time contract of %s fails: %s" % (key, f0["clause"]),
               dict(kind="contract", module=r["module"], function=key, failure=f0,
                    lost_obligations=[o["name"] for k, o in lost if k == key]))
    for key in lost_fns:
        if key in native_fail:
            continue
        refuted = [o for k, o in lost if k == key and o.get("contract") and o["status"] == "refuted"]
        if refuted and all_aux_ok.get(key):
            # a contract obligation has a genuine counter-model and all proof scaffolding still holds: violation even
            # though the bounded search found no failing input
            if not any(b["failures"] for b in bounded_res):
                o = refuted[0]
                report("obligation:%s" % o["name"], "obligation %s refuted: %s" % (o["name"], o.get("note")),
                       dict(kind="obligation", function=key, obligation=o["name"], note=o.get("note"), solver_model=o.get("model"),
                            solver_output="z3: sat on the negated obligation (define-fun-rec encoding)"), no_input=True)
        else:
            run.notes.append("proof lost for %s (%d obligations not discharged); bounded layers decide" % (
                key, sum(1 for k, _ in lost if k == key)))
    seen_pf = set()
    for fkey, f in prover_fail:
        n_obl_dummy = 0
        if len(seen_pf) >= 5:
            break
        seen_pf.add(f["key"])
        report(f["key"], f["text"], dict(kind="bounded", check=fkey, case=f.get("case"), expected=f.get("expected"),
                                         actual=f.get("actual")))
    for b in bounded_res:
        seen = set()
        for f in b["failures"]:
            if f["key"] in seen:
                continue
            seen.add(f["key"])
            report(f["key"], f["text"], dict(kind="bounded", check=b["name"], case=f.get("case"), expected=f.get("expected"),
                                             actual=f.get("actual")))
        for kh in b.get("known_hits", []):
            pass

    # ---- evidence
    proved_all = (n_obl > 0 and n_obl == n_dis and not undecided_fns and not lost)
    claimed = cfg["level"]
    level = claimed if (claimed != "proof" or proved_all) else "exploration"
    b_eval = sum(b["evaluations"] for b in bounded_res) + native_eval
    b_nontriv = sum(len(b["nontrivial"]) for b in bounded_res)
    samples = []
    for b in bounded_res:
        samples.extend(b["samples"][:3])
    assumes = list(cfg.get("assumes", []))
    if cfg.get("modules"):
        # assumptions of the VC generator itself hold for every property that has functions under contract
        for a in ("A1", "A2", "A10", "A12", "A13", "A14"):
            if a not in assumes:
                assumes.append(a)
    ownership = []
    for mn in cfg.get("modules", []):
        for c in importlib.import_module(mn).M.contracts:
            if pid in c.properties:
                for name, why in (getattr(c, "owned_elements", None) or {}).items():
                    ownership.append("assumed ownership in %s: the elements of `%s` may be updated in place by the loop over them - %s"
                                     % (c.key, name, why))
    trusted = [ASSUMPTIONS[a] for a in sorted(assumes, key=lambda x: int(x[1:]))] + list(cfg.get("trusted", [])) + assumed_lemmas + ownership
    proof_block = dict(
        obligations=n_obl, discharged=n_dis,
        functions_under_contract=functions, lemmas=[dict(name=l["name"], status=l["status"], time_s=l.get("time_s")) for l in lemmas],
        list_dict_lemma_library=dict(obligations=len(universe), discharged=sum(1 for u in universe if u["status"] == "proved")),
        backends=backends, solver_time_s=round(solver_time, 2),
        canaries=dict(total=len(canaries), refuted=sum(1 for c in canaries if c.get("refuted")),
                      not_proved=sum(1 for c in canaries if not c.get("proved"))),
        undischarged=[dict(function=k, obligation=o["name"], status=o["status"], note=o.get("note")) for k, o in lost][:40],
        undecided_functions=[dict(key=f["key"], reason=f["reason"]) for f in undecided_fns],
    )
    coverage = {}
    if level == "proof":
        coverage.update(obligations=n_obl, discharged=n_dis,
                        checker_cmd="./check %s --tier %s  (pyvc: ast->VC, z3 %s + /usr/bin/cvc5)" % (pid, tier, _z3v()),
                        trusted_base=trusted,
                        samples=[o for o in _sample_obligs(proof_res)][:6],
                        proof=proof_block,
                        bounded=dict(evaluations=b_eval, distinct_nontrivial=b_nontriv,
                                     checks=[dict(name=b["name"], evaluations=b["evaluations"], distinct_nontrivial=len(b["nontrivial"]),
                                                  rule=b["rule"], bound=b["bound"]) for b in bounded_res],
                                     function_contract_evaluations=native_eval, samples=samples[:4],
                                     note="bounded stand-in and CPython cross-check; not counted in obligations/discharged"))
    else:
        coverage.update(evaluations=max(b_eval, 0), distinct_nontrivial=b_nontriv,
                        rule="; ".join("%s: %s" % (b["name"], b["rule"]) for b in bounded_res) or cfg.get("rule", ""),
                        samples=samples[:6] or [o for o in _sample_obligs(proof_res)][:3],
                        bound="; ".join(str(b["bound"]) for b in bounded_res),
                        checks=[dict(name=b["name"], evaluations=b["evaluations"], distinct_nontrivial=len(b["nontrivial"]))
                                for b in bounded_res],
                        function_contract_evaluations=native_eval,
                        proved_sub_obligations=proof_block, trusted_base=trusted)
        if claimed == "proof":
            coverage["downgraded_from"] = "proof"
    ev = dict(property_id=pid, tier=tier, seed=seed, level=level, coverage=coverage,
              assumptions=trusted + cfg.get("notes", []), wall_s=round(time.time() - run.t0, 2),
              violations=len(run.violations), notes=run.notes, checker_problems=run.broken)
    write_json(os.path.join(os.environ.get("VERIF_EVIDENCE_DIR") or os.path.join(ROOT, "evidence"), "%s.json" % pid), ev)
    _validate(ev)
    if run.violations:
        return 1
    if run.broken:
        for b in run.broken:
            print("CHECKER-PROBLEM: %s" % b, file=sys.stderr)
        return 3
    for n in run.notes:
        print("note: %s" % n)
    print("OK property=%s tier=%s level=%s obligations=%d/%d bounded_evaluations=%d wall=%.1fs" % (
        pid, tier, level, n_dis, n_obl, b_eval, time.time() - run.t0))
    return 0


def _z3v():
    try:
        import z3
        return z3.get_version_string()
    except Exception:
        return "?"


def _sample_obligs(proof_res):
    for r in proof_res:
        if r.get("kind") == "contract" and "result" in r:
            for o in r["result"]["obligations"][:2]:
                yield dict(obligation=o["name"], kind=o["kind"], note=o["note"], status=o["status"], backend=o["backend"],
                           time_s=o["time_s"])


def _validate(ev):
    try:
        import jsonschema
        schema = json.load(open("/root/.vp/EVIDENCE.schema.json"))
        jsonschema.validate(ev, schema)
    except FileNotFoundError:
        pass
    except Exception as e:
        print("CHECKER-PROBLEM: evidence does not validate: %s" % str(e)[:300], file=sys.stderr)
