import argparse
import json
import os
import sys

sys.path.insert(0, os.path.dirname(os.path.dirname(os.path.abspath(__file__))))
from checks import core        # noqa: E402  (sets sys.path for /repo)
from checks.props import PROPS  # noqa: E402


def main():
    ap = argparse.ArgumentParser()
    ap.add_argument("pid")
    ap.add_argument("--tier", default=os.environ.get("VERIF_TIER", "quick"))
    ap.add_argument("--replay")
    a = ap.parse_args()
    seed = int(os.environ.get("VERIF_SEED", "0") or 0)
    if a.replay:
        from checks import replay
        sys.exit(replay.main(a.pid, a.replay))
    if a.pid not in PROPS:
        print("unknown or not-applicable property %s" % a.pid, file=sys.stderr)
        sys.exit(3)
    from annet.annlib.netdev.views.hardware import HardwareView  # noqa: F401  (import check of the tree under test)
    sys.exit(core.main(a.pid, a.tier, seed, PROPS[a.pid]))


if __name__ == "__main__":
    main()
