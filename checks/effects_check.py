"""Effect / frame obligations (DESIGN 2.5) for C16 and C20: inferred from the real source of every shipped %logic /
%diff_logic / %apply_logic function and of the functions on the diff/patch/order path."""
import glob
import os
import re

from pyvc import effects

REPO = os.environ.get("ANNET_REPO", "/repo")


def shipped_logic_functions():
    """(kind, dotted name) of every custom logic function named in the shipped rulebook texts"""
    out = set()
    for path in sorted(glob.glob(os.path.join(REPO, "annet/rulebook/texts/*"))):
        text = open(path, encoding="utf-8").read()
        for kind, name in re.findall(r"%(logic|diff_logic|apply_logic)=([\w.]+)", text):
            if name != "...":
                out.add((kind, name))
    return sorted(out)


def locate(name):
    """rulebook function path -> (module, function) as import_rulebook_function resolves it"""
    mod, _, fn = name.rpartition(".")
    for base in ("annet.rulebook.", "annet.annlib.rulebook.", ""):
        m = base + mod
        p = os.path.join(REPO, m.replace(".", "/") + ".py")
        if os.path.exists(p):
            return m, fn
    return None, fn


def reads_unchanged(eff):
    """access paths that read the UNCHANGED bucket: definite (literal key) and possible (computed key at op level)"""
    definite, possible = [], []
    for p in eff.reads:
        if "Op.UNCHANGED" in p or "'unchanged'" in p:
            definite.append(p)
        elif p[0] == "diff" and len(p) > 1 and p[1] in ("*", "[]"):
            possible.append(p)
        elif p[0] in ("rule_pre", "root_pre") and len(p) >= 4 and p[-1] in ("*",) and "'items'" in p:
            possible.append(p)
    return definite, possible


def run(tier="quick", seed=0, prop="C16"):
    an = effects.Analyzer(REPO)
    obligations = []
    failures = []
    for kind, name in shipped_logic_functions():
        mod, fn = locate(name)
        rec = dict(name="%s:effects:%s:%s" % (prop, kind, name), kind="frame", line=0, contract=True, backend="effect-inference",
                   time_s=0.0)
        if mod is None:
            rec.update(status="unknown", note="function module not found")
            obligations.append(rec)
            continue
        loc = an.find_function(mod, fn)
        eff = an.summary(*loc) if loc else None
        if eff is None:
            rec.update(status="unknown", note="function %s not found in %s" % (fn, mod))
            obligations.append(rec)
            continue
        if prop == "C16":
            if kind != "logic":
                continue
            definite, possible = reads_unchanged(eff)
            rec["note"] = "%s does not read diff[Op.UNCHANGED] nor the UNCHANGED buckets of rule_pre/root_pre" % name
            if definite:
                rec.update(status="refuted", model="reads " + "; ".join(".".join(p) for p in sorted(definite)[:4]))
                failures.append(dict(key="effects:C16:reads-unchanged:%s" % name,
                                     text="logic function %s reads the UNCHANGED bucket (%s): file mode strips unchanged rows before "
                                          "make_pre, device mode does not" % (name, "; ".join("".join("[%s]" % k for k in p[1:]) and
                                                                                         (p[0] + "".join("[%s]" % k for k in p[1:]))
                                                                                         for p in sorted(definite)[:3])),
                                     case=dict(function=name), expected="no read of an UNCHANGED bucket",
                                     actual=[list(p) for p in sorted(definite)[:6]]))
            elif possible or eff.unknown:
                rec.update(status="unknown", note=rec["note"] + " -- undecided: computed bucket key or unknown callee %s" %
                           (eff.unknown[:2] or [list(p) for p in possible[:2]]))
            else:
                rec.update(status="proved")
        else:  # C20
            allowed = ("rule", "diff") if kind == "logic" else (("old", "new", "diff_pre") if kind == "diff_logic" else ("hw",))
            bad_mut = sorted(p for p in eff.mutates if p[0] not in allowed)
            rec["note"] = "%s mutates at most %s among its arguments and writes no module-level state" % (name, "/".join(allowed))
            if bad_mut or eff.g_writes:
                rec.update(status="refuted", model="mutates %s; writes globals %s" % (bad_mut[:4], sorted(eff.g_writes)))
                failures.append(dict(key="effects:C20:%s:%s" % ("writes-module-state" if eff.g_writes else "mutates-other-argument", name),
                                     text="%s function %s %s" % (kind, name, "writes module-level state %s" % sorted(eff.g_writes)
                                                                 if eff.g_writes else "mutates %s" % bad_mut[:3]),
                                     case=dict(function=name), expected="mutates only rule/diff; no module-level writes",
                                     actual=dict(mutates=[list(p) for p in bad_mut[:6]], g_writes=sorted(eff.g_writes))))
            elif eff.unknown:
                rec.update(status="unknown", note=rec["note"] + " -- undecided: unknown callee %s" % eff.unknown[:2])
            else:
                rec.update(status="proved")
        obligations.append(rec)
    if prop == "C20":
        # functions on the diff / patch / order path: declared frames
        declared = {
            ("annet.annlib.patching", "make_diff"): set(),
            ("annet.annlib.patching", "apply_diff_rb"): {"old", "new"},
            ("annet.annlib.patching", "apply_acl_diff"): set(),
            ("annet.annlib.patching", "mark_unchanged"): set(),
            ("annet.annlib.patching", "strip_unchanged"): set(),
            ("annet.annlib.patching", "make_pre"): set(),
            ("annet.annlib.patching", "apply_acl"): set(),
            ("annet.annlib.patching", "Orderer.order_config"): set(),
            ("annet.annlib.patching", "Orderer.get_order"): set(),
            ("annet.annlib.patching", "PatchTree.sort"): {"self"},
            ("annet.annlib.rulebook.common", "call_diff_logic"): set(),
        }
        for (mod, fn), allowed in declared.items():
            eff = an.summary(mod, fn)
            rec = dict(name="C20:effects:frame:%s.%s" % (mod, fn), kind="frame", line=0, contract=True, backend="effect-inference", time_s=0.0,
                       note="%s modifies at most %s among its parameters and writes no module-level state" % (fn, sorted(allowed) or "nothing"))
            if eff is None:
                rec.update(status="unknown", note="not found")
            else:
                bad = sorted(p for p in eff.mutates if p[0] not in allowed and not (
                    len(p) >= 2 and p[-1] == "='match'" and p[-2] == "'attrs'"))     # the declared ACL scratch field
                if bad or eff.g_writes:
                    rec.update(status="unknown", model="may mutate %s; globals %s" % (bad[:4], sorted(eff.g_writes)))
                else:
                    rec.update(status="proved")
            obligations.append(rec)
        # the Orderer holds the provider-cached compiled ordering rulebook in self.rb: its methods may REBIND their own attributes
        # (self.rb = merge_dicts(...)) and call their own methods, but must not write into the object behind an attribute
        for fn in ("Orderer.__init__", "Orderer.insert", "Orderer.ref_insert"):
            eff = an.summary("annet.annlib.patching", fn)
            rec = dict(name="C20:effects:rebind-only:annet.annlib.patching.%s" % fn, kind="frame", line=0, contract=True,
                       backend="effect-inference", time_s=0.0,
                       note="%s rebinds attributes of self at most: no write into the shared rulebook behind self.rb, no module state" % fn)
            if eff is None:
                rec.update(status="unknown", note="not found")
            else:
                bad = sorted(p for p in eff.mutates if not (p[0] == "self" and len(p) == 2 and p[1].startswith("=.")))
                if bad or eff.g_writes:
                    rec.update(status="unknown", model="may mutate %s; globals %s" % (bad[:4], sorted(eff.g_writes)))
                else:
                    rec.update(status="proved")
            obligations.append(rec)
    return dict(obligations=obligations, failures=failures, skipped=[])


def run_c16(tier="quick", seed=0):
    return run(tier, seed, "C16")


def run_c20(tier="quick", seed=0):
    return run(tier, seed, "C20")


def replay(case):
    an = effects.Analyzer(REPO)
    mod, fn = locate(case["function"])
    eff = an.summary(mod, fn)
    d, p = reads_unchanged(eff)
    return dict(ok=not d, expected="no read of an UNCHANGED bucket", actual=[list(x) for x in sorted(d)])
