"""C07, proved layer: for each enumerated rule pattern p, the regular language of the REAL compiled regexp
(`compile_row_regexp(p)`, or the regexp object stored in a compiled shipped rulebook) equals the reference language
built from the tokens of p by the prose of the rule language -- for ALL rows (z3 regular-expression theory).

The pattern quantifier is enumerated (stated bound); the row quantifier is not.  Rows are strings over printable ASCII,
space and tab without leading / trailing blanks (what parse_to_tree hands on).  A counter-model is a row: it is replayed
through the real `re` object and through an independent token-level Python matcher before being reported.
"""
import itertools
import multiprocessing as mp
import os
import re
import time
import traceback

import z3

from pyvc import relang
from pyvc.relang import Unsupported

META = set("()[]{}|\\.+?^$")


def _is_regexy(tok):
    return any(c in META for c in tok) or "*" in tok


def split_params(raw_rule):
    """the row part of a raw rule line (own reading of the rulebook syntax: params start at the first ` %name`)"""
    m = re.search(r"(^|\s)%[a-zA-Z_]", raw_rule)
    row = raw_rule[:m.start()] if m else raw_rule
    return re.sub(r"\s+", " ", row.strip())


# ------------------------------------------------------------------------------------------------ reference language
def ref_language(row, flags=0):
    """from the prose: blank-separated words; `*` one blank-free word; `*/re/` one word matching re; `<name>` one word of
    word characters; trailing `~` one or more further words; `...` prefix match; `~/re/` raw regex, prefix match;
    otherwise the last word ends at a word boundary; `(?i)` anywhere: case-insensitive"""
    ic = bool(flags & re.IGNORECASE)
    if "(?i)" in row:
        row = row.replace("(?i)", "")
        ic = True
    f = re.IGNORECASE if ic else 0
    ws = relang._charset({" ", "\t"})
    nonblank = relang._charset(set(relang.ALPHABET) - {" ", "\t"})
    word = relang._charset(set("abcdefghijklmnopqrstuvwxyzABCDEFGHIJKLMNOPQRSTUVWXYZ0123456789_"))
    sigma = relang.SIGMA()
    tail = None
    body = row
    if row.endswith("~"):
        body = row[:-1]
        tail = "tilde"
    elif row.endswith("..."):
        body = row[:-3]
        tail = "dots"
    elif "~/" in row:
        tail = "rawtilde"
    lead_ws = body[:len(body) - len(body.lstrip())]
    trail_ws = body[len(body.rstrip()):]
    toks = body.split()
    parts = []
    for i, tok in enumerate(toks):
        parts.append(_token_language(tok, f, nonblank, word))
    seq = []
    if lead_ws:
        seq.append(z3.Plus(ws))
    for i, p in enumerate(parts):
        if i:
            seq.append(z3.Plus(ws))
        seq.append(p)
    if trail_ws and toks:
        seq.append(z3.Plus(ws))
    if tail == "tilde":
        seq.append(z3.Plus(sigma))
        seq.append(z3.Star(sigma))
    elif tail in ("dots", "rawtilde"):
        seq.append(z3.Star(sigma))
    else:
        seq.append(relang._union([relang.EPS(), z3.Concat(ws, z3.Star(sigma))]))
    seq = [s for s in seq if s is not None]
    return seq[0] if len(seq) == 1 else z3.Concat(*seq)


def _token_language(tok, flags, nonblank, word):
    out = []
    pos = 0
    # a token is a sequence of macro pieces and literal / regex text
    pat = re.compile(r"\*/(\S+)/|<(\w+)>|~/(((?!~/).)+)/|\*")
    if "*" in tok or "<" in tok or "~/" in tok:
        for m in pat.finditer(tok):
            if m.group(0) == "*" and not (m.start() == 0):
                continue        # `*` is the one-word macro only at the start of a word
            if m.start() > pos:
                out.append(_text_language(tok[pos:m.start()], flags))
            if m.group(1) is not None:
                out.append(relang.full_language(_noncapture(m.group(1)), flags))
            elif m.group(2) is not None:
                out.append(z3.Plus(word))
            elif m.group(3) is not None:
                out.append(relang.full_language(m.group(3), flags))
            else:
                out.append(z3.Plus(nonblank))
            pos = m.end()
    if pos < len(tok):
        out.append(_text_language(tok[pos:], flags))
    return out[0] if len(out) == 1 else z3.Concat(*out)


def _noncapture(rx):
    return rx


def _text_language(text, flags):
    """literal text; a word that carries regex syntax is read as that regex (the rule language passes it through)"""
    if not _is_regexy(text):
        if flags & re.IGNORECASE:
            return relang.full_language(re.escape(text), flags)
        return z3.Re(z3.StringVal(text))
    return relang.full_language(text, flags)


# ------------------------------------------------------------------------------------------------ independent python matcher
def py_ref_match(row_pat, line, flags=0):
    """token-level matcher for the plain grammar (literal words, *, */re/, <name>, trailing ~, ..., (?i)); None if the
    pattern uses raw regex words"""
    ic = bool(flags & re.IGNORECASE)
    if "(?i)" in row_pat:
        row_pat = row_pat.replace("(?i)", "")
        ic = True
    tilde = row_pat.endswith("~")
    dots = (not tilde) and row_pat.endswith("...")
    body = row_pat[:-1] if tilde else (row_pat[:-3] if dots else row_pat)
    if "~/" in body:
        return None
    toks = body.split()
    words = re.split(r"[ \t]+", line)
    pos = 0
    rest = line
    for i, tok in enumerate(toks):
        last = i == len(toks) - 1
        m = re.match(r"[ \t]+", rest) if i else None
        if i:
            if not m:
                return False
            rest = rest[m.end():]
        if tok == "*":
            w = re.match(r"[^ \t]+", rest)
        elif tok.startswith("*/") and tok.endswith("/"):
            w = re.match("(?:%s)" % tok[2:-1], rest, re.I if ic else 0)
            if w and last and not (tilde or dots):
                pass
        elif re.fullmatch(r"<\w+>", tok):
            w = re.match(r"\w+", rest)
        elif _is_regexy(tok):
            return None
        else:
            w = re.match(re.escape(tok), rest, re.I if ic else 0)
        if not w:
            return False
        if tok.startswith("*/") or re.fullmatch(r"<\w+>", tok):
            # regex words may match in several ways: undecidable by this simple matcher unless unambiguous
            if not last:
                nxt = rest[w.end():]
                if not re.match(r"[ \t]", nxt):
                    return None
        rest = rest[w.end():]
    if tilde:
        if body.strip() == "":
            return len(rest) > 0
        m = re.match(r"[ \t]+", rest) if (toks and body.endswith((" ", "\t"))) else re.match(r"", rest)
        if toks and body.endswith((" ", "\t")):
            return bool(m) and len(rest[m.end():]) > 0
        return len(rest) > 0
    if dots:
        return True
    return rest == "" or rest[0] in " \t"


# ------------------------------------------------------------------------------------------------ pattern sources
def grammar_patterns(max_tokens):
    lits = ["a", "b", "ab"]
    macros = ["*", "*/[a-c]+/", "<n>"]
    out = []
    for n in range(1, max_tokens + 1):
        for combo in itertools.product(lits + macros, repeat=n):
            base = " ".join(combo)
            out.append(base)
            out.append(base + " ~")
            if n <= 2:
                out.append(base + "...")
                out.append("(?i)" + base)
                out.append(base + "~")
    out.append("~")
    return out


def shipped_patterns():
    """(kind, vendor, row text, compiled regex object) for every rule of the shipped patching / ordering rulebooks"""
    from bounded.common import setup_annet
    setup_annet()
    from annet.vendors import registry_connector
    from annet.annlib.netdev.views.hardware import HardwareView
    from annet.rulebook import get_rulebook
    canon = {"huawei": "Huawei CE6870", "h3c": "H3C S6800", "optixtrans": "Huawei OptiXtrans DC908", "cisco": "Cisco Catalyst 2960",
             "nexus": "Cisco Nexus 3172", "iosxr": "Cisco ASR9001", "arista": "Arista DCS-7368", "aruba": "Aruba AP-505",
             "b4com": "B4com 4100", "juniper": "Juniper MX480", "ribbon": "Ribbon NPT-1200", "nokia": "Nokia 7750",
             "routeros": "RouterOS RB2011", "pc": "PC Mellanox SN3700"}
    out = []
    seen = set()

    def add(kind, vendor, row, rx):
        k = (row, rx.pattern, rx.flags)
        if k not in seen:
            seen.add(k)
            out.append((kind, vendor, row, rx))
    for vendor, model in sorted(canon.items()):
        try:
            hw = HardwareView(model, "")
            rb = get_rulebook(hw)
        except Exception:
            continue
        rev = registry_connector.get()[hw.vendor].reverse if hw.vendor in registry_connector.get() else "no"

        def walk_p(rules):
            for scope in ("local", "global"):
                for raw_rule, rule in (rules.get(scope) or {}).items():
                    row = split_params(raw_rule)
                    if row.startswith("!"):
                        row = row[1:].strip()
                    add("patching", vendor, row, rule["attrs"]["regexp"])
                    if rule.get("children"):
                        walk_p(rule["children"])

        def walk_o(rules):
            for raw_rule, rule in rules.items():
                row = split_params(raw_rule)
                add("ordering", vendor, row, rule["attrs"]["direct_regexp"])
                if row.startswith(rev + " "):
                    rrow = re.sub(r"^%s\s+" % re.escape(rev), "", row)
                else:
                    rrow = rev + " " + row
                add("ordering-reverse", vendor, rrow, rule["attrs"]["reverse_regexp"])
                walk_o(rule["children"])
        walk_p(rb["patching"])
        walk_o(rb["ordering"])
    return out


# ------------------------------------------------------------------------------------------------ obligations
def _one(args):
    kind, vendor, row, pattern, flags = args
    t0 = time.time()
    name = "C07:lang:%s:%s:%r" % (kind, vendor, row)
    rec = dict(name=name, kind="post", line=0, note="L(compiled regexp) == reference language of %r" % row, contract=True,
               backend="z3-regex")
    try:
        real = relang.match_language(pattern, flags & re.IGNORECASE)
        ref = ref_language(row, flags)
    except Unsupported as e:
        rec.update(status="skipped", reason=str(e), time_s=0.0)
        return rec
    except re.error as e:
        rec.update(status="skipped", reason="token is not a stand-alone regex (%s)" % e, time_s=0.0)
        return rec
    except Exception:
        rec.update(status="error", reason=traceback.format_exc()[-800:], time_s=0.0)
        return rec
    st, wit = relang.equivalent(real, ref, 10000)
    rec.update(status=st, time_s=round(time.time() - t0, 4))
    if st == "refuted":
        rx = re.compile(pattern, flags)
        real_m = rx.match(wit) is not None
        ref_m = py_ref_match(row, wit, flags)
        rec["witness"] = dict(row=wit, real_match=real_m, reference_match=ref_m, rule_row=row, kind=kind, flags=flags)
        if ref_m is None:
            # the independent matcher cannot decide this pattern: the solver's verdict stands, flagged
            rec["note"] += " (witness not decidable by the python reference)"
        elif ref_m == real_m:
            # both native sides agree on the witness: the SMT translation is at fault, not annet
            rec["status"] = "error"
            rec["reason"] = "spurious counter-model %r: native regexp and native reference agree (%s)" % (wit, real_m)
    return rec


def run(tier="quick", seed=0):
    """-> dict(obligations=[...], failures=[...], skipped=int)"""
    from annet.annlib.rbparser.syntax import compile_row_regexp
    tasks = []
    for p in grammar_patterns(3 if tier == "quick" else 4):
        try:
            rx = compile_row_regexp(p)
        except re.error:
            continue
        tasks.append(("grammar", "-", p, rx.pattern, rx.flags))
    for kind, vendor, row, rx in shipped_patterns():
        tasks.append((kind, vendor, row, rx.pattern, rx.flags))
    with mp.get_context("fork").Pool(16, maxtasksperchild=200) as pool:
        recs = pool.map(_one, tasks, chunksize=8)
    failures = []
    for r in recs:
        if r["status"] == "refuted":
            w = r["witness"]
            failures.append(dict(key="lang:%s" % r["name"], text="compiled regexp and rule-language reference disagree: %s" % r["name"],
                                 case=dict(name=r["name"], row=w["row"], rule_row=w["rule_row"], kind=w["kind"], flags=w["flags"]), expected=dict(reference_match=w["reference_match"]),
                                 actual=dict(real_match=w["real_match"])))
    return dict(obligations=[r for r in recs if r["status"] != "skipped"], failures=failures,
                skipped=[dict(name=r["name"], reason=r.get("reason")) for r in recs if r["status"] == "skipped"])


def replay(case):
    """re-compile the rule row with the real compiler of the current tree and compare on the recorded row"""
    from annet.annlib.rbparser.syntax import compile_row_regexp
    rx = compile_row_regexp(case["rule_row"], case.get("flags", 0) & re.IGNORECASE)
    real_m = rx.match(case["row"]) is not None
    ref_m = py_ref_match(case["rule_row"], case["row"], case.get("flags", 0))
    return dict(ok=(ref_m is None or ref_m == real_m), expected=dict(reference_match=ref_m), actual=dict(real_match=real_m, regexp=rx.pattern))
