"""C07 bounded layer: rule patterns mean what the rule language says, in every rulebook kind.

The real `compile_row_regexp` / `patching._make_reverse` / `acl._make_reverse` / `_compile_ordering` /
`_compile_deploying` / `match_deploy_rule` are compared with an INDEPENDENT reference written from the prose of the
rule language (docs/usage/acl.rst and the header comments of the shipped rulebooks):

  * a rule is a sequence of blank-separated tokens; a configuration line ("row": no newline, no leading/trailing
    blanks) is a sequence of blank-separated words; token i is matched against word i;
  * a literal token matches exactly that word; `*` matches exactly one (blank-free) word and binds it;
    `*/re/` binds whatever `re` matches there (`*/re/suffix`: <something fitting re> + suffix, the <something> is bound);
    the compiler passes the regex through, so this is one word unless the rule author's regex itself can consume blanks
    (`.*`), in which case it may run over several words - then every way of cutting the row is feasible and the real key
    has to be one of the feasible keys (`ref_match_all`);
  * a trailing `~` needs at least one further word and binds the rest of the line (`prefix~`: the rest of the line
    starts with `prefix`, is longer than it, the remainder is bound);
  * a trailing `~/re/` needs at least one further word and the rest of the line must START with a match of `re`
    (nothing is bound, no word boundary afterwards: `ip routing vrf ~/(?!MEth|MGMT)/`); `~/re/` is outside the property
    statement: it is only exercised with a plain regex and on single-blank rows;
  * a trailing `literal...` is a prefix match: word i starts with `literal`, anything may follow;
  * otherwise the match ends at a word boundary: after the last token the line either ends or goes on with further
    words (`mpls` matches `mpls` and `mpls ldp`, not `mplsx`) - every rule is a prefix match in words;
  * a token that is a blank-free regular expression (`mpls$`, `(ftp|FTP)`, `Vlan\\d+`) matches what that regex matches
    (one word, unless the regex can consume blanks), binds nothing (the documented "any string fitting the regex" reading);
  * `(?i)` makes the whole rule case-insensitive (documented as a prefix; shipped texts also have it inside a
    placeholder regex; it is a flag, not a word of the rule);
  * the key is the tuple of bound strings, in order;
  * the removal command template of a rule is: the vendor's negation word followed by the rule's tokens, or the rule's
    tokens without their leading negation word if the rule already starts with it; placeholders replaced by the key
    elements (suffix/prefix literals kept), `~/re/` dropped.

Everything the prose does not define is NOT modelled and such shipped patterns are counted and skipped (see
`parse_pattern`): a placeholder glued into the middle of a word, `~`/`~/re/` that is not the last token, `<name>`,
regex tokens that are not a self-contained one-word regex (groups spanning blanks, top-level `|`, `^`), and the
capture behaviour of raw regex groups.
"""
import hashlib
import itertools
import re
import types

from bounded.common import setup_annet

setup_annet()

from annet.annlib.rbparser import syntax  # noqa: E402
from annet.annlib.rbparser import acl as rb_acl  # noqa: E402
from annet.annlib.rbparser import ordering as rb_ordering  # noqa: E402
from annet.rulebook import patching as rb_patching  # noqa: E402
from annet.rulebook import deploying as rb_deploying  # noqa: E402

K = "bounded:C07:"
MAXF = 3

# --------------------------------------------------------------------------------------------------------------------
# reference: pattern parser
_META = set("\\.^$*+?{}[]()|")
_NOT_PLAIN = _META | set("~<>")


def _plain(s):
    return all(c not in _NOT_PLAIN for c in s)


class Unmodelled(Exception):
    pass


def _toplevel_has(src, chars):
    """does regex source `src` contain one of `chars` outside a character class / escape, at group depth 0 (for '|')
    or anywhere outside a class (for '^')"""
    depth = 0
    in_class = False
    i = 0
    while i < len(src):
        c = src[i]
        if c == "\\":
            i += 2
            continue
        if in_class:
            if c == "]":
                in_class = False
        elif c == "[":
            in_class = True
            if src[i + 1:i + 2] == "^":
                i += 1
            if src[i + 1:i + 2] == "]":
                i += 1
        elif c == "(":
            depth += 1
        elif c == ")":
            depth -= 1
        elif c in chars:
            if c == "|" and depth == 0:
                return True
            if c != "|":
                return True
        i += 1
    return False


def _has_capturing_group(src):
    in_class = False
    i = 0
    while i < len(src):
        c = src[i]
        if c == "\\":
            i += 2
            continue
        if in_class:
            if c == "]":
                in_class = False
        elif c == "[":
            in_class = True
        elif c == "(" and src[i + 1:i + 2] != "?":
            return True
        elif c == "(" and src[i + 1:i + 3] == "?P":
            return True
        i += 1
    return False


def _check_word_regex(src, grouped=False):
    if src == "":
        raise Unmodelled("empty regex")
    try:
        re.compile(src)
    except (re.error, RecursionError, OverflowError):
        raise Unmodelled("token is not a self-contained regex")
    if not grouped and _toplevel_has(src, "|"):
        raise Unmodelled("top-level alternation in a token")
    if _toplevel_has(src, "^"):
        raise Unmodelled("'^' inside a token")
    if "(?<" in src:
        raise Unmodelled("look-behind inside a token")


def parse_pattern(pattern):
    """-> (icase, tokens, notes); tokens: list of tuples
         ("LIT", word) | ("STAR",) | ("STARRE", regex, suffix) | ("RAW", regex)
         and only as the last one: ("TILDE", prefix) | ("TILDERE", regex) | ("DOTS", prefix)
       notes: set of strings, "rawgroups" = a RAW token has capturing groups (key not modelled)
       raises Unmodelled(reason)"""
    icase = "(?i)" in pattern
    if icase:
        pattern = pattern.replace("(?i)", "")
    toks = pattern.split()
    if not toks:
        raise Unmodelled("empty pattern")
    out = []
    notes = set()
    has_star = "*" in pattern   # with any `*` in the rule its raw ( ) groups bind nothing; without, nothing is asserted about them
    for n, t in enumerate(toks):
        last = n == len(toks) - 1
        if "{" in t or "}" in t:
            raise Unmodelled("brace in a token")
        if _plain(t):
            out.append(("LIT", t))
        elif t == "*":
            out.append(("STAR",))
        elif t.startswith("*/") and t.rfind("/") > 2 and "*/" not in t[2:t.rfind("/")] and "~" not in t[t.rfind("/"):] \
                and not (last and t.endswith("...")):
            cut = t.rfind("/")
            rx, suffix = t[2:cut], t[cut + 1:]
            if not _plain(suffix):
                raise Unmodelled("non-literal text glued after */re/")
            if "~/" in rx or "<" in rx:
                raise Unmodelled("macro inside */re/")
            _check_word_regex(rx, grouped=True)
            out.append(("STARRE", rx, suffix))
        elif last and t.endswith("~") and _plain(t[:-1]):
            out.append(("TILDE", t[:-1]))
        elif last and t.startswith("~/") and t.endswith("/") and len(t) > 3:
            rx = t[2:-1]
            if "~/" in rx or "<" in rx or "*" in t[:1]:
                raise Unmodelled("macro inside ~/re/")
            try:
                re.compile(rx)
            except re.error:
                raise Unmodelled("~/re/ is not a regex")
            if _has_capturing_group(rx) and not has_star:
                notes.add("rawgroups")
            out.append(("TILDERE", rx))
        elif last and t.endswith("...") and _plain(t[:-3]) and t != "...":
            out.append(("DOTS", t[:-3]))
        elif "~" in t:
            raise Unmodelled("'~' that is not a trailing placeholder")
        elif "<" in t or ">" in t:
            raise Unmodelled("<name> macro / angle bracket")
        elif t.startswith("*") or "*/" in t:
            raise Unmodelled("placeholder glued into a word")
        elif last and t.endswith("..."):
            raise Unmodelled("'...' after a non-literal")
        else:
            _check_word_regex(t)
            if _has_capturing_group(t) and not has_star:
                notes.add("rawgroups")
            out.append(("RAW", t))
    return icase, out, notes


# --------------------------------------------------------------------------------------------------------------------
# reference: matcher
_rx_cache = {}


def _word_fits(rx, word, is_last, icase):
    """does blank-free `word` as a whole fit regex `rx`, the line ending after it (is_last) or going on with a blank"""
    k = (rx, word, is_last, icase)
    r = _rx_cache.get(k)
    if r is None:
        fl = re.I if icase else 0
        if is_last:
            r = re.compile("(?:%s)" % rx, fl).fullmatch(word) is not None
        else:
            m = re.compile("(?:%s)(?=\\s)" % rx, fl).match(word + " ")
            r = m is not None and m.end() == len(word)
        if len(_rx_cache) > 400000:
            _rx_cache.clear()
        _rx_cache[k] = r
    return r


def _eq(a, b, icase):
    return a == b or (icase and a.lower() == b.lower())


_ws = re.compile(r"\s+")


def split_row(row):
    """-> words, start offsets"""
    words, starts = [], []
    pos = 0
    for m in _ws.finditer(row):
        words.append(row[pos:m.start()])
        starts.append(pos)
        pos = m.end()
    words.append(row[pos:])
    starts.append(pos)
    return words, starts


def _ref_match_words(icase, toks, row):
    """word-wise matcher (every regex token can only cover one word)"""
    words, starts = split_row(row)
    nw = len(words)
    key = []
    for i, t in enumerate(toks):
        if i >= nw:
            return False, None
        w = words[i]
        kind = t[0]
        is_last_word = i == nw - 1
        if kind == "LIT":
            if not _eq(t[1], w, icase):
                return False, None
        elif kind == "STAR":
            key.append(w)
        elif kind == "STARRE":
            rx, suffix = t[1], t[2]
            if suffix:
                if len(w) < len(suffix) or not _eq(w[len(w) - len(suffix):], suffix, icase):
                    return False, None
                if not _word_fits("(?:%s)%s" % (rx, re.escape(suffix)), w, is_last_word, icase):
                    return False, None
                key.append(w[:len(w) - len(suffix)])
            else:
                if not _word_fits(rx, w, is_last_word, icase):
                    return False, None
                key.append(w)
        elif kind == "RAW":
            if not _word_fits(t[1], w, is_last_word, icase):
                return False, None
        elif kind == "TILDE":
            rest = row[starts[i]:]
            p = t[1]
            if len(rest) <= len(p) or not _eq(rest[:len(p)], p, icase):
                return False, None
            key.append(rest[len(p):])
        elif kind == "TILDERE":
            rest = row[starts[i]:]
            if re.compile(t[1], re.I if icase else 0).match(rest) is None:
                return False, None
        elif kind == "DOTS":
            p = t[1]
            if not _eq(w[:len(p)], p, icase):
                return False, None
        else:
            raise AssertionError(kind)
    return True, tuple(key)


_span_cache = {}


def _spans(tok):
    """a regex token whose regex can consume blanks: the compiler passes the regex through, so it binds whatever the regex
    matches, possibly several words"""
    k = tok
    r = _span_cache.get(k)
    if r is None:
        r = tok[0] in ("STARRE", "RAW") and _can_span(tok[1])
        _span_cache[k] = r
    return r


_ctx_rx = {}


def _span_fits(rx, row, pos, end, icase):
    """does `rx` match exactly row[pos:end], seen in the context of the whole row ('$' and look-aheads see the real rest)"""
    k = (rx, len(row) - end, icase)
    c = _ctx_rx.get(k)
    if c is None:
        c = re.compile("(?:%s)(?=[\\s\\S]{%d}\\Z)" % (rx, len(row) - end), re.I if icase else 0)
        _ctx_rx[k] = c
    return c.match(row, pos) is not None


def _ref_match_general(icase, toks, row):
    """position-wise matcher for rules with a regex token that may run over blanks -> set of feasible keys"""
    n = len(row)
    out = set()

    def word_end(p):
        e = p
        while e < n and not row[e].isspace():
            e += 1
        return e

    def after(ti, e, key):
        """token ti ended at e (a word boundary)"""
        if ti == len(toks) - 1:
            out.add(tuple(key))
            return
        if e >= n:
            return
        run = e
        while run < n and row[run].isspace():
            run += 1
        nxt = toks[ti + 1]
        starts = range(e + 1, run + 1) if (_spans(nxt) or nxt[0] in ("TILDE", "TILDERE")) else (run,)
        for p in starts:
            at(ti + 1, p, key)

    def at(ti, p, key):
        t = toks[ti]
        kind = t[0]
        if p >= n and kind not in ("STARRE", "RAW"):
            return
        if _spans(t):
            suffix = t[2] if kind == "STARRE" else ""
            rx = "(?:%s)%s" % (t[1], re.escape(suffix)) if suffix else t[1]
            for e in range(p, n + 1):
                if e < n and not row[e].isspace():
                    continue
                if _span_fits(rx, row, p, e, icase):
                    after(ti, e, key + [row[p:e - len(suffix)]] if kind == "STARRE" else key)
            return
        if kind in ("TILDE", "TILDERE"):
            rest = row[p:]
            if kind == "TILDE":
                pre = t[1]
                if len(rest) > len(pre) and _eq(rest[:len(pre)], pre, icase):
                    out.add(tuple(key + [rest[len(pre):]]))
            elif re.compile(t[1], re.I if icase else 0).match(rest) is not None:
                out.add(tuple(key))
            return
        e = word_end(p)
        w = row[p:e]
        if not w:
            return
        if kind == "LIT":
            if _eq(t[1], w, icase):
                after(ti, e, key)
        elif kind == "STAR":
            after(ti, e, key + [w])
        elif kind == "STARRE":
            suffix = t[2]
            if suffix and (len(w) < len(suffix) or not _eq(w[len(w) - len(suffix):], suffix, icase)):
                return
            rx = "(?:%s)%s" % (t[1], re.escape(suffix)) if suffix else t[1]
            if _word_fits(rx, w, e == n, icase):
                after(ti, e, key + [w[:len(w) - len(suffix)]])
        elif kind == "RAW":
            if _word_fits(t[1], w, e == n, icase):
                after(ti, e, key)
        elif kind == "DOTS":
            if _eq(w[:len(t[1])], t[1], icase):
                out.add(tuple(key))
        else:
            raise AssertionError(kind)

    at(0, 0, [])
    return out


def ref_match_all(icase, toks, row):
    """-> list of the feasible keys (empty: no match). Exactly one key unless a regex token can run over blanks and the
    row can be cut in several ways"""
    if any(_spans(t) for t in toks):
        return sorted(_ref_match_general(icase, toks, row))
    ok, key = _ref_match_words(icase, toks, row)
    return [key] if ok else []


def ref_match_tokens(icase, toks, row):
    keys = ref_match_all(icase, toks, row)
    return (True, keys[0]) if keys else (False, None)


def ref_match(pattern, row):
    """the reference matcher: (matched, key)"""
    icase, toks, _notes = parse_pattern(pattern)
    ok, key = ref_match_tokens(icase, toks, row)
    return ok, (key if ok else ())


def ref_negate_tokens(toks, prefix):
    """tokens of the negated rule: drop the leading negation word, or put it in front"""
    if len(toks) > 1 and toks[0] == ("LIT", prefix):
        return toks[1:]
    return [("LIT", prefix)] + list(toks)


def ref_command(toks, key):
    """the rule's words with the key substituted"""
    out = []
    key = list(key)
    for t in toks:
        kind = t[0]
        if kind == "LIT":
            out.append(t[1])
        elif kind == "STAR":
            out.append(key.pop(0))
        elif kind == "STARRE":
            out.append(key.pop(0) + t[2])
        elif kind == "RAW":
            out.append(t[1])
        elif kind == "TILDE":
            out.append(t[1] + key.pop(0))
        elif kind == "TILDERE":
            pass
        elif kind == "DOTS":
            out.append(t[1] + "...")
    assert not key
    return " ".join(out)


def ref_reverse(pattern, prefix, key):
    _icase, toks, _ = parse_pattern(pattern)
    return ref_command(ref_negate_tokens(toks, prefix), key)


# --------------------------------------------------------------------------------------------------------------------
# example words for a regex (to synthesise matching rows); every candidate is verified with the regex itself
from bounded.rx_examples import candidates as _rx_candidates, _sre, _sc  # noqa: E402


_ex_cache = {}


def example_words(rx, icase=False, limit=3):
    k = (rx, icase)
    if k in _ex_cache:
        return _ex_cache[k]
    out = []
    try:
        cands = _rx_candidates(rx, 12)
    except Exception:
        cands = []
    for c in cands + ["x1", "7", "Ab-1/0.2"]:
        if c and not _ws.search(c) and c not in out and _word_fits(rx, c, True, icase) and _word_fits(rx, c, False, icase):
            out.append(c)
        if len(out) >= limit:
            break
    if not out:
        for c in cands:
            if c and not _ws.search(c) and c not in out and _word_fits(rx, c, True, icase):
                out.append(c)
                break
    _ex_cache[k] = out
    return out


def synth_rows(toks, icase, variants=2):
    """rows built from the tokens (placeholders filled with words) -> list of word lists (may be empty)"""
    rows = []
    for v in range(variants):
        ws = []
        ok = True
        for t in toks:
            kind = t[0]
            if kind == "LIT":
                ws.append(t[1])
            elif kind == "STAR":
                ws.append(["x1", "Eth1/0.5"][v % 2])
            elif kind == "STARRE":
                ex = example_words(t[1], icase)
                if not ex:
                    ok = False
                    break
                ws.append(ex[v % len(ex)] + t[2])
            elif kind == "RAW":
                ex = example_words(t[1], icase)
                if not ex:
                    ok = False
                    break
                ws.append(ex[v % len(ex)])
            elif kind == "TILDE":
                ws.append(t[1] + ["r1", "r1"][v % 2])
                if v % 2:
                    ws.append("r2")
            elif kind == "TILDERE":
                ex = example_words(t[1], icase)
                ws.append((ex[v % len(ex)] if ex else "q9"))
            elif kind == "DOTS":
                ws.append(t[1] + ["", "tail"][v % 2])
        if ok and ws not in rows:
            rows.append(ws)
    return rows


def mutations(ws):
    """near-miss rows of a word list -> set of row strings"""
    out = set()

    def add(words, sep=" "):
        s = sep.join(w for w in words if w != "").strip()
        if s:
            out.add(s)

    add(ws)
    add(ws, "  ")
    add(ws, "\t")
    add(ws + ["zz"])
    add(ws + ["zz", "yy"])
    add(["no"] + ws)
    add(["undo"] + ws)
    add([w.upper() for w in ws])
    for i in range(len(ws)):
        add(ws[:i] + ws[i + 1:])                               # word dropped
        if i + 1 < len(ws):
            add(ws[:i] + [ws[i] + ws[i + 1]] + ws[i + 2:])     # two words glued
            add(ws[:i + 1] + ["zz"] + ws[i + 1:])              # word inserted
        add(ws[:i] + [ws[i].swapcase()] + ws[i + 1:])          # case changed
        add(ws[:i] + [ws[i][:-1]] + ws[i + 1:])                # prefix of the word
        add(ws[:i] + [ws[i] + "x"] + ws[i + 1:])               # word continued
        add(ws[:i] + [ws[i] + "x"] + ws[i + 1:] + ["zz"])
    return out


# --------------------------------------------------------------------------------------------------------------------
# part 1: exhaustive grammar
LITS = ["a", "ab", "no"]
INNER = ["*", "*/[ab]+/", "*/(a|n)o?/"]
FINALS = ["~", "ab...", "~/[ab]+/"]
ROW_WORDS = ["a", "ab", "no", "A", "b", "abc", "noa"]   # quick tier: the first six
PREFIX = "no"   # cisco's negation word


def grammar_patterns(max_tokens):
    inner = LITS + INNER
    for n in range(1, max_tokens + 1):
        for head in itertools.product(inner, repeat=n - 1):
            for last in inner + FINALS:
                p = " ".join(head + (last,))
                yield p
                yield "(?i)" + p


RAWGROUP = "(a|ab)"


def rawgroup_patterns(max_tokens):
    """rules with a raw parenthesised alternation word next to plain `*` and/or a trailing `~` (no */re/)"""
    inner = LITS + ["*", RAWGROUP]
    for n in range(1, max_tokens + 1):
        for head in itertools.product(inner, repeat=n - 1):
            for last in inner + ["~"]:
                if RAWGROUP not in head and last != RAWGROUP:
                    continue
                p = " ".join(head + (last,))
                yield p
                yield "(?i)" + p


def grammar_rows(max_words, alphabet=None):
    for n in range(1, max_words + 1):
        for ws in itertools.product(alphabet or ROW_WORDS, repeat=n):
            yield " ".join(ws)


class Ctx:
    def __init__(self):
        self.ev = 0
        self.nontrivial = set()
        self.failures = []
        self.fcount = {}
        self.samples = []

    def call(self, where, case, fn, *args, **kw):
        """call into annet: an exception of the code under test becomes a failure `exception:<where>`, never a crash"""
        try:
            return True, fn(*args, **kw)
        except Exception as e:
            self.fail("exception:" + where, "the code under test raises in %s" % where, case, "no exception",
                      "%s: %s" % (type(e).__name__, str(e)[:300]))
            return False, None

    def fail(self, key, text, case, expected, actual):
        n = self.fcount.get(key, 0)
        self.fcount[key] = n + 1
        if n < MAXF:
            self.failures.append(dict(key=K + key, text=text, case=case, expected=_j(expected), actual=_j(actual)))


def _j(x):
    if isinstance(x, (tuple, list)):
        return [_j(v) for v in x]
    if isinstance(x, dict):
        return {str(k): _j(v) for k, v in x.items()}
    if isinstance(x, (str, int, bool, float)) or x is None:
        return x
    return str(x)


def _hash(*a):
    return hashlib.md5(repr(a).encode()).hexdigest()[:12]


def _can_span(rx):
    """can the regex consume a blank (so that, inlined by the compiler, it may run over several words)?"""
    try:
        tree = _sre.parse(rx)
    except Exception:
        return True

    def walk(items):
        for op, av in items:
            if op is _sc.ANY:
                return True
            if op is _sc.NOT_LITERAL and chr(av) != " ":
                return True
            if op is _sc.LITERAL and chr(av).isspace():
                return True
            if op is _sc.IN:
                neg = any(o is _sc.NEGATE for o, _ in av)
                has_space = any((o is _sc.LITERAL and chr(v).isspace()) or (o is _sc.CATEGORY and v in (
                    _sc.CATEGORY_SPACE, _sc.CATEGORY_NOT_WORD, _sc.CATEGORY_NOT_DIGIT)) for o, v in av if o is not _sc.NEGATE)
                if (neg and not has_space and not any(o is _sc.CATEGORY and v is _sc.CATEGORY_NOT_SPACE for o, v in av)) or (not neg and has_space):
                    return True
            if op is _sc.CATEGORY and av in (_sc.CATEGORY_SPACE, _sc.CATEGORY_NOT_WORD, _sc.CATEGORY_NOT_DIGIT):
                return True
            if op is _sc.BRANCH:
                if any(walk(b) for b in av[1]):
                    return True
            if op is _sc.SUBPATTERN and walk(av[3]):
                return True
            if op in (_sc.MAX_REPEAT, _sc.MIN_REPEAT) and walk(av[2]):
                return True
        return False
    return walk(tree)


def classify(what, toks, row, exp_ok, got_ok):
    """stable key of a disagreement"""
    if got_ok == exp_ok:
        return what + ":key"
    return what + ":match" + ("-extra" if got_ok else "-missed")


def check_regex_on_rows(ctx, what, case_base, rx, icase, toks, notes, rows, key_check=True):
    """compare compiled regex `rx` with the reference (icase, toks) on every row; returns (n_match, n_nomatch)"""
    nm = nn = 0
    for row in rows:
        ctx.ev += 1
        keys = ref_match_all(icase, toks, row)
        exp_ok = bool(keys)
        m = rx.match(row)
        got_ok = m is not None
        if exp_ok:
            nm += 1
        else:
            nn += 1
        if got_ok != exp_ok:
            ctx.fail(classify(what, toks, row, exp_ok, got_ok),
                     "%s: the compiled regex %s a row the rule language says it %s"
                     % (what, "matches" if got_ok else "rejects", "rejects" if got_ok else "matches"),
                     dict(case_base, row=row, regex=rx.pattern, flags=int(rx.flags)), [exp_ok, keys], [got_ok, m.groups() if m else None])
        elif got_ok and key_check and "rawgroups" not in notes and tuple(m.groups()) not in keys:
            ctx.fail(classify(what, toks, row, exp_ok, got_ok), "%s: the extracted key is not the words bound to the placeholders" % what,
                     dict(case_base, row=row, regex=rx.pattern, flags=int(rx.flags)), [exp_ok, keys], [got_ok, m.groups()])
    return nm, nn


def check_reverse_template(ctx, what, case_base, template, toks, prefix, icase, rows):
    """template.format(*key) must be the negation word + the rule's words with the key substituted"""
    neg = ref_negate_tokens(toks, prefix)
    for row in rows:
        ok, key = ref_match_tokens(icase, toks, row)
        if not ok:
            continue
        ctx.ev += 1
        exp = ref_command(neg, key)
        try:
            got = template.format(*key)
        except Exception as e:  # IndexError / KeyError / ValueError from str.format
            got = "%s: %s" % (type(e).__name__, e)
        if got != exp:
            sub = "patching-reverse:keeps-(?i)-text" if "(?i)" in template else what + ":reverse-template"
            ctx.fail(sub, "%s: reverse template does not give <negation word> + rule words with the key substituted" % what,
                     dict(case_base, row=row, key=list(key), template=template, prefix=prefix), exp, got)


def run_grammar(ctx, tier, part, nparts):
    max_tokens = 3 if tier == "quick" else 4
    alphabet = ROW_WORDS[:6] if tier == "quick" else ROW_WORDS
    rows = list(grammar_rows(5, alphabet))
    pats = list(grammar_patterns(max_tokens)) + list(rawgroup_patterns(3))
    for i, p in enumerate(pats):
        if i % nparts != part:
            continue
        icase, toks, notes = parse_pattern(p)
        case = dict(section="grammar", pattern=p)
        ok_, rx = ctx.call("compile_row_regexp", case, syntax.compile_row_regexp, p)
        if not ok_:
            continue
        if bool(rx.flags & re.I) != icase:
            ctx.fail("compile_row_regexp:(?i)-flag", "(?i) in the rule must make the compiled regex case-insensitive (and only that)",
                     case, icase, bool(rx.flags & re.I))
        nm, nn = check_regex_on_rows(ctx, "compile_row_regexp", case, rx, icase, toks, notes, rows)
        if nm and nn and (icase or any(t[0] != "LIT" for t in toks)):
            ctx.nontrivial.add(_hash("g", p))
        # reverse template of the patching rulebook, on the matching rows with <= len(toks)+1 words
        few = rows[:sum(len(alphabet) ** k for k in range(1, min(len(toks) + 1, 5) + 1))]
        ok_, tmpl = ctx.call("patching._make_reverse", dict(case, prefix=PREFIX), rb_patching._make_reverse, p, PREFIX)
        if not ok_:
            continue
        check_reverse_template(ctx, "patching._make_reverse", case, tmpl, toks, PREFIX, icase, few)
        ok_, tmpl2 = ctx.call("patching._make_reverse", dict(case, prefix=PREFIX, flags=int(rx.flags)), rb_patching._make_reverse, p, PREFIX, flags=rx.flags)
        if ok_ and tmpl2 != tmpl:
            ctx.fail("patching._make_reverse:flags", "the reverse template must not depend on the regex flags", case, tmpl, tmpl2)
        if part == 0 and len(ctx.samples) < 1 and len(toks) == 3 and toks[1][0] == "STARRE":
            r = "no ab a"
            ctx.samples.append(dict(pattern=p, row=r, expected=_j(ref_match(p, r)), reverse=tmpl))


# --------------------------------------------------------------------------------------------------------------------
# part 1b: every vendor's negation word next to rule words that merely BEGIN with it
NEAR_WORDS = {"no": ["notify", "nothing"], "undo": ["undoable", "undone"], "delete": ["deleted", "deletes"], "remove": ["removed", "remover"]}


def run_negation_words(ctx, part, nparts):
    from annet.vendors import registry_connector
    reg = registry_connector.get()
    by_prefix = {}
    for name in reg:
        by_prefix.setdefault(reg[name].reverse, name)
    idx = 0
    for prefix, vendor in sorted(by_prefix.items()):
        near = NEAR_WORDS.get(prefix, [prefix + "x", prefix + prefix])
        inner = [prefix] + near + ["a", "*"]
        pats = []
        for n in (1, 2, 3):
            for head in itertools.product(inner, repeat=n - 1):
                for last in inner + ["~", near[0] + "~"]:
                    pats.append(" ".join(head + (last,)))
        mine = []
        for p in pats:
            idx += 1
            if (idx - 1) % nparts == part:
                mine.append(p)
        if not mine:
            continue
        text = "\n".join(mine) + "\n"
        ok_o, ordering = ctx.call("compile_ordering_text", dict(section="negation-words", vendor=vendor), rb_ordering.compile_ordering_text, text, vendor)
        for p in mine:
            icase, toks, notes = parse_pattern(p)
            neg = ref_negate_tokens(toks, prefix)
            case = dict(section="negation-words", pattern=p, prefix=prefix, vendor=vendor)
            rows = sorted(set(_rows_for(toks, icase, prefix)) | set(_rows_for(neg, icase, prefix)))
            ok_, tmpl = ctx.call("patching._make_reverse", case, rb_patching._make_reverse, p, prefix)
            if ok_:
                check_reverse_template(ctx, "patching._make_reverse", case, tmpl, toks, prefix, icase, rows)
            words = p.split(" ")
            exp = " ".join(words[1:]) if (words[0] == prefix and len(words) > 1) else prefix + " " + p
            ctx.ev += 1
            ok_, got = ctx.call("acl._make_reverse", case, rb_acl._make_reverse, p, prefix)
            if ok_ and got != exp:
                ctx.fail("acl._make_reverse:negation", "the negated rule is <negation word> + rule, or the rule without its leading negation word",
                         case, exp, got)
            if ok_o:
                orule = ordering.get(p)
                if orule is None:
                    ctx.fail("ordering:rule-missing", "rule line not found in the compiled ordering rulebook", case, p, list(ordering)[:5])
                else:
                    check_regex_on_rows(ctx, "ordering.direct_regexp", case, orule["attrs"]["direct_regexp"], icase, toks, notes, rows)
                    _check_negated(ctx, "ordering.reverse_regexp", case, orule["attrs"]["reverse_regexp"], icase, neg, notes, rows, p)
            if any(w in near for w in words):
                ctx.nontrivial.add(_hash("n", prefix, p))


# --------------------------------------------------------------------------------------------------------------------
# part 2: grammar patterns through the four real rulebook compilers (shared-compiler claim, negation, (?i))
def _rows_for(toks, icase, prefix):
    rows = set()
    for ws in synth_rows(toks, icase):
        rows |= mutations(ws)
        if ws and ws[0].lower() == prefix:
            rows |= mutations(ws[1:])
    if any(t[0] == "TILDERE" for t in toks):
        # `~/re/` is outside the property statement: only single-blank rows (the regex is inlined after `\\s+`)
        rows = {r for r in rows if r == " ".join(r.split(" ")) and "\t" not in r and "  " not in r}
    return sorted(rows)


def run_compilers(ctx, tier, part, nparts):
    max_tokens = 2 if tier == "quick" else 3
    vendor = "cisco"
    pats = [p for p in grammar_patterns(max_tokens)]
    mine = [p for i, p in enumerate(pats) if i % nparts == part]
    if not mine:
        return
    # one rule text per compiler; patching gets %ignore_case on every second rule that has no (?i)
    plines = []
    ign = {}
    for n, p in enumerate(mine):
        ign[p] = (n % 2 == 1 and "(?i)" not in p)
        plines.append(p + ("   %ignore_case" if ign[p] else ""))
    ptext = "\n".join(plines) + "\n"
    text = "\n".join(mine) + "\n"
    cc = dict(section="compilers", vendor=vendor, patterns=len(mine))
    ok1, patching = ctx.call("compile_patching_text", dict(cc, text=ptext[:300]), rb_patching.compile_patching_text, ptext, vendor)
    ok2, ordering = ctx.call("compile_ordering_text", dict(cc, text=text[:300]), rb_ordering.compile_ordering_text, text, vendor)
    ok3, acl = ctx.call("compile_acl_text", dict(cc, text=text[:300]), rb_acl.compile_acl_text, text, vendor)
    ok4, deploying = ctx.call("compile_deploying_text", dict(cc, text=text[:300]), rb_deploying.compile_deploying_text, text, vendor)
    for n, p in enumerate(mine):
        icase, toks, notes = parse_pattern(p)
        neg = ref_negate_tokens(toks, PREFIX)
        rows = sorted(set(_rows_for(toks, icase, PREFIX)) | set(_rows_for(neg, icase, PREFIX)))
        case = dict(section="compilers", pattern=p, vendor=vendor)
        tot_m = tot_n = 0
        # patching
        prule = patching["local"].get(plines[n]) if ok1 else None
        if not ok1:
            pass
        elif prule is None:
            ctx.fail("patching:rule-missing", "rule line not found in the compiled patching rulebook", case, plines[n], list(patching["local"])[:5])
        else:
            pic = icase or ign[p]
            a = prule["attrs"]
            m_, n_ = check_regex_on_rows(ctx, "patching.regexp", dict(case, ignore_case_param=ign[p]), a["regexp"], pic, toks, notes, rows)
            tot_m += m_
            tot_n += n_
            if bool(a["ignore_case"]) != pic:
                ctx.fail("patching:ignore_case-attr", "attrs.ignore_case must tell whether the rule is case-insensitive ((?i) or %ignore_case)",
                         dict(case, ignore_case_param=ign[p]), pic, a["ignore_case"])
            check_reverse_template(ctx, "patching.reverse", case, a["reverse"], toks, PREFIX, pic, rows)
        # ordering
        orule = ordering.get(p) if ok2 else None
        if not ok2:
            pass
        elif orule is None:
            ctx.fail("ordering:rule-missing", "rule line not found in the compiled ordering rulebook", case, p, list(ordering)[:5])
        else:
            check_regex_on_rows(ctx, "ordering.direct_regexp", case, orule["attrs"]["direct_regexp"], icase, toks, notes, rows)
            _check_negated(ctx, "ordering.reverse_regexp", case, orule["attrs"]["reverse_regexp"], icase, neg, notes, rows, p)
        # acl
        arule = acl["local"].get(p) if ok3 else None
        if not ok3:
            pass
        elif arule is None:
            ctx.fail("acl:rule-missing", "rule line not found in the compiled acl", case, p, list(acl["local"])[:5])
        else:
            check_regex_on_rows(ctx, "acl.direct_regexp", case, arule["attrs"]["direct_regexp"], icase, toks, notes, rows)
            _check_negated(ctx, "acl.reverse_regexp", case, arule["attrs"]["reverse_regexp"], icase, neg, notes, rows, p)
        # deploying
        drule = deploying.get(p) if ok4 else None
        if not ok4:
            pass
        elif drule is None:
            ctx.fail("deploying:rule-missing", "rule line not found in the compiled deploy rulebook", case, p, list(deploying)[:5])
        else:
            check_regex_on_rows(ctx, "deploying.regexp", case, drule["attrs"]["regexp"], icase, toks, notes, rows)
        if tot_m and tot_n:
            ctx.nontrivial.add(_hash("c", p))
    # the real acl negation helper on the pattern text: the negation word is put in front, or taken away if it is there
    # (so negating a negated rule gives back the plain rule)
    for p in mine:
        if "(?i)" in p:
            continue
        ctx.ev += 1
        words = p.split(" ")
        exp = " ".join(words[1:]) if (words[0] == PREFIX and len(words) > 1) else PREFIX + " " + p
        ok_, got = ctx.call("acl._make_reverse", dict(pattern=p, prefix=PREFIX), rb_acl._make_reverse, p, PREFIX)
        if not ok_:
            continue
        if got != exp:
            ctx.fail("acl._make_reverse:negation", "the negated rule is <negation word> + rule, or the rule without its leading negation word",
                     dict(pattern=p, prefix=PREFIX), exp, got)
        if words[0] != PREFIX:
            ok_, back = ctx.call("acl._make_reverse", dict(pattern=got, prefix=PREFIX), rb_acl._make_reverse, got, PREFIX)
            if ok_ and back != p:
                ctx.fail("acl._make_reverse:double-negation", "negating a negated rule must give back the plain rule", dict(pattern=p, prefix=PREFIX), p, back)
    # deploy: path-wise matching on the flat grammar rulebook
    dpats = [(p,) + parse_pattern(p) for p in mine]
    if ok4:
        check_deploy_paths(ctx, dict(section="compilers-deploy", vendor=vendor), deploying,
                           [dict(raw=p, icase=ic, toks=tk, ifcontext=[], children=[]) for (p, ic, tk, _n) in dpats],
                           sorted({r for (p, ic, tk, _n) in dpats[:40] for r in _rows_for(tk, ic, PREFIX)[:12] if r == _norm(r)}))


def _check_negated(ctx, what, case, rx, icase, neg_toks, notes, rows, pattern):
    """the regex of the negated rule; a rule written with (?i) in front of its negation word gets its own key"""
    sub = Ctx()
    check_regex_on_rows(sub, what, case, rx, icase, neg_toks, notes, rows)
    ctx.ev += sub.ev
    for f in sub.failures:
        key = f["key"][len(K):]
        if pattern.startswith("(?i)" + PREFIX + " "):
            key = "negation:(?i)-prefix-hides-negation-word"
            f = dict(f, text=what + ": a rule starting with (?i)<negation word> is not recognised as negated (double negation does not give back the plain rule)")
        ctx.fail(key, f["text"], f["case"], f["expected"], f["actual"])


# --------------------------------------------------------------------------------------------------------------------
# deploy: path-wise matching
UNKNOWN = dict(raw="<unknown>", timeout=-1)


def ref_deploy_select(rules, cmd_path, context):
    """reference for match_deploy_rule. rules: list of dict(raw, icase, toks, ifcontext, children).
    Walk the path from the top: the rule for a row is the first rule of the current level (text order) whose pattern
    matches the row and whose %ifcontext (if any) names a name:value pair present in the context; for the last row that
    rule is the answer; for an inner row the search goes on among its children; an inner row that no rule matches is
    skipped (the level stays - shipped deploy rulebooks are flat and rely on it). No rule -> None (= the default rule)."""
    level = rules
    for depth, row in enumerate(cmd_path):
        found = None
        for r in level:
            if r["toks"] is None:
                return UNKNOWN      # a rule outside the modelled language stands before the first match
            ok, _ = ref_match_tokens(r["icase"], r["toks"], row)
            if not ok:
                continue
            if r["ifcontext"] and not any(context.get(x.split(":")[0]) == x.split(":")[1] for x in r["ifcontext"]):
                continue
            found = r
            break
        if depth == len(cmd_path) - 1:
            return found
        if found is not None:
            level = found["children"]
    return None


def check_deploy_paths(ctx, case_base, deploying, ref_rules, rows, contexts=({},)):
    by_raw = {}

    def index(real, refs):
        for r in refs:
            real_rule = _find_by_norm(real, r["raw"])
            if real_rule is not None:
                by_raw[id(real_rule)] = r["raw"]
                index(real_rule["children"], r["children"])
    index(deploying, ref_rules)
    paths = [(r,) for r in rows]
    paths += [("zz-unmatched-block x", r) for r in rows[::3]]
    paths += [(rows[(i * 7) % len(rows)], r) for i, r in enumerate(rows[::5])] if rows else []
    for context in contexts:
        for path in paths:
            ctx.ev += 1
            exp = ref_deploy_select(ref_rules, path, context)
            if exp is UNKNOWN:
                continue
            exp_raw = exp["raw"] if exp is not None else "<default rule>"
            ok_, got = ctx.call("match_deploy_rule", dict(case_base, cmd_path=list(path), context=context), rb_deploying.match_deploy_rule, deploying, path, context)
            if not ok_:
                continue
            if id(got) in by_raw:
                got_raw = by_raw[id(got)]
            elif got["attrs"]["regexp"].pattern == "^(.+)" and got["attrs"]["timeout"] == 30 and not got["children"]:
                got_raw = "<default rule>"
            else:
                got_raw = "<unknown rule %s>" % got["attrs"]["regexp"].pattern
            if _norm(exp_raw) != _norm(got_raw):
                ctx.fail("match_deploy_rule:selection", "match_deploy_rule does not return the first rule matching path-wise",
                         dict(case_base, cmd_path=list(path), context=context), exp_raw, got_raw)


def run_deploy_nested(ctx, part):
    """a small nested deploy rulebook whose sibling rules have pairwise disjoint languages at every level (a catch-all `~`
    only as the last rule of a leaf level, as shipped), through the real compiler: path-wise descent"""
    if part != 0:
        return
    text = ("a *\n"
            "    ab   %timeout=4\n"
            "    no ~   %timeout=5\n"
            "    ~   %timeout=6\n"
            "ab *   %timeout=7\n"
            "    a *\n"
            "        no   %timeout=8\n"
            "no *\n"
            "    a   %timeout=3\n")
    ok_, deploying = ctx.call("compile_deploying_text", dict(section="deploy-nested", text=text), rb_deploying.compile_deploying_text, text, "cisco")
    if not ok_:
        return
    tree = parse_rule_text(text, "deploy")
    rows = ["a x", "a x y", "ab", "ab x", "no x", "no x y", "a", "b", "no", "a ab", "zz"]
    check_deploy_paths(ctx, dict(section="deploy-nested", text=text), deploying, tree, rows)
    sub = [(a, b) for a in rows for b in rows] + [(a, b, c) for a in rows for b in rows for c in rows]
    for path in sub:
        ctx.ev += 1
        exp = ref_deploy_select(tree, path, {})
        ok_, got = ctx.call("match_deploy_rule", dict(section="deploy-nested", text=text, cmd_path=list(path)), rb_deploying.match_deploy_rule, deploying, path, {})
        if not ok_:
            continue
        exp_t = exp["timeout"] if exp is not None else 30.0
        exp_p = " ".join(exp["raw"].split()[:2]) if exp is not None else "<default>"
        got_t = got["attrs"]["timeout"]
        if float(exp_t) != float(got_t):
            ctx.fail("match_deploy_rule:nested-descent", "nested deploy rulebook: the rule found path-wise (first matching rule per level) is not the one returned",
                     dict(section="deploy-nested", text=text, cmd_path=list(path)), dict(rule=exp_p, timeout=exp_t), dict(regex=got["attrs"]["regexp"].pattern, timeout=got_t))
    ctx.nontrivial.add(_hash("deploy-nested"))


# --------------------------------------------------------------------------------------------------------------------
# part 3: shipped rule texts
def _norm(s):
    return " ".join(s.split())


def _find_by_norm(level, raw):
    want = _norm(raw)
    for k, v in level.items():
        if _norm(k) == want:
            return v
    return None


_param_re = re.compile(r"\s%([a-zA-Z_]\w*)(?:=(\S*))?")


def split_rule_line(line):
    """rule line -> (row pattern, params): the params are the blank-preceded %name[=value] words; the row is what stands
    in front of the first of them"""
    line = line.strip()
    params = {}
    first = None
    for m in _param_re.finditer(line):
        if first is None:
            first = m.start()
        params[m.group(1)] = m.group(2) if m.group(2) else "1"
    row = line if first is None else line[:first]
    return _norm(row), params


def parse_rule_text(text, kind):
    """independent parser of a rendered rule text -> list of dict(raw, row, ignore, icase, toks|None, why, params, children)"""
    from bounded.c05 import ref_parse
    lines = []
    for ln in text.split("\n"):
        st = ln.strip()
        if st.startswith("%") and not st.startswith("%context") and lines:
            lines[-1] = lines[-1] + " " + st     # parameters continued on the next line
        else:
            lines.append(ln)
    tree, err = ref_parse(lines, comments=("#",))
    if err is not None:
        raise ValueError("rule text does not parse (line %s)" % err)

    def conv(node):
        out = []
        for raw, children in node.items():
            row, params = split_rule_line(raw)
            ignore = False
            if row.startswith("%context="):
                continue
            if row.startswith("!"):
                row = row[1:].strip()
                ignore = True
                if not row:
                    continue
            if kind == "deploy" and row.startswith(("ignore:", "dialog:")):
                continue
            if kind in ("order", "deploy") and ignore:
                continue
            d = dict(raw=raw, row=row, ignore=ignore, params=params, toks=None, why=None, notes=set(), icase=False,
                     ifcontext=[x for x in re.split(r"[,\t ]+", params.get("ifcontext", "")) if x],
                     timeout=float(params.get("timeout", 30)))
            try:
                d["icase"], d["toks"], d["notes"] = parse_pattern(row)
            except Unmodelled as e:
                d["why"] = str(e)
            d["children"] = conv(children)
            out.append(d)
        return out
    return conv(tree)


EXTRA_HW = {
    "huawei": ["Huawei CE6870", "Huawei NE40E", "Huawei S5700-52X-LI-AC", "Huawei Quidway S2300"],
    "h3c": [],
    "cisco": ["Cisco ASR 9010", "Cisco XRv", "Cisco Catalyst 2960"],
    "nexus": ["Cisco Nexus 3432", "Cisco Nexus 9316"],
    "pc": ["Mellanox SN3700", "Moxa NPort 6610"],
    "juniper": ["Juniper MX960", "Juniper QFX5200"],
    "arista": ["Arista DCS-7368"],
}

IMPLICIT_MODELS = ["Huawei CE6870", "Huawei NE40E", "Huawei S5700", "Arista DCS-7368", "Cisco Nexus 3432", "Cisco Nexus 3164",
                   "Cisco Nexus 9316", "Cisco Nexus 7010", "Cisco Catalyst 2960", "Cisco Catalyst 6509", "Cisco ASR 9010", "Juniper MX960", "PC"]


def shipped_units(ctx=None):
    """-> list of (unit id, kind, vendor, file, model, text, compiled objects dict, parsed tree) for every vendor and text"""
    from annet.vendors import registry_connector
    from annet.rulebook import DefaultRulebookProvider
    from annet.annlib.rbparser.platform import VENDOR_ALIASES
    from annet.annlib.netdev.views.hardware import HardwareView
    reg = registry_connector.get()
    prov = DefaultRulebookProvider()
    units = []
    seen = set()
    for name in reg:
        hws = [reg[name].hardware] + [HardwareView(m, "") for m in EXTRA_HW.get(name, [])]
        for hw in hws:
            for ext in ("rul", "order", "deploy"):
                fname = (VENDOR_ALIASES.get(name, name) if ext == "rul" else name) + "." + ext
                cvendor = VENDOR_ALIASES.get(name, name) if ext == "rul" else name
                try:
                    text = prov._render_rul(fname, hw)
                except FileNotFoundError:
                    continue
                except Exception as e:
                    if ctx is not None:
                        ctx.fail("exception:render:" + fname, "a shipped rule text does not render", dict(section="shipped", file=fname, model=hw.model),
                                 "no exception", "%s: %s" % (type(e).__name__, str(e)[:300]))
                    continue
                if (fname, cvendor, text) in seen:
                    continue
                seen.add((fname, cvendor, text))
                units.append(dict(kind=ext, vendor=cvendor, file=fname, model=hw.model, text=text, prefix=reg[cvendor].reverse))
    return units


def _walk(ref_rules, path=()):
    for r in ref_rules:
        yield path + (r["raw"],), r
        yield from _walk(r["children"], path + (r["raw"],))


def _real_lookup(kind, compiled, path_rules):
    """find the compiled rule following the path of reference rules; kind in patching/ordering/deploying/acl"""
    level = compiled
    rule = None
    for r in path_rules:
        if level is None:
            return None
        if kind == "patching":
            rule = _find_by_norm(level["local"], r["raw"]) or _find_by_norm(level["global"], r["raw"])
        elif kind == "acl":
            rid = ("!" if r["ignore"] else "") + r["row"]
            rule = level["local"].get(rid) or level["global"].get(rid)
        else:
            rule = _find_by_norm(level, r["raw"])
        if rule is None:
            return None
        level = rule["children"]
    return rule


def run_shipped(ctx, tier, part, nparts, stats):
    units = shipped_units(ctx)
    idx = 0
    for u in units:
        kind, vendor, text, prefix = u["kind"], u["vendor"], u["text"], u["prefix"]
        tree = parse_rule_text(text, kind)
        uc = dict(section="shipped", file=u["file"], model=u["model"])
        if kind == "rul":
            oka, cp = ctx.call("compile_patching_text:" + u["file"], uc, rb_patching.compile_patching_text, text, vendor)
            okb, ca = ctx.call("compile_acl_text:" + u["file"], uc, rb_acl.compile_acl_text, text, vendor, allow_ignore=True)
            if not (oka and okb):
                continue
            compiled = {"patching": cp, "acl": ca}
        elif kind == "order":
            oka, co = ctx.call("compile_ordering_text:" + u["file"], uc, rb_ordering.compile_ordering_text, text, vendor)
            if not oka:
                continue
            compiled = {"ordering": co}
        else:
            oka, cd = ctx.call("compile_deploying_text:" + u["file"], uc, rb_deploying.compile_deploying_text, text, vendor)
            if not oka:
                continue
            compiled = {"deploying": cd}
        flat = list(_walk_with_rules(tree))
        dep_rows = set()
        for (path_rules, r) in flat:
            idx += 1
            ukey = (u["file"], r["row"])
            if r["toks"] is None:
                stats["skipped"].setdefault(r["why"], set()).add(ukey)
                continue
            stats["modelled"].add(ukey)
            if "rawgroups" in r["notes"]:
                stats["keyskip"].add(ukey)
            if (idx - 1) % nparts != part:
                continue
            _check_shipped_rule(ctx, u, compiled, path_rules, r, prefix, dep_rows)
        if kind == "deploy" and dep_rows:
            rows = sorted(dep_rows)
            ctxs = [{}]
            names = sorted({x for (_p, r) in flat for x in r["ifcontext"]})
            for x in names:
                ctxs.append({x.split(":")[0]: x.split(":")[1]})
            check_deploy_paths(ctx, dict(section="shipped-deploy", file=u["file"], model=u["model"]), compiled["deploying"], tree, rows, ctxs)


def _walk_with_rules(ref_rules, path=()):
    for r in ref_rules:
        yield path + (r,), r
        # children of ignore rules are not compiled by patching/acl; ordering/deploy never see ignore rules
        yield from _walk_with_rules(r["children"], path + (r,))


def _check_shipped_rule(ctx, u, compiled, path_rules, r, prefix, dep_rows):
    kind = u["kind"]
    icase, toks, notes = r["icase"], r["toks"], r["notes"]
    neg = ref_negate_tokens(toks, prefix)
    rows = sorted(set(_rows_for(toks, icase, prefix)) | set(_rows_for(neg, icase, prefix)))
    case = dict(section="shipped", file=u["file"], model=u["model"], rule=r["row"], path=[x["row"] for x in path_rules[:-1]])
    under_ignore = any(x["ignore"] for x in path_rules[:-1])
    under_global = any(_truthy(x["params"].get("global")) for x in path_rules[:-1])
    tm = tn = 0
    if kind == "rul":
        if not under_ignore and not under_global:
            rule = _real_lookup("patching", compiled["patching"], path_rules)
            if rule is None:
                ctx.fail("patching:rule-missing", "rule line of a shipped .rul not found in the compiled patching rulebook", case, r["raw"], None)
            else:
                pic = icase or _truthy(r["params"].get("ignore_case"))
                a = rule["attrs"]
                tm, tn = check_regex_on_rows(ctx, "patching.regexp", case, a["regexp"], pic, toks, notes, rows)
                if not r["ignore"]:
                    if bool(a["ignore_case"]) != pic:
                        ctx.fail("patching:ignore_case-attr", "attrs.ignore_case must tell whether the rule is case-insensitive", case, pic, a["ignore_case"])
                    if "rawgroups" not in notes and not any(t[0] == "RAW" and "*" in t[1] for t in toks):
                        check_reverse_template(ctx, "patching.reverse", case, a["reverse"], toks, prefix, pic, rows)
            arule = _real_lookup("acl", compiled["acl"], path_rules)
            if arule is None:
                ctx.fail("acl:rule-missing", "rule line of a shipped .rul not found when compiled as an ACL", case, r["row"], None)
            else:
                check_regex_on_rows(ctx, "acl.direct_regexp", case, arule["attrs"]["direct_regexp"], icase, toks, notes, rows)
                _check_negated(ctx, "acl.reverse_regexp", case, arule["attrs"]["reverse_regexp"], icase, neg, notes, rows, r["row"])
    elif kind == "order":
        rule = _real_lookup("ordering", compiled["ordering"], path_rules)
        if rule is None:
            ctx.fail("ordering:rule-missing", "rule line of a shipped .order not found in the compiled ordering rulebook", case, r["raw"], None)
        else:
            tm, tn = check_regex_on_rows(ctx, "ordering.direct_regexp", case, rule["attrs"]["direct_regexp"], icase, toks, notes, rows)
            _check_negated(ctx, "ordering.reverse_regexp", case, rule["attrs"]["reverse_regexp"], icase, neg, notes, rows, r["row"])
    else:
        rule = _real_lookup("deploying", compiled["deploying"], path_rules)
        if rule is None:
            ctx.fail("deploying:rule-missing", "rule line of a shipped .deploy not found in the compiled deploy rulebook", case, r["raw"], None)
        else:
            tm, tn = check_regex_on_rows(ctx, "deploying.regexp", case, rule["attrs"]["regexp"], icase, toks, notes, rows)
            for ws in synth_rows(toks, icase):
                dep_rows.add(" ".join(ws))
                dep_rows.add(" ".join(ws + ["zz"]))
                dep_rows.add(" ".join(ws[:-1] + [ws[-1] + "x"]))
    if tm and tn:
        ctx.nontrivial.add(_hash("s", u["file"], r["row"]))
    if len(ctx.samples) < 2 and tm and any(t[0] in ("STARRE", "TILDE") for t in toks):
        row = next((x for x in rows if ref_match_tokens(icase, toks, x)[0]), None)
        ctx.samples.append(dict(file=u["file"], rule=r["row"], row=row, expected=_j(ref_match_tokens(icase, toks, row))))


def _truthy(v):
    return v is not None and str(v).lower() in ("1", "true", "yes", "y", "on")


def run_implicit(ctx, part, nparts, stats):
    from annet import implicit
    from annet.annlib.netdev.views.hardware import HardwareView
    idx = 0
    for model in IMPLICIT_MODELS:
        dev = types.SimpleNamespace(hw=HardwareView(model, ""), tags=[])
        ok_, rules = ctx.call("implicit.compile_rules", dict(section="implicit", model=model), implicit.compile_rules, dev)
        if not ok_:
            continue

        def walk(level, path):
            for row, rule in level.items():
                yield path + (row,), rule
                yield from walk(rule["children"], path + (row,))
        for path, rule in walk(rules, ()):
            idx += 1
            row = path[-1]
            ukey = ("implicit.py", row)
            try:
                icase, toks, notes = parse_pattern(row)
            except Unmodelled as e:
                stats["skipped"].setdefault(str(e), set()).add(ukey)
                continue
            stats["modelled"].add(ukey)
            if (idx - 1) % nparts != part:
                continue
            rows = _rows_for(toks, icase, "no")
            check_regex_on_rows(ctx, "implicit.regexp", dict(section="implicit", model=model, rule=row, path=list(path[:-1])),
                                rule["regexp"], icase, toks, notes, rows)


# --------------------------------------------------------------------------------------------------------------------
def run(tier="quick", seed=0, part=0, nparts=1):
    ctx = Ctx()
    stats = dict(skipped={}, modelled=set(), keyskip=set())
    import traceback
    for (name, fn, args) in (("grammar", run_grammar, (ctx, tier, part, nparts)),
                             ("negation-words", run_negation_words, (ctx, part, nparts)),
                             ("compilers", run_compilers, (ctx, tier, part, nparts)),
                             ("deploy-nested", run_deploy_nested, (ctx, part)),
                             ("shipped", run_shipped, (ctx, tier, part, nparts, stats)),
                             ("implicit", run_implicit, (ctx, part, nparts, stats))):
        try:
            fn(*args)
        except Exception as e:  # backstop: nothing may crash run()
            ctx.fail("exception:section-" + name, "section %s stopped with an exception" % name, dict(section=name), "no exception",
                     "%s: %s | %s" % (type(e).__name__, e, traceback.format_exc()[-600:]))
    nsk = sum(len(v) for v in stats["skipped"].values())
    why = "; ".join("%d x %s" % (len(v), k) for k, v in sorted(stats["skipped"].items(), key=lambda kv: -len(kv[1])))
    mt = 3 if tier == "quick" else 4
    rule = ("(1) all patterns of <= %d tokens over literals {a,ab,no}, `*`, `*/[ab]+/`, `*/(a|n)o?/`, last token also `~`, `ab...`, "
            "`~/[ab]+/`, each with and without (?i), x all rows of <= 5 words over %s: "
            "(compile_row_regexp(p).match(row), groups) vs the reference matcher, patching._make_reverse(p,'no').format(*key) vs "
            "<negation word + rule words with key>; also the patterns of <= 3 tokens that combine the raw alternation word `(a|ab)` with "
            "literals, `*` and a trailing `~` (with any `*` in the rule the key is exactly the placeholder words; without `*` the key is "
            "not asserted); (1b) for every vendor negation word (no, undo, delete, remove, -) the patterns of <= 3 tokens over {the word, "
            "two words that merely begin with it (notify, nothing, undoable, ...), a, `*`} + trailing `~`/`notify~`: patching._make_reverse "
            "template, acl._make_reverse text, ordering direct/reverse regexps; every call into annet is guarded (exception -> failure "
            "`exception:<where>`); (2) the patterns of <= %d tokens compiled by the real compile_patching_text "
            "(every 2nd with %%ignore_case) / compile_ordering_text / compile_acl_text / compile_deploying_text (vendor cisco): every "
            "regexp/direct_regexp/reverse_regexp, ignore_case attr, reverse template, match_deploy_rule on 1- and 2-element paths, on "
            "rows synthesised from the pattern and from its negation + near-miss mutations (word dropped/glued/inserted/continued/"
            "truncated, extra words, case changed, doubled blank, tab, no/undo in front; `~/re/` rules: single-blank rows only); a "
            "3-level nested deploy rulebook with pairwise disjoint siblings (paths of 1-3 rows); (3) every rule line of every shipped .rul/.order/.deploy (14 vendors, canonical hardware + %d extra models "
            "covering the Mako branches, .rul also compiled as ACL) and the implicit rules of %d models, located in the real compiled "
            "objects by an independent text parser, same row synthesis. Shipped patterns: %d modelled, %d skipped as outside the "
            "prose (%s); %d of the modelled ones have raw capturing groups (match compared, key/reverse not); a regex placeholder "
            "whose regex can consume blanks binds what the regex matches (real key must be one of the feasible keys). Non-trivial = pattern "
            "with a placeholder/regex/(?i) for which both matching and non-matching rows occurred; distinct by pattern (+file)."
            % (mt, "{a,ab,no,A,b,abc}" if tier == "quick" else "{a,ab,no,A,b,abc,noa}", mt - 1, sum(len(v) for v in EXTRA_HW.values()), len(IMPLICIT_MODELS), len(stats["modelled"]), nsk, why or "-",
               len(stats["keyskip"])))
    return dict(evaluations=ctx.ev, nontrivial=sorted(ctx.nontrivial), failures=ctx.failures, samples=ctx.samples if part == 0 else [],
                rule=rule, bound="exhaustive: patterns <= %d tokens x rows <= 5 words; all shipped rule lines x synthesised rows" % mt)


def replay(case):
    """re-run one recorded case (the `case` dict of a failure)"""
    sec = case.get("section")
    if "row" in case and ("pattern" in case or "rule" in case) and "regex" in case:
        p = case.get("pattern") or case.get("rule")
        exp = ref_match(p, case["row"])
        rx = syntax.compile_row_regexp(p)
        m = rx.match(case["row"])
        got = (m is not None, tuple(m.groups()) if m else ())
        # reverse_regexp cases carry the regex source of the negated rule: replay on that regex
        if rx.pattern != case["regex"]:
            m = re.compile(case["regex"], case.get("flags", rx.flags & re.I)).match(case["row"])
            got = (m is not None, tuple(m.groups()) if m else ())
            return dict(ok=None, expected="(negated/other regex; see failure record)", actual=_j(got))
        return dict(ok=(got[0] == exp[0] and (not got[0] or got[1] == exp[1])), expected=_j(exp), actual=_j(got))
    if "template" in case:
        p = case.get("pattern") or case.get("rule")
        exp = ref_reverse(p, case["prefix"], tuple(case["key"]))
        try:
            got = rb_patching._make_reverse(p, case["prefix"]).format(*case["key"])
        except Exception as e:
            got = "%s: %s" % (type(e).__name__, e)
        return dict(ok=exp == got, expected=exp, actual=got)
    if "cmd_path" in case and "text" in case:
        deploying = rb_deploying.compile_deploying_text(case["text"], "cisco")
        tree = parse_rule_text(case["text"], "deploy")
        exp = ref_deploy_select(tree, tuple(case["cmd_path"]), case.get("context", {}))
        got = rb_deploying.match_deploy_rule(deploying, tuple(case["cmd_path"]), case.get("context", {}))
        et = float(exp["timeout"]) if exp else 30.0
        return dict(ok=et == float(got["attrs"]["timeout"]), expected=et, actual=float(got["attrs"]["timeout"]))
    return dict(ok=None, expected=None, actual="case of section %r is re-run by run()" % sec)
