"""C18 bounded layer (exhaustive over a finite space): every known hardware model resolves to one vendor and a
loadable rulebook.

Cases = (model string, software version) pairs:
  * for every one of the sequences of annet/annlib/netdev/devdb/data/devdb.json a model string is SYNTHESISED to match
    its regex chain (the regex of the sequence and of each of its ancestors, all applied with re.search):
    the root regex gives the head (every alternative of it is tried), the regex of the sequence itself gives the tail,
    then, from the deepest ancestor up, an ancestor whose regex does not yet find a match gets an example of its own
    put in front of the tail (first try: just a blank); examples are read off the regex parse tree
    (bounded/rx_examples.py), the shortest string that satisfies the whole chain wins; the result is verified with
    re.search against the chain (a sequence for which nothing is found is a failure of its own);
  * plus every registered vendor's canonical hardware (`vendor.hardware.model`), plus the empty model;
  * crossed with the software-version shapes: the shipped rulebook templates are scanned for `soft`; they do not branch on
    the version at all (checked at run time), so the cross is with "" and one realistic version string per vendor family and
    the expectation is that the rendered texts do not depend on it.
Checks per case (oracles from the property statement, computed from devdb.json / the rule texts directly):
  (a) a devdb sequence is true iff every regex of its chain finds a match; the set of true sequences (including the short
      aliases HardwareView offers) is prefix-closed and `hw.match()` agrees;
  (b) the vendor chosen is the registered one with the most specific true match expression (depth of the devdb
      sequence the expression denotes), the maximum is unique, and fresh `Registry` objects holding the same vendor
      classes in rotated / reversed / rotated-reversed order choose the same vendor; the same holds when match() is asked
      DURING registration (after every register() step, for every model: the most specific vendor registered so far, whatever
      was asked before) and after Registry.__add__ of two registries of which one had already been queried;
  (c) `get_rulebook(hw)` succeeds; the files rendered are <vendor>.rul/.order/.deploy; every `%logic=`, `%diff_logic=`,
      `%apply_logic=` named in the rendered texts is importable under annet.rulebook and the compiled rule holds it; every
      regexp object in the compiled rulebooks is a compiled pattern; the number of compiled rules is the number of rule
      lines of the rendered text;
  (d) two fresh DefaultRulebookProvider instances (compiler caches cleared in between) give structurally equal rulebooks
      (regex pattern + flags, functions by qualified name, dicts in order), also equal for the other software versions;
      and ONE provider asked for two models of a vendor that render different texts (every ordered pair of one representative
      per distinct rendered text) answers each like a fresh provider does (no dependence on the load history).
"""
import hashlib
import importlib
import json
import os
import re

from bounded.common import setup_annet
from bounded.rx_examples import candidates

setup_annet()

K = "bounded:C18:"
MAXF = 3


# --------------------------------------------------------------------------------------------------------------------
# devdb, read directly
def load_devdb():
    import annet.annlib.netdev.devdb as devdb_mod
    with open(os.path.join(os.path.dirname(devdb_mod.__file__), "data", "devdb.json")) as f:
        raw = json.load(f)
    return {tuple(k.split(".")): v for k, v in raw.items()}


def chain(db, seq):
    return [db[seq[:i]] for i in range(1, len(seq) + 1)]


def ref_true_full(db, model):
    """full devdb sequences that are true for the model: every regex on the way from the root finds a match"""
    return {seq for seq in db if all(seq[:i] in db and re.search(db[seq[:i]], model) for i in range(1, len(seq) + 1))}


def ref_aliases(db):
    """alias -> full sequence, for the unambiguous short names of a sequence: a contiguous run of names of the
    sequence followed by its last name (hw.Nexus.N3x for Cisco.Nexus.N3x), usable only when exactly one sequence has it"""
    owners = {}
    for seq in db:
        vs = set()
        for left in range(len(seq)):
            for right in range(1, len(seq) - left + 1):
                vs.add(seq[left:len(seq) - right] + (seq[-1],))
        for v in vs:
            owners.setdefault(v, []).append(seq)
    return {v: o[0] for v, o in owners.items() if len(o) == 1}


def _rx_examples(rx, limit=6):
    out = []
    for c in candidates(rx, 16):
        if c not in out and re.search(rx, c):
            out.append(c)
        if len(out) >= limit:
            break
    return out


def synth_model(db, seq):
    """a model string matching the regex chain of `seq` (None if not found)"""
    ch = chain(db, seq)
    heads = _rx_examples(ch[0], 12) or [""]
    tails = _rx_examples(ch[-1], 4) if len(seq) > 1 else [""]
    best = None
    for head in heads:
        for tail in tails or [""]:
            t = tail
            for rx in reversed(ch[1:-1]):
                if re.search(rx, head + t):
                    continue
                opts = ([" " + t] if not t.startswith(" ") else []) + [e + t for e in _rx_examples(rx, 3)] + \
                       [e + " " + t for e in _rx_examples(rx, 3)]
                for o in opts:
                    if re.search(rx, head + o) and re.search(ch[-1], head + o):
                        t = o
                        break
            for m in (t, head + t, head + " " + t.strip(), (head + t).rstrip()):
                if all(re.search(rx, m) for rx in ch) and m == m.strip():
                    if best is None or len(m) < len(best):
                        best = m
    return best


# --------------------------------------------------------------------------------------------------------------------
def soft_shapes():
    """software-version shapes: what the templates test (nothing, verified) + realistic strings"""
    import annet.rulebook as rb
    d = os.path.join(os.path.dirname(rb.__file__), "texts")
    uses = []
    for fn in sorted(os.listdir(d)):
        with open(os.path.join(d, fn)) as f:
            for n, line in enumerate(f, 1):
                st = line.strip()
                if st.startswith("%") and re.match(r"%\s*(if|elif|for)\b", st) and "soft" in st:
                    uses.append("%s:%d: %s" % (fn, n, st))
                if "${" in line and "soft" in line:
                    uses.append("%s:%d: %s" % (fn, n, st))
    return uses


SOFTS = ["", "V200R019C10SPC800", "7.0(3)I7(6)"]


def cases(db):
    """-> list of dict(model, soft, seq|None, origin)"""
    from annet.vendors import registry_connector
    reg = registry_connector.get()
    models = []
    seen = set()
    unsynth = []
    for seq in db:
        m = synth_model(db, seq)
        if m is None:
            unsynth.append(".".join(seq))
            continue
        models.append((m, ".".join(seq), "devdb"))
    for name in reg:
        models.append((reg[name].hardware.model, None, "canonical:" + name))
    models.append(("", None, "empty"))
    out = []
    for (m, seq, origin) in models:
        for soft in SOFTS:
            if (m, soft) in seen:
                continue
            seen.add((m, soft))
            out.append(dict(model=m, soft=soft, seq=seq, origin=origin))
    return out, unsynth


# --------------------------------------------------------------------------------------------------------------------
# structural comparison
def struct_diff(a, b, path="$"):
    """None if structurally equal, else a short description of the first difference"""
    if isinstance(a, re.Pattern) or isinstance(b, re.Pattern):
        if not (isinstance(a, re.Pattern) and isinstance(b, re.Pattern)):
            return "%s: %r vs %r" % (path, type(a).__name__, type(b).__name__)
        if a.pattern != b.pattern or a.flags != b.flags:
            return "%s: regex %r/%d vs %r/%d" % (path, a.pattern, a.flags, b.pattern, b.flags)
        return None
    if callable(a) or callable(b):
        qa = (getattr(a, "__module__", None), getattr(a, "__qualname__", None))
        qb = (getattr(b, "__module__", None), getattr(b, "__qualname__", None))
        if not (callable(a) and callable(b)) or qa != qb or qa[1] is None:
            return "%s: function %r vs %r" % (path, qa, qb)
        return None
    if type(a) is not type(b):
        return "%s: type %s vs %s" % (path, type(a).__name__, type(b).__name__)
    if isinstance(a, dict):
        ka, kb = list(a.keys()), list(b.keys())
        if ka != kb:
            return "%s: keys (in order) differ: %r vs %r" % (path, [k for k in ka if k not in kb][:3] or ka[:3], [k for k in kb if k not in ka][:3] or kb[:3])
        for k in ka:
            d = struct_diff(a[k], b[k], "%s[%r]" % (path, k))
            if d:
                return d
        return None
    if isinstance(a, (list, tuple)):
        if len(a) != len(b):
            return "%s: length %d vs %d" % (path, len(a), len(b))
        for i, (x, y) in enumerate(zip(a, b)):
            d = struct_diff(x, y, "%s[%d]" % (path, i))
            if d:
                return d
        return None
    if a != b:
        return "%s: %r vs %r" % (path, a, b)
    return None


def clear_compiler_caches():
    from annet.annlib.rbparser import syntax, ordering
    from annet.rulebook import patching, deploying
    for f in (patching.compile_patching_text, ordering.compile_ordering_text, deploying.compile_deploying_text,
              syntax.compile_row_regexp, patching._make_reverse):
        if hasattr(f, "cache_clear"):
            f.cache_clear()


# --------------------------------------------------------------------------------------------------------------------
# rule text scan (independent of annet's parser)
_LOGIC_RE = re.compile(r"\s%(logic|diff_logic|apply_logic)=(\S+)")


def scan_text(text, kind):
    """-> (number of rule lines, [(param, dotted name)])"""
    n = 0
    funcs = []
    for line in text.split("\n"):
        st = line.strip()
        if not st or st.startswith("#"):
            continue
        cont = st.startswith("%") and not st.startswith("%context")
        for m in _LOGIC_RE.finditer(" " + st):
            funcs.append((m.group(1), m.group(2)))
        if cont or st.startswith("%context"):
            continue
        row = re.split(r"\s%[a-zA-Z_]", st)[0].strip()
        is_ignore = row.startswith("!")
        if is_ignore and not row[1:].strip():
            continue
        if kind == "deploy" and (is_ignore or row.startswith(("ignore:", "dialog:"))):
            continue
        if kind == "order" and is_ignore:
            continue
        n += 1
    return n, funcs


def count_rules(rb, kind):
    if rb is None:
        return 0
    n = 0
    if kind == "rul":
        for scope in ("local", "global"):
            for rule in rb[scope].values():
                n += 1 + count_rules(rule["children"], kind)
    else:
        for rule in rb.values():
            n += 1 + count_rules(rule["children"], kind)
    return n


def walk_attrs(rb, kind):
    if rb is None:
        return
    if kind == "rul":
        for scope in ("local", "global"):
            for raw, rule in rb[scope].items():
                yield raw, rule
                yield from walk_attrs(rule["children"], kind)
    else:
        for raw, rule in rb.items():
            yield raw, rule
            yield from walk_attrs(rule["children"], kind)


def resolve_logic(name):
    """a logic name of a rule text -> function, imported from annet.rulebook.<module path>"""
    mod, _, fn = name.rpartition(".")
    module = importlib.import_module("annet.rulebook." + mod)
    f = getattr(module, fn)
    if not callable(f):
        raise TypeError("%s is not callable" % name)
    return f


# --------------------------------------------------------------------------------------------------------------------
class Ctx:
    def __init__(self):
        self.ev = 0
        self.failures = []
        self.fcount = {}
        self.nontrivial = set()

    def fail(self, key, text, case, expected, actual):
        n = self.fcount.get(key, 0)
        self.fcount[key] = n + 1
        if n < MAXF:
            self.failures.append(dict(key=K + key, text=text, case=case, expected=_j(expected), actual=_j(actual)))


def _j(x):
    if isinstance(x, (tuple, list, set, frozenset)):
        return [_j(v) for v in (sorted(x, key=str) if isinstance(x, (set, frozenset)) else x)]
    if isinstance(x, dict):
        return {str(k): _j(v) for k, v in x.items()}
    if isinstance(x, (str, int, bool, float)) or x is None:
        return x
    return str(x)


def registry_orders(classes):
    n = len(classes)
    orders = []
    for r in range(n):
        orders.append(classes[r:] + classes[:r])
    rev = classes[::-1]
    for r in range(n):
        orders.append(rev[r:] + rev[:r])
    return orders


_state = {}


def _setup():
    if _state:
        return _state
    from annet.vendors import registry_connector
    from annet.vendors.registry import Registry
    db = load_devdb()
    reg = registry_connector.get()
    classes = [type(reg[name]) for name in reg]
    regs = []
    for order in registry_orders(classes):
        r = Registry()
        for c in order:
            r.register(c)
        regs.append(r)
    _state.update(db=db, aliases=ref_aliases(db), reg=reg, classes=classes, regs=regs, soft_uses=soft_shapes())
    _state["cases"], _state["unsynth"] = cases(db)
    return _state


def check_case(ctx, case, st=None):
    from annet.annlib.netdev.views.hardware import HardwareView
    from annet.annlib.netdev.devdb import parse_hw_model
    from annet.annlib.rbparser.platform import VENDOR_ALIASES
    from annet.rulebook import DefaultRulebookProvider
    st = st or _setup()
    db, aliases, reg = st["db"], st["aliases"], st["reg"]
    model, soft = case["model"], case["soft"]
    cb = dict(model=model, soft=soft, origin=case.get("origin"), seq=case.get("seq"))
    ctx.ev += 1
    hw = HardwareView(model, soft)

    # ---- (a) hierarchy
    exp_full = ref_true_full(db, model)
    true_seqs, false_seqs = parse_hw_model(model)
    true_set = set(true_seqs)
    exp_all = {a for a, full in aliases.items() if full in exp_full}
    if true_set != exp_all:
        ctx.fail("true-sequences", "the true sequences are not exactly the sequences (and their unambiguous short names) whose whole regex chain matches",
                 cb, dict(missing=sorted(exp_all - true_set)[:6], extra=[]), dict(missing=[], extra=sorted(true_set - exp_all)[:6]))
    if case.get("seq") and tuple(case["seq"].split(".")) not in true_set:
        ctx.fail("synthesised-model-not-true", "the model synthesised for a sequence does not make it true", cb, case["seq"], sorted(true_set)[:8])
    for s in true_set:
        closed = True
        for k in range(1, len(s)):
            if s[:k] not in true_set:
                closed = False
                if s in db:
                    ctx.fail("not-prefix-closed", "a true hardware family whose ancestor is not true", dict(cb, family=".".join(s)),
                             ".".join(s[:k]) + " true", "false" if s[:k] in false_seqs else "unknown attribute")
                else:
                    ctx.fail("short-name-not-prefix-closed:" + ".".join(s[:k]),
                             "a true short name of a family (hw.%s) whose prefix is no attribute at all (several families share the name), so the "
                             "short name cannot even be evaluated" % ".".join(s), dict(cb, family=".".join(s)),
                             ".".join(s[:k]) + " true", "false" if s[:k] in false_seqs else "unknown attribute")
        if not closed:
            continue
        try:
            ok = hw.match(".".join(s))
        except AttributeError as e:
            ok = "AttributeError: %s" % e
        if ok is not True:
            ctx.fail("match-api", "hw.match(<true sequence>) is not True", dict(cb, family=".".join(s)), True, ok)
    for s in sorted(false_seqs):
        if any(s[:k] not in true_set and s[:k] not in false_seqs for k in range(1, len(s))):
            continue    # a short name under an ambiguous (hence unknown) name: see short-name-not-prefix-closed
        try:
            ok = hw.match(".".join(s))
        except AttributeError as e:
            ok = "AttributeError: %s" % e
        if ok is not False:
            ctx.fail("match-api", "hw.match(<false sequence>) is not False", dict(cb, family=".".join(s)), False, ok)

    # ---- (b) vendor
    cands = []   # (depth, vendor name, expr)
    for name in reg:
        for expr in reg[name].match():
            full = aliases.get(tuple(expr.split(".")))
            if full is None:
                ctx.fail("vendor-match-expression-unknown", "a vendor's match expression denotes no (unambiguous) devdb sequence", dict(vendor=name, expr=expr), "a devdb sequence", None)
                continue
            if full in exp_full:
                cands.append((len(full), name, expr))
    try:
        got_vendor = hw.vendor
    except Exception as e:
        got_vendor = "%s: %s" % (type(e).__name__, e)
    if cands:
        top = max(c[0] for c in cands)
        best = sorted({c[1] for c in cands if c[0] == top})
        if len(best) > 1:
            ctx.fail("vendor-tie:" + "/".join(best), "several registered vendors match equally specifically: the choice depends on the registration order",
                     dict(cb, candidates=[list(c) for c in sorted(cands)]), "one most specific vendor", best)
        elif got_vendor != best[0]:
            ctx.fail("vendor-not-most-specific:%s-instead-of-%s" % (got_vendor, best[0]), "the vendor chosen is not the most specific registered one",
                     dict(cb, candidates=[list(c) for c in sorted(cands)]), best[0], got_vendor)
    elif got_vendor is not None:
        ctx.fail("vendor-for-unknown-model", "a vendor is chosen although no registered vendor matches", cb, None, got_vendor)
    names = []
    for r in st["regs"]:
        try:
            v = r.match(hw, None)
            names.append(v.NAME if v is not None else None)
        except Exception as e:
            names.append("%s: %s" % (type(e).__name__, e))
    if len(set(names)) > 1:
        ctx.fail("vendor-depends-on-registration-order:" + "/".join(sorted(str(x) for x in set(names))),
                 "Registry.match gives different vendors for different registration orders of the same vendor classes",
                 cb, "one vendor for all %d orders" % len(names), sorted(set(str(x) for x in names)))
    if names and names[0] != got_vendor:
        ctx.fail("vendor-fresh-registry", "a fresh Registry with the vendors in the shipped order chooses another vendor than hw.vendor", cb, got_vendor, names[0])

    # ---- (c) rulebook loads
    if not isinstance(got_vendor, str) or got_vendor not in reg:
        if cands:
            ctx.fail("no-vendor", "no vendor for a model a registered vendor matches", cb, "a vendor", got_vendor)
        return
    ctx.nontrivial.add(hashlib.md5(repr((model, soft)).encode()).hexdigest()[:12])
    clear_compiler_caches()
    prov1 = DefaultRulebookProvider()
    try:
        rb1 = prov1.get_rulebook(hw)
    except Exception as e:
        ctx.fail("get_rulebook-fails:" + got_vendor, "get_rulebook(hw) raises", cb, "a rulebook", "%s: %s" % (type(e).__name__, str(e)[:300]))
        # say why, if it is a logic name
        for ext in ("rul", "order", "deploy"):
            fname = (VENDOR_ALIASES.get(got_vendor, got_vendor) if ext == "rul" else got_vendor) + "." + ext
            try:
                text = DefaultRulebookProvider()._render_rul(fname, hw)
            except FileNotFoundError:
                continue
            except Exception as e2:
                ctx.fail("render-fails:" + fname, "rule text does not render", dict(cb, file=fname), "text", "%s: %s" % (type(e2).__name__, e2))
                continue
            for (param, name) in sorted(set(scan_text(text, ext)[1])):
                try:
                    resolve_logic(name)
                except Exception as e2:
                    ctx.fail("logic-not-importable:" + name, "a %%%s names no importable function" % param, dict(cb, file=fname, param=param, name=name),
                             "annet.rulebook.%s importable" % name, "%s: %s" % (type(e2).__name__, e2))
        return
    if sorted(rb1) != ["deploying", "ordering", "patching"]:
        ctx.fail("rulebook-shape", "rulebook must have patching, ordering, deploying", cb, ["deploying", "ordering", "patching"], sorted(rb1))
        return
    texts_dir = os.path.join(os.path.dirname(importlib.import_module("annet.rulebook").__file__), "texts")
    for ext, part in (("rul", "patching"), ("order", "ordering"), ("deploy", "deploying")):
        fname = (VENDOR_ALIASES.get(got_vendor, got_vendor) if ext == "rul" else got_vendor) + "." + ext
        exists = os.path.exists(os.path.join(texts_dir, fname))
        if not exists:
            if ext == "rul":
                ctx.fail("no-rul-file:" + got_vendor, "vendor without a .rul text", cb, fname, None)
            elif count_rules(rb1[part], ext):
                ctx.fail("rules-without-text", "compiled rules although the vendor has no such text", dict(cb, file=fname), 0, count_rules(rb1[part], ext))
            continue
        try:
            text = prov1._render_rul(fname, hw)
        except Exception as e:
            ctx.fail("render-fails:" + fname, "rule text does not render", dict(cb, file=fname), "text", "%s: %s" % (type(e).__name__, e))
            continue
        nlines, funcs = scan_text(text, ext)
        ncomp = count_rules(rb1[part], ext)
        # identical rule lines at one level are one rule: the compiled count may only be lower by the number of duplicates
        if ncomp > nlines or ncomp < nlines - _dup_lines(text):
            ctx.fail("rule-count:" + fname, "the compiled rulebook does not hold one rule per rule line of the rendered text",
                     dict(cb, file=fname), nlines, ncomp)
        held = set()
        for raw, rule in walk_attrs(rb1[part], ext):
            a = rule["attrs"]
            for k in ("regexp", "direct_regexp", "reverse_regexp"):
                if k in a and not isinstance(a[k], re.Pattern):
                    ctx.fail("regexp-not-compiled", "a rule holds no compiled regex", dict(cb, file=fname, rule=raw), "re.Pattern", type(a[k]).__name__)
            for k in ("logic", "diff_logic", "apply_logic"):
                if k in a:
                    if not callable(a[k]):
                        ctx.fail("logic-not-callable", "a rule's logic is not a function", dict(cb, file=fname, rule=raw, param=k), "callable", repr(a[k]))
                    else:
                        held.add((k, a[k].__module__, a[k].__qualname__))
        for (param, name) in sorted(set(funcs)):
            try:
                f = resolve_logic(name)
            except Exception as e:
                ctx.fail("logic-not-importable:" + name, "a %%%s names no importable function" % param, dict(cb, file=fname, param=param, name=name),
                         "annet.rulebook.%s importable" % name, "%s: %s" % (type(e).__name__, e))
                continue
            if (param, f.__module__, f.__qualname__) not in held:
                ctx.fail("logic-not-held:" + name, "the function named by %%%s is not the one the compiled rule holds" % param,
                         dict(cb, file=fname, param=param, name=name), "%s.%s" % (f.__module__, f.__qualname__),
                         sorted(x for x in held if x[0] == param)[:5])

    # ---- (d) determinism
    clear_compiler_caches()
    prov2 = DefaultRulebookProvider()
    try:
        rb2 = prov2.get_rulebook(HardwareView(model, soft))
    except Exception as e:
        ctx.fail("get_rulebook-fails-second-time", "get_rulebook raises on a second fresh provider", cb, "a rulebook", "%s: %s" % (type(e).__name__, e))
        return
    d = struct_diff(rb1, rb2)
    if d:
        ctx.fail("not-deterministic", "two fresh providers give different rulebooks for one model", cb, "structurally equal", d)
    # the rendered texts must not depend on the software version (the templates never test it)
    if not st["soft_uses"] and soft != "":
        prov3 = DefaultRulebookProvider()
        hw0 = HardwareView(model, "")
        for ext in ("rul", "order", "deploy"):
            fname = (VENDOR_ALIASES.get(got_vendor, got_vendor) if ext == "rul" else got_vendor) + "." + ext
            try:
                if prov3._render_rul(fname, hw0) != prov1._render_rul(fname, hw):
                    ctx.fail("depends-on-soft", "rendered text depends on the software version although no template tests it", dict(cb, file=fname), "equal texts", "different")
            except FileNotFoundError:
                pass


def _dup_lines(text):
    seen = set()
    dup = 0
    for line in text.split("\n"):
        st = " ".join(line.split())
        if not st or st.startswith("#"):
            continue
        if st in seen:
            dup += 1
        seen.add(st)
    return dup


def ref_vendor(st, model, registered):
    """reference for Registry.match(model, None) when only the vendors `registered` (names) are registered:
    the one whose true match expression denotes the deepest devdb sequence; None if nothing matches; "<tie>" if not unique"""
    db, aliases, reg = st["db"], st["aliases"], st["reg"]
    full_true = ref_true_full(db, model)
    cands = []
    for name in registered:
        for expr in reg[name].match():
            full = aliases.get(tuple(expr.split(".")))
            if full is not None and full in full_true:
                cands.append((len(full), name))
    if not cands:
        return None
    top = max(c[0] for c in cands)
    best = sorted({c[1] for c in cands if c[0] == top})
    return best[0] if len(best) == 1 else "<tie>"


def _interleave_models(st):
    out = []
    for c in st["cases"]:
        if c["soft"] == "" and c["model"] not in out:
            out.append(c["model"])
    for m in ("Cisco Nexus 3548", "Cisco ASR 9001", "Huawei OptiXtrans DC908"):
        if m not in out:
            out.append(m)
    return out


def run_interleaved(st, order_names, models, upto=None):
    """register the vendor classes one by one on a fresh Registry and ask match(model) for every model after every step
    -> list of (step, registered names, model, expected, actual)"""
    from annet.vendors.registry import Registry
    cls = {type(st["reg"][n]).NAME: type(st["reg"][n]) for n in st["reg"]}
    r = Registry()
    bad = []
    done = []
    for step, name in enumerate(order_names):
        r.register(cls[name])
        done.append(name)
        if upto is not None and step > upto:
            break
        for m in models:
            exp = ref_vendor(st, m, done)
            if exp == "<tie>":
                continue
            try:
                v = r.match(m, None)
                got = v.NAME if v is not None else None
            except Exception as e:
                got = "%s: %s" % (type(e).__name__, e)
            if got != exp:
                bad.append((step, list(done), m, exp, got))
    return bad


def run_add(st, left_names, right_names, models, query_first):
    """two registries with disjoint vendors; `query_first` of them ("left"/"right"/"both"/"none") is asked for every model
    before left.__add__(right); afterwards left must answer like a registry holding all the vendors"""
    from annet.vendors.registry import Registry
    cls = {type(st["reg"][n]).NAME: type(st["reg"][n]) for n in st["reg"]}
    left, right = Registry(), Registry()
    for n in left_names:
        left.register(cls[n])
    for n in right_names:
        right.register(cls[n])
    for (which, r) in (("left", left), ("right", right)):
        if query_first in (which, "both"):
            for m in models:
                r.match(m, None)
    left + right      # Registry.__add__ works in place
    bad = []
    allnames = list(left_names) + list(right_names)
    if sorted(left.vendors) != sorted(allnames):
        bad.append((None, "<vendors after __add__>", sorted(allnames), sorted(left.vendors)))
    for m in models:
        exp = ref_vendor(st, m, allnames)
        if exp == "<tie>":
            continue
        try:
            v = left.match(m, None)
            got = v.NAME if v is not None else None
        except Exception as e:
            got = "%s: %s" % (type(e).__name__, e)
        if got != exp:
            bad.append((None, m, exp, got))
    return bad


def check_registration_history(ctx, st, part, nparts):
    """queries DURING registration: the vendor chosen must be the most specific one registered so far, whatever was asked before"""
    names = [type(st["reg"][n]).NAME for n in st["reg"]]
    models = _interleave_models(st)
    orders = registry_orders(names)
    for oi, order in enumerate(orders):
        if oi % nparts != part:
            continue
        ctx.ev += 1
        ctx.nontrivial.add(hashlib.md5(repr(("interleave", order)).encode()).hexdigest()[:12])
        try:
            bad = run_interleaved(st, order, models)
        except Exception as e:
            ctx.fail("exception:registration-history", "exception while registering/matching step by step", dict(kind="interleave", order=order),
                     "no exception", "%s: %s" % (type(e).__name__, e))
            continue
        for (step, done, m, exp, got) in bad[:2]:
            ctx.fail("registry-match-stale-after-register",
                     "Registry.match asked during registration: after registering a further vendor the answer is not the most specific "
                     "vendor registered so far (it depends on what was asked before)",
                     dict(kind="interleave", order=order, step=step, registered=done, model=m), exp, got)
    # __add__ of two registries, one of them (or both) already queried
    specific = [n for n in names if any("." in e for e in st["reg"][n].match())]
    generic = [n for n in names if n not in specific]
    splits = [(generic, specific), (specific, generic), (names[::2], names[1::2]), (names[1::2], names[::2])]
    k = 0
    for (left, right) in splits:
        for q in ("none", "left", "right", "both"):
            k += 1
            if (k - 1) % nparts != part or not left or not right:
                continue
            ctx.ev += 1
            ctx.nontrivial.add(hashlib.md5(repr(("add", left, right, q)).encode()).hexdigest()[:12])
            case = dict(kind="add", left=left, right=right, queried_before=q)
            try:
                bad = run_add(st, left, right, models, q)
            except Exception as e:
                ctx.fail("exception:registry-add", "exception in Registry.__add__ / match", case, "no exception", "%s: %s" % (type(e).__name__, e))
                continue
            for b in bad[:2]:
                ctx.fail("registry-match-stale-after-add",
                         "left.__add__(right) of two registries of which %s had been queried: left does not answer like a registry holding all "
                         "the vendors" % q, dict(case, model=b[1]), b[2], b[3])


def check_load_history(ctx, st, part, nparts):
    """one provider instance asked for several models of one vendor that render different texts, in both orders: every
    answer must be structurally equal to the one a fresh provider gives for that model alone"""
    from annet.annlib.netdev.views.hardware import HardwareView
    from annet.annlib.rbparser.platform import VENDOR_ALIASES
    from annet.rulebook import DefaultRulebookProvider
    by_vendor = {}
    for c in st["cases"]:
        if c["soft"] != "":
            continue
        try:
            v = HardwareView(c["model"], "").vendor
        except Exception:
            continue
        if isinstance(v, str) and v in st["reg"] and c["model"] not in by_vendor.setdefault(v, []):
            by_vendor[v].append(c["model"])
    for vi, vendor in enumerate(sorted(by_vendor)):
        if vi % nparts != part:
            continue
        # representatives: one model per distinct set of rendered texts
        reps = {}
        for model in by_vendor[vendor]:
            scan = DefaultRulebookProvider()      # a fresh one per model: the signature must not depend on history either
            sig = []
            hw = HardwareView(model, "")
            for ext in ("rul", "order", "deploy"):
                fname = (VENDOR_ALIASES.get(vendor, vendor) if ext == "rul" else vendor) + "." + ext
                try:
                    sig.append(scan._render_rul(fname, hw))
                except FileNotFoundError:
                    sig.append(None)
                except Exception:
                    sig = None      # reported by check_case
                    break
            if sig is not None:
                reps.setdefault(tuple(sig), model)
        models = list(reps.values())
        if len(models) < 2:
            continue
        fresh = {}
        for m in models:
            try:
                fresh[m] = DefaultRulebookProvider().get_rulebook(HardwareView(m, ""))
            except Exception:
                fresh[m] = None     # reported by check_case
        for a in models:
            for b in models:
                if a == b or fresh[a] is None or fresh[b] is None:
                    continue
                ctx.ev += 1
                ctx.nontrivial.add(hashlib.md5(repr(("history", vendor, a, b)).encode()).hexdigest()[:12])
                shared = DefaultRulebookProvider()
                case = dict(vendor=vendor, first=a, then=b)
                try:
                    ra = shared.get_rulebook(HardwareView(a, ""))
                    rb = shared.get_rulebook(HardwareView(b, ""))
                    ra2 = shared.get_rulebook(HardwareView(a, ""))
                except Exception as e:
                    ctx.fail("rulebook-depends-on-load-history:" + vendor, "a shared provider raises for the second model", case,
                             "a rulebook", "%s: %s" % (type(e).__name__, str(e)[:300]))
                    continue
                for (what, got, exp) in (("first model", ra, fresh[a]), ("second model", rb, fresh[b]), ("first model asked again", ra2, fresh[a])):
                    d = struct_diff(exp, got)
                    if d:
                        ctx.fail("rulebook-depends-on-load-history:" + vendor,
                                 "one provider instance asked for two models of a vendor that take different template branches: the %s gets "
                                 "another rulebook than from a fresh provider" % what, case, "structurally equal to a fresh provider's rulebook", d)
                        break


def run(tier="quick", seed=0, part=0, nparts=1):
    ctx = Ctx()
    st = _setup()
    allc = st["cases"]
    samples = []
    if part == 0:
        for name in st["unsynth"]:
            ctx.fail("model-not-synthesised", "no model string found for the regex chain of a devdb sequence", dict(seq=name), "a model", None)
        if st["soft_uses"]:
            ctx.fail("templates-test-soft", "rule templates branch on the software version: extend SOFTS with the shapes they test",
                     dict(uses=st["soft_uses"][:5]), [], st["soft_uses"][:5])
        # vendor classes: every registered vendor's canonical hardware resolves to that vendor
        from annet.hardware import hardware_connector
        for name in st["reg"]:
            ctx.ev += 1
            hwv = st["reg"][name].hardware
            back = hardware_connector.get().hw_to_vendor(hwv)
            if back != name:
                ctx.fail("canonical-hardware-other-vendor:%s->%s" % (name, back), "a vendor's canonical hardware resolves to another vendor",
                         dict(vendor=name, model=hwv.model), name, back)
    for i, case in enumerate(allc):
        if i % nparts != part:
            continue
        try:
            check_case(ctx, case, st)
        except Exception as e:
            import traceback
            ctx.fail("exception", "unexpected exception while checking a case", case, "no exception", "%s: %s | %s" % (type(e).__name__, e, traceback.format_exc()[-500:]))
        if part == 0 and len(samples) < 2 and case.get("seq") and case["seq"].count(".") >= 2:
            samples.append(dict(case, true=sorted(".".join(s) for s in ref_true_full(st["db"], case["model"]))))
    try:
        check_registration_history(ctx, st, part, nparts)
    except Exception as e:
        import traceback
        ctx.fail("exception:registration-history", "unexpected exception in the registration-history check", dict(part=part), "no exception",
                 "%s: %s | %s" % (type(e).__name__, e, traceback.format_exc()[-500:]))
    try:
        check_load_history(ctx, st, part, nparts)
    except Exception as e:
        import traceback
        ctx.fail("exception:load-history", "unexpected exception in the load-history check", dict(part=part), "no exception",
                 "%s: %s | %s" % (type(e).__name__, e, traceback.format_exc()[-500:]))
    ndev = len({c["model"] for c in allc if c["origin"] == "devdb"})
    rule = ("exhaustive: %d devdb sequences -> %d distinct synthesised models (%d not synthesised), + %d canonical vendor hardware + the empty model, "
            "x %d software versions %r (templates test the version %d times) = %d cases; %d registration orders (all rotations of the "
            "shipped order and of its reverse); non-trivial = a case for which a registered vendor is chosen and its rulebook is loaded; "
            "distinct by (model, soft). Registration history: for each of the registration orders the vendors are registered one by one on a "
            "fresh Registry and match() is asked for every model after every step (expected: most specific vendor registered so far); "
            "Registry.__add__ of 4 disjoint splits x {none,left,right,both} queried before. Load history: per vendor, one model per distinct set of rendered texts, every ordered pair through "
            "one shared provider vs fresh providers. Same scope in both tiers."
            % (len(st["db"]), ndev, len(st["unsynth"]), len(list(st["reg"])), len(SOFTS), SOFTS, len(st["soft_uses"]), len(allc), len(st["regs"])))
    return dict(evaluations=ctx.ev, nontrivial=sorted(ctx.nontrivial), failures=ctx.failures, samples=samples, rule=rule,
                bound="exhaustive: true (all %d devdb sequences x %d soft shapes, %d vendors x %d registration orders); one synthesised model string per sequence"
                      % (len(st["db"]), len(SOFTS), len(list(st["reg"])), len(st["regs"])))


def replay(case):
    ctx = Ctx()
    st = _setup()
    kind = case.get("kind")
    if kind == "interleave":
        bad = run_interleaved(st, case["order"], [case["model"]], upto=case.get("step"))
        hit = [b for b in bad if b[0] == case.get("step")] or bad
        exp = ref_vendor(st, case["model"], case.get("registered") or case["order"])
        return dict(ok=not bad, expected=exp, actual=(hit[0][4] if hit else exp))
    if kind == "add":
        bad = run_add(st, case["left"], case["right"], [case["model"]] if "model" in case else _interleave_models(st), case["queried_before"])
        return dict(ok=not bad, expected=(bad[0][2] if bad else "most specific vendor of left+right"), actual=(bad[0][3] if bad else "as expected"))
    if "first" in case and "then" in case:
        from annet.annlib.netdev.views.hardware import HardwareView
        from annet.rulebook import DefaultRulebookProvider
        shared = DefaultRulebookProvider()
        shared.get_rulebook(HardwareView(case["first"], ""))
        d = struct_diff(DefaultRulebookProvider().get_rulebook(HardwareView(case["then"], "")), shared.get_rulebook(HardwareView(case["then"], "")))
        return dict(ok=d is None, expected="structurally equal to a fresh provider's rulebook", actual=d or "equal")
    if "model" not in case:
        return dict(ok=None, expected=None, actual="not a per-model case")
    check_case(ctx, dict(model=case["model"], soft=case.get("soft", ""), seq=case.get("seq"), origin=case.get("origin")))
    return dict(ok=not ctx.failures, expected="no failure", actual=[dict(key=f["key"], expected=f["expected"], actual=f["actual"]) for f in ctx.failures])
