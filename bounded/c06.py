"""C06 bounded layer: the real compile_acl_text + apply_acl against the independent reference filter of
bounded/ref_acl.py (written from docs/usage/acl.rst and the C06 statement) on enumerated ACL texts x config trees.

Clauses (one stable key each):
  bounded:C06:filter!=reference                    apply_acl(t, compile(A)) == ref_filter(t, A)   (rows and order)
  bounded:C06:global-rule-does-not-cover-subtree   the same comparison, when the ONLY difference is that annet drops rows
                                                   lying below a row matched by a %global rule whose pattern is not `~`
  bounded:C06:not-ordered-subtree                  the result is an order-preserving sub-tree of t
  bounded:C06:not-idempotent                       filtering the result again changes nothing
  bounded:C06:merge-not-monotone[:prio|:global]    apply(t,A) U apply(t,B) is a sub-tree of apply(t, A+B), A+B built by the
                                                   real RunGeneratorResult.acl_text(); `:prio` when A or B uses %prio,
                                                   `:global` when (no %prio and) every lost row lies below a row that a
                                                   non-`~` %global rule of A+B matches (consequence of the finding above)
  bounded:C06:strict-mode                          fatal_acl=True raises AclError iff some row at a covered parent is
                                                   uncovered, and the message names such a row
  A row that is the reverse form (`undo X`) of an undeletable (%cant_delete) rule is covered (matched) but deliberately
  not passed: the reference drops it and requires no AclError for it in strict mode.
"""
import itertools
import random
import types
from collections import OrderedDict as odict

from bounded.common import setup_annet, h
from bounded import ref_acl
from bounded.ref_acl import ordered, plain, paths, is_ordered_subtree, is_subtree, tree_union

K = "bounded:C06:"

# ===== the ACL grammar (NEG = the vendor's negation word)
L1P = ["a", "a *", "a ~", "a b", "*", "~", "interface *", "interface ~", "NEG a"]
L2P = ["x", "x *", "x ~", "*", "~", "description ~", "NEG x"]
L3P = ["p", "*", "~"]
PAR1 = ["", "%global", "%cant_delete=1", "%cant_delete=0", "%prio=5", "%global %prio=5", "%global %cant_delete=1",
        "%cant_delete=0 %prio=5"]
PAR1S = ["", "%global", "%cant_delete=0", "%prio=5", "%global %prio=5"]
PAR2 = ["", "%global", "%cant_delete", "%prio=5"]
PAR3 = ["", "%global"]
# ===== rows
R1 = ["a", "a b", "a c", "a b c", "b", "NEG a", "NEG a b", "interface x", "NEG interface x", "interface"]
R2 = ["x", "x y", "x y z", "y", "NEG x", "NEG x y", "description foo", "NEG description foo"]
R3 = ["p", "p q", "q", "NEG p"]

VENDORS = {"huawei": "undo", "cisco": "no"}


def _line(pat, par, level):
    return "  " * level + pat + (" " + par if par else "")


def _render(rules, level=0):
    out = []
    for (pat, par, ch) in rules:
        out.append(_line(pat, par, level))
        out.extend(_render(ch, level + 1))
    return out


def exhaustive_acls():
    """all ACL texts of <= 2 lines over the grammar (reduced parameter sets for the two-line shapes)"""
    for p in L1P:
        for q in PAR1:
            yield [(p, q, [])]
    for p in L1P:
        for q in ["", "%cant_delete=0", "%prio=5"]:
            for p2 in L2P:
                for q2 in PAR2:
                    yield [(p, q, [(p2, q2, [])])]
    items = [(p, q) for p in L1P for q in PAR1S]
    for (a, b) in itertools.combinations(items, 2):
        yield [(a[0], a[1], []), (b[0], b[1], [])]


def random_acl(rnd):
    rules = []
    for _ in range(rnd.choice([1, 2, 2, 3, 3])):
        p = rnd.choice(L1P)
        q = rnd.choice(PAR1 + ["", "", ""])
        ch = []
        if "%global" not in q or rnd.random() < 0.1:
            for _ in range(rnd.choice([0, 1, 1, 2])):
                p2 = rnd.choice(L2P)
                q2 = rnd.choice(PAR2 + ["", ""])
                gch = []
                if "%global" not in q2:
                    for _ in range(rnd.choice([0, 0, 1, 2])):
                        gch.append((rnd.choice(L3P), rnd.choice(PAR3 + [""]), []))
                ch.append((p2, q2, gch))
        rules.append((p, q, ch))
    return rules


def random_tree(rnd, deep=True):
    t = odict()
    for r in rnd.sample(R1, rnd.choice([1, 2, 2, 3, 3])):
        t[r] = odict()
        if r.startswith("NEG") and rnd.random() < 0.7:
            continue
        for r2 in rnd.sample(R2, rnd.choice([0, 1, 2, 2, 3])):
            t[r][r2] = odict()
            if deep:
                for r3 in rnd.sample(R3, rnd.choice([0, 0, 1, 2, 3])):
                    t[r][r2][r3] = odict()
    return t


def _T(d):
    return odict((k, _T(v)) for k, v in d.items())


HAND_TREES = [
    {"interface x": {"description foo": {}, "x y": {}}, "NEG interface x": {}},
    {"a b": {"x": {"p": {}, "q": {}}, "y": {}}, "a": {"x y": {}}, "b": {}},
    {"NEG a": {}, "a": {"NEG x": {}, "x": {}}},
    {"a b c": {"description foo": {"p": {}}, "NEG x y": {}}, "NEG a b": {"x": {}}},
    {"b": {"x": {}}, "a c": {"y": {}, "x y z": {"p q": {}, "NEG p": {}}}},
]

SPECIAL_MERGES = [
    # (vendor, A, B, tree) -- the pair of section 6 item 4 of DESIGN.md
    ("huawei", "interface *\n  description ~", "interface ~ %global %prio=5", {"interface x": {"description foo": {}}}),
    ("huawei", "interface *\n  description ~", "interface ~ %global", {"interface x": {"description foo": {}}}),
]
SPECIAL_FILTERS = [
    ("huawei", "interface ~ %global", {"interface x": {"description foo": {}}}),
    ("huawei", "~ %global", {"interface x": {"description foo": {"p": {}}}}),
    ("huawei", "interface *", {"undo interface x": {}, "interface x": {}}),
]


def _subst(x, neg):
    if isinstance(x, str):
        return x.replace("NEG", neg)
    return odict((k.replace("NEG", neg), _subst(v, neg)) for k, v in x.items())


def scope(tier, seed):
    """-> (exhaustive ACL texts, random ACL texts, trees for the exhaustive part, trees for the random part)
    all still containing the NEG placeholder"""
    n_rand_acl, n_tree_ex, n_tree_rand = (1200, 40, 60) if tier == "quick" else (6000, 200, 200)
    rnd = random.Random(1000 + seed)
    ex = []
    seen = set()
    for rules in exhaustive_acls():
        txt = "\n".join(_render(rules))
        if txt not in seen:
            seen.add(txt)
            ex.append(txt)
    ra = []
    tries = 0
    while len(ra) < n_rand_acl and tries < n_rand_acl * 20:
        tries += 1
        txt = "\n".join(_render(random_acl(rnd)))
        if txt not in seen:
            seen.add(txt)
            ra.append(txt)
    trees = [_T(t) for t in HAND_TREES]
    tseen = set(h(ordered(t)) for t in trees)
    rnd = random.Random(2000 + seed)
    want = max(n_tree_ex, n_tree_rand)
    while len(trees) < want:
        t = random_tree(rnd, deep=(len(trees) % 3 != 0))
        k = h(ordered(t))
        if k not in tseen:
            tseen.add(k)
            trees.append(t)
    return ex, ra, trees[:n_tree_ex], trees[:n_tree_rand]


# ===== the real thing
_handles = []


def _annet():
    if _handles:
        return _handles[0]
    _handles.append(_annet0())
    return _handles[0]


def _annet0():
    setup_annet()
    from annet.annlib.rbparser.acl import compile_acl_text
    from annet.annlib import patching
    from annet.generators.result import RunGeneratorResult
    return compile_acl_text, patching, RunGeneratorResult


def real_filter(tree, acl_text, vendor, fatal=False):
    compile_acl_text, patching, _ = _annet()
    return patching.apply_acl(tree, compile_acl_text(acl_text, vendor), fatal_acl=fatal)


def real_merge_text(named):
    """A+B the way annet unites the ACLs of several generators"""
    _, _, RunGeneratorResult = _annet()
    res = RunGeneratorResult()
    for name, text in named:
        res.add_partial(types.SimpleNamespace(name=name, acl=text, acl_safe=""))
    return res.acl_text()


def _missing(exp, got):
    pe, pg = paths(exp), set(paths(got))
    return [p for p in pe if p not in pg], [p for p in paths(got) if p not in set(pe)]


def _ref(tree, acl, vendor):
    """reference verdict; how the children of two different matching rules that contain the same pattern with different
    %prio/%global are united is not fixed by the statement: such cases count as ambiguous"""
    r = ref_acl.ref_eval(tree, acl, vendor)
    if r.clash:
        r.ambiguous = True
    return r


def check_filter(vendor, acl, tree):
    """-> list of (key, text, expected, actual), info"""
    _, patching, _ = _annet()
    fails = []
    ref = _ref(tree, acl, vendor)
    try:
        got = real_filter(tree, acl, vendor)
    except Exception as e:  # noqa
        return [(K + "filter-raises", "apply_acl/compile_acl_text raised %s" % type(e).__name__, plain(ref.tree), repr(e))], ref, None
    if not is_ordered_subtree(got, tree):
        fails.append((K + "not-ordered-subtree", "result is not an order-preserving sub-tree of the input", None, ordered(got)))
    same = None
    if not ref.ambiguous:
        same = ordered(got) == ordered(ref.tree)
        if not same:
            miss, extra = _missing(ref.tree, got)
            gotp = set(paths(got))
            minimal = [p for p in miss if len(p) == 1 or p[:-1] in gotp]
            if not extra and miss and all(p in ref.only_subtree for p in minimal):
                fails.append((K + "global-rule-does-not-cover-subtree",
                              "a %global rule whose pattern is not `~` keeps the row it matches but not the rows below it",
                              ordered(ref.tree), ordered(got)))
            else:
                fails.append((K + "filter!=reference", "apply_acl differs from the reference filter", ordered(ref.tree), ordered(got)))
    # idempotence
    try:
        again = real_filter(got, acl, vendor)
        if ordered(again) != ordered(got):
            fails.append((K + "not-idempotent", "filtering the filtered tree again changes it", ordered(got), ordered(again)))
    except Exception as e:  # noqa
        fails.append((K + "not-idempotent", "second filtering raised", ordered(got), repr(e)))
    # strict mode (relative to coverage: only where the plain filter agrees with the reference)
    if same:
        exp_err = [" / ".join(p) for p in ref.uncovered]
        try:
            strict = real_filter(tree, acl, vendor, fatal=True)
            act = None
        except patching.AclError as e:
            act = str(e)
        if act is not None and act not in exp_err and tuple(act.split(" / ")) in ref.sub_scope:
            fails.append((K + "global-rule-does-not-cover-subtree",
                          "strict mode: AclError for a row below a row matched by a %global rule whose pattern is not `~`",
                          ("AclError naming one of %r" % exp_err) if exp_err else "no error", act))
        elif exp_err:
            if act is None:
                fails.append((K + "strict-mode", "uncovered row at a covered parent but no AclError", "AclError naming one of %r" % exp_err, "no error"))
            elif act not in exp_err:
                fails.append((K + "strict-mode", "AclError does not name an uncovered row", "AclError naming one of %r" % exp_err, act))
        else:
            if act is not None:
                fails.append((K + "strict-mode", "AclError although every row at a covered parent is covered", "no error", act))
            elif ordered(strict) != ordered(got):
                fails.append((K + "strict-mode", "strict mode changes the result of a fully covered tree", ordered(got), ordered(strict)))
    return fails, ref, got


_merged = {}


def check_merge(vendor, a, b, tree, ga=None, ra=None):
    fails = []
    try:
        ab = _merged.get((a, b))
        if ab is None:
            if len(_merged) > 1000:
                _merged.clear()
            ab = _merged[(a, b)] = real_merge_text([("GA", a), ("GB", b)])
        if ga is None:
            ga = real_filter(tree, a, vendor)
        gb, gab = real_filter(tree, b, vendor), real_filter(tree, ab, vendor)
    except Exception as e:  # noqa
        return [(K + "filter-raises", "merge: %s" % type(e).__name__, None, repr(e))]
    if ra is None:
        ra = _ref(tree, a, vendor)
    if ra.ambiguous:
        return fails
    rb = _ref(tree, b, vendor)
    if rb.ambiguous:
        return fails
    rab = _ref(tree, ab, vendor)
    if rab.ambiguous:
        return fails
    un = tree_union(ga, gb)
    if not is_subtree(un, gab):
        lost, _ = _missing(un, gab)
        gabp = set(paths(gab))
        if "%prio" in a or "%prio" in b:
            key = "merge-not-monotone:prio"
        elif all(p in rab.sub_scope for p in lost if len(p) == 1 or p[:-1] in gabp):
            key = "merge-not-monotone:global"
        else:
            key = "merge-not-monotone"
        fails.append((K + key, "rows passed by A or by B alone are lost under the merged ACL: %r" % [" / ".join(p) for p in lost[:3]],
                      dict(merged_acl=ab, must_contain=ordered(un)), ordered(gab)))
    return fails


def run(tier="quick", seed=0, part=0, nparts=1):
    ex, ra, trees_ex, trees_ra = scope(tier, seed)
    ev = 0
    amb = 0
    nontrivial = set()
    failures = []
    per_key = {}
    samples = []

    def report(fs, case):
        for (key, text, exp, act) in fs:
            per_key[key] = per_key.get(key, 0) + 1
            if per_key[key] <= 3:
                failures.append(dict(key=key, text=text, case=case, expected=exp, actual=act))

    def one(vendor, acl, tree, partners):
        nonlocal ev, amb
        ev += 1
        fs, ref, got = check_filter(vendor, acl, tree)
        case = dict(kind="filter", vendor=vendor, acl=acl, tree=plain(tree))
        report(fs, case)
        if got is None:
            return
        if ref.ambiguous:
            amb += 1
        else:
            total = len(paths(tree))
            kept = len(paths(ref.tree))
            if 0 < kept < total or ref.suppressed:
                nontrivial.add(h([vendor, acl, ordered(tree)]))
        if part == 0 and len(samples) < 2 and not ref.ambiguous and 1 < len(paths(ref.tree)) < len(paths(tree)):
            samples.append(dict(case, expected=plain(ref.tree)))
        for b in partners:
            ev += 1
            report(check_merge(vendor, acl, b, tree, got, ref), dict(kind="merge", vendor=vendor, a=acl, b=b, tree=plain(tree)))

    allacl = ex + ra
    n = len(allacl)
    for i, acl0 in enumerate(allacl):
        if i % nparts != part:
            continue
        vendor = "cisco" if (tier == "thorough" and i % 5 == 4) else "huawei"
        neg = VENDORS[vendor]
        acl = _subst(acl0, neg)
        partners = [_subst(allacl[(i * 7 + 1) % n], neg), _subst(allacl[(i * 13 + 5) % n], neg)]
        for j, t0 in enumerate(trees_ex if i < len(ex) else trees_ra):
            one(vendor, acl, _subst(t0, neg), partners[:1] if j % 2 == 0 else partners[1:] if j % 4 == 1 else [])
    if part == 0:
        for (vendor, a, b, t) in SPECIAL_MERGES:
            ev += 1
            report(check_merge(vendor, a, b, _T(t)), dict(kind="merge", vendor=vendor, a=a, b=b, tree=t))
        for (vendor, a, t) in SPECIAL_FILTERS:
            one(vendor, a, _T(t), [])
    return dict(
        evaluations=ev, nontrivial=sorted(nontrivial), failures=failures, samples=samples, ambiguous=amb,
        failure_counts=per_key,
        rule="ACL texts: all texts of <= 2 lines (one rule; rule + nested rule; two top rules) over patterns %r / nested %r x "
             "params {none, %%global, %%cant_delete[=0/1], %%prio=5 and pairs}, plus seeded random ACLs (<= 3 top rules, <= 2 nested "
             "levels with <= 2 rules each, third-level patterns %r); x config trees (hand-made + seeded random: <= 3 rows per "
             "level, depth <= 3, rows %r / %r / %r, NEG = undo (huawei) or no (cisco, thorough only)); merge partners: 2 other "
             "ACLs per ACL, merged by the real RunGeneratorResult.acl_text(). The governing rule among equal-%%prio candidates "
             "is an implementation detail: cases where the equal-prio candidates disagree (reverse+cant_delete vs not, "
             "reverse vs direct rule with children; children of two matching rules holding one pattern with different params) are counted in `ambiguous` and only checked for sub-tree/idempotence. "
             "Non-trivial = the reference keeps some but not all rows, or suppresses a reverse-form row of a cant_delete rule; "
             "distinct by (vendor, ACL text, tree)" % (L1P, L2P, L3P, R1, R2, R3),
        bound="exhaustive ACLs <= 2 lines x %d trees, %d random ACLs x %d trees, depth <= 3" % (len(trees_ex), len(ra), len(trees_ra)))


def replay(case):
    tree = _T(case["tree"])
    if case.get("kind") == "merge":
        fs = check_merge(case["vendor"], case["a"], case["b"], tree)
    else:
        fs, _, _ = check_filter(case["vendor"], case["acl"], tree)
    if fs:
        return dict(ok=False, key=fs[0][0], expected=fs[0][2], actual=fs[0][3], all=[f[0] for f in fs])
    return dict(ok=True, expected=None, actual=None)
