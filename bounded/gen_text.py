"""enumerators of small indented texts (lists of lines) for the offside-parser contracts"""
import itertools
import random


def line_alphabet(max_indent=3, words=("a", "b"), specials=True):
    lines = [" " * i + w for i in range(max_indent + 1) for w in words]
    if specials:
        lines += ["", "   ", "!c", "  !c", "#", "  #x", "\ta"]
    return lines


def texts(max_lines, max_indent=3, words=("a", "b"), specials=True):
    alpha = line_alphabet(max_indent, words, specials)
    for n in range(0, max_lines + 1):
        for combo in itertools.product(alpha, repeat=n):
            yield list(combo)


def random_texts(count, seed, max_lines=12, max_indent=6, words=("a", "b", "c")):
    rnd = random.Random(seed)
    alpha = line_alphabet(max_indent, words)
    for _ in range(count):
        n = rnd.randint(1, max_lines)
        # bias towards plausible indentation: mostly step from the previous indent
        out = []
        prev = 0
        for _ in range(n):
            r = rnd.random()
            if r < 0.15:
                out.append(rnd.choice(alpha))
                continue
            ind = max(0, min(max_indent, prev + rnd.choice([-3, -2, -1, 0, 0, 1, 1, 2])))
            prev = ind
            out.append(" " * ind + rnd.choice(words))
        yield out
