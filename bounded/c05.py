"""C05 bounded layer: the real parse_to_tree against an independent reference offside parser written from the
property text (parent = nearest preceding line of the section with strictly smaller indentation; a dedent must land
on the indentation of an enclosing line; blank/comment lines ignored; '#' at column 0 starts a new section)."""
import hashlib
import re
from collections import OrderedDict as odict

from annet.annlib import tabparser
from bounded.gen_text import texts, random_texts


def ref_parse(lines, comments=("!", "#")):
    """-> (tree, error_line_number or None); numbering counts every line handed in (1-based)"""
    tree = odict()
    section = []      # (indent, path) of every line of the current section, in order
    g = None
    for number, raw in enumerate(lines, start=1):
        if "#" in comments and raw.startswith("#"):
            section, g = [], None
            continue
        st = raw.strip()
        if st == "" or st.startswith(tuple(comments)):
            continue
        ind = len(raw) - len(raw.lstrip(" \t"))
        if g is None:
            g = ind
        if ind < g:
            return tree, number
        # nearest preceding line with strictly smaller indentation
        parent = None
        for (pi, ppath) in reversed(section):
            if pi < ind:
                parent = (pi, ppath)
                break
        if section and ind <= section[-1][0]:
            # a dedent (or same level) must land on the indentation of the previous line or one of its ancestors
            chain = []
            cur = len(section) - 1
            while cur is not None:
                chain.append(section[cur][0])
                nxt = None
                for j in range(cur - 1, -1, -1):
                    if section[j][0] < section[cur][0]:
                        nxt = j
                        break
                cur = nxt
            if ind not in chain:
                return tree, number
        path = (parent[1] if parent else ()) + (st,)
        section.append((ind, path))
        node = tree
        for key in path:
            node = node.setdefault(key, odict())
    return tree, None


def _split(text):
    return tabparser.CommonFormatter().split(text)


def run_case(lines):
    text = "\n".join(lines)
    fed = _split(text)
    exp_tree, exp_err = ref_parse(fed)
    try:
        got = tabparser.parse_to_tree(text, _split)
        got_err = None
    except tabparser.ParserError as e:
        got = None
        m = re.search(r"line (\d+):", str(e))
        got_err = int(m.group(1)) if m else -1
    if exp_err is not None or got_err is not None:
        ok = exp_err == got_err
    else:
        ok = _ordered(got) == _ordered(exp_tree)
    return ok, (exp_tree if exp_err is None else "ParserError at line %d" % exp_err), (got if got_err is None else "ParserError at line %d" % got_err)


def _ordered(t):
    return [(k, _ordered(v)) for k, v in t.items()]


def _depth(t):
    return 0 if not t else 1 + max(_depth(v) for v in t.values())


def run(tier="quick", seed=0, part=0, nparts=1):
    max_lines = 5 if tier == "quick" else 6
    ev = 0
    nontrivial = set()
    failures = []
    samples = []
    gens = [texts(max_lines, max_indent=3)]
    if tier == "thorough":
        gens.append(random_texts(40000, seed * 1000 + 7))
    else:
        gens.append(random_texts(4000, seed * 1000 + 7))
    i = 0
    for g in gens:
        for lines in g:
            i += 1
            if i % nparts != part:
                continue
            ev += 1
            ok, exp, got = run_case(lines)
            if isinstance(exp, str) or _depth(exp) >= 2:
                nontrivial.add(hashlib.md5("\n".join(lines).encode()).hexdigest()[:12])
            if len(samples) < 2 and len(lines) >= 3 and part == 0:
                samples.append(dict(text="\n".join(lines), expected=_j(exp)))
            if not ok and len(failures) < 3:
                failures.append(dict(key="bounded:parse_to_tree!=reference", text="parse_to_tree differs from the reference offside parser",
                                     case=dict(lines=lines), expected=_j(exp), actual=_j(got)))
    return dict(evaluations=ev, nontrivial=sorted(nontrivial), failures=failures, samples=samples,
                rule="all texts of <= %d lines over indent 0..3 x {a,b} plus blank, '!'-comment (indented or not), '#' at column 0, "
                     "indented '#', tab-indented line; plus seeded random texts (<= 12 lines, indent 0..6); non-trivial = nesting "
                     "depth >= 2 or a ParserError expected; distinct by text" % max_lines,
                bound="exhaustive to %d lines (19 line shapes), random beyond" % max_lines)


def _j(x):
    if isinstance(x, dict):
        return {k: _j(v) for k, v in x.items()}
    return x


def replay(case):
    ok, exp, got = run_case(case["lines"])
    return dict(ok=ok, expected=_j(exp), actual=_j(got))
