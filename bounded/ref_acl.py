"""Independent reference ACL matcher / filter (bounded layer, used by C06 and C10).

Written from docs/usage/acl.rst and the statements of C06/C10, not from annet's matcher:

* an ACL is a forest of rules, nesting by indentation (parent = nearest preceding line with smaller indentation);
  blank lines and lines starting with '#' are ignored.
* a rule line is `pattern [%param[=value] ...]`.  Pattern words: a literal word matches itself, `*` matches exactly one
  word, a trailing `~` matches one or more words (the rest of the line); without a trailing `~` the pattern matches a
  PREFIX of the row on a word boundary (`mpls` matches `mpls` and `mpls ldp`).
* `%global`: "the specified string and all nested blocks" -- the whole sub-tree below a row matched by a global rule is
  covered; a global rule is also visible at every deeper level of the block it is written in.
* `%cant_delete` (default: on iff the pattern starts with `interface`): delete commands must not be generated for the
  rule; a row that is the REVERSE form of the rule (vendor negation word + something matching the rule; for a rule that
  itself starts with the negation word the reverse form is the rule without it) is then neither passed nor an error.
* `%prio=N` (default 0): among several matching rules the ones with the highest prio govern.  Which of several
  equal-prio candidates governs is an implementation detail (annet: shared-symbol ratio); the reference reports
  `ambiguous` when the equal-prio candidates do not agree on the outcome.
* the same pattern written several times at one level (several generators) is ONE rule: global = any, prio = max,
  deletion allowed if any declaration allows it, children united.
* children of a row: the children rules of ALL rules that match the row directly at its level (a reverse-form row is a
  delete command: the local children rules are not applied below it when the governing candidates are reverse
  matches), plus the inherited %global rules.
"""
from collections import OrderedDict as odict

NEGATION = {"huawei": "undo", "h3c": "undo", "cisco": "no", "arista": "no", "nexus": "no", "juniper": "delete",
            "nokia": "delete", "routeros": "remove"}


class Rule:
    __slots__ = ("words", "text", "is_global", "cant_delete", "prio", "children", "gens", "line")

    def __init__(self, text):
        self.text = text
        self.words = text.split()
        self.is_global = False
        self.cant_delete = []     # one flag per declaration
        self.prio = 0
        self.children = []        # list[Rule]
        self.gens = []            # generator name per declaration (C10)

    @property
    def no_delete(self):
        return all(self.cant_delete)

    def __repr__(self):
        return "Rule(%r%s%s prio=%d cd=%r %r)" % (self.text, " G" if self.is_global else "", "", self.prio, self.cant_delete, self.children)


def _truth(v):
    v = v.strip().lower()
    if v in ("1", "true", "yes", "on", "y"):
        return True
    if v in ("0", "false", "no", "off", "n", ""):
        return False
    raise ValueError(v)


def parse_acl(text, default_gen=None):
    """ACL text -> list of top-level Rule (same-pattern siblings united)"""
    roots = []
    stack = []   # (indent, rule)
    for raw in text.split("\n"):
        if raw.strip() == "" or raw.lstrip().startswith("#"):
            continue
        ind = len(raw) - len(raw.lstrip(" \t"))
        body = raw.strip()
        params = {}
        cut = None
        toks = body.split()
        for i, tok in enumerate(toks):
            if tok.startswith("%") and i > 0:
                cut = i
                break
        if cut is not None:
            for tok in toks[cut:]:
                if tok.startswith("%"):
                    k, _, v = tok[1:].partition("=")
                    params[k] = v if v != "" else "1"
            toks = toks[:cut]
        r = Rule(" ".join(toks))
        r.is_global = _truth(params.get("global", "0"))
        if "cant_delete" in params:
            r.cant_delete = [_truth(x) for x in params["cant_delete"].replace(",", " ").split()]
        else:
            r.cant_delete = [r.text.startswith("interface")]
        r.prio = int(params.get("prio", "0"))
        if "generator_names" in params:
            r.gens = params["generator_names"].replace(",", " ").split()
        elif default_gen is not None:
            r.gens = [default_gen]
        while stack and stack[-1][0] >= ind:
            stack.pop()
        (stack[-1][1].children if stack else roots).append(r)
        stack.append((ind, r))
    return _unite(roots)


def _unite(rules):
    by = odict()
    for r in rules:
        if r.text not in by:
            by[r.text] = r
        else:
            m = by[r.text]
            m.is_global = m.is_global or r.is_global
            m.cant_delete = m.cant_delete + r.cant_delete
            m.prio = max(m.prio, r.prio)
            m.gens = m.gens + r.gens
            m.children = m.children + r.children
    out = list(by.values())
    for r in out:
        r.children = _unite(r.children)
    return out


def words_match(pattern, row):
    """pattern, row: lists of words"""
    if pattern and pattern[-1] == "~":
        head = pattern[:-1]
        if len(row) < len(head) + 1:
            return False
    else:
        head = pattern
        if len(row) < len(head):
            return False
    for p, w in zip(head, row):
        if p != "*" and p != w:
            return False
    return True


def reverse_words(pattern, neg):
    if pattern and pattern[0] == neg and len(pattern) > 1:
        return pattern[1:]
    return [neg] + pattern


class Cand:
    __slots__ = ("rule", "reverse", "inherited_global")

    def __init__(self, rule, reverse, g):
        self.rule, self.reverse, self.inherited_global = rule, reverse, g

    @property
    def suppress(self):
        return self.reverse and self.rule.no_delete


def candidates(row, local_rules, global_rules, neg):
    """all (rule, direction) that match the row at this level"""
    w = row.split()
    res = []
    for (rules, g) in ((local_rules, False), (global_rules, True)):
        for r in rules:
            if words_match(r.words, w):
                res.append(Cand(r, False, g))
            if words_match(reverse_words(r.words, neg), w):
                res.append(Cand(r, True, g))
    return res


class Verdict:
    """what the ACL says about one row at one level"""
    __slots__ = ("cands", "covered", "suppressed", "ambiguous", "child_local", "child_global", "child_sub", "governing", "clash")


def _split(rules):
    return [r for r in rules if not r.is_global], [r for r in rules if r.is_global]


def judge(row, has_children, local_rules, global_rules, sub, neg):
    """sub: None, or the set of pattern texts of the %global rules whose sub-tree we are in"""
    v = Verdict()
    cands = candidates(row, local_rules, global_rules, neg)
    v.cands = cands
    v.ambiguous = False
    v.clash = False
    v.suppressed = False
    v.governing = []
    v.child_local, v.child_global, v.child_sub = [], list(global_rules), (set(sub) if sub else None)
    if not cands:
        v.covered = sub is not None
        return v
    v.covered = True
    top = max(c.rule.prio for c in cands)
    tops = [c for c in cands if c.rule.prio == top]
    v.governing = tops
    if len({c.suppress for c in tops}) > 1:
        v.ambiguous = True
    v.suppressed = tops[0].suppress
    direct_local = [c for c in cands if not c.reverse and not c.inherited_global]
    for c in cands:
        if not c.reverse and c.inherited_global:
            v.child_sub = (v.child_sub or set()) | {c.rule.text}
    gov_direct = {not c.reverse for c in tops}
    if gov_direct == {True}:
        use_local = True
    elif gov_direct == {False}:
        use_local = False
    else:
        use_local = True
        if has_children and any(c.rule.children for c in direct_local):
            v.ambiguous = True
    if use_local:
        for c in direct_local:
            lo, gl = _split(c.rule.children)
            v.child_local += [r for r in lo if r not in v.child_local]
            v.child_global += [r for r in gl if r not in v.child_global]
        # the same pattern among the children of two different matching rules, with different parameters: how the two
        # are united (prio, global) is not described anywhere; the reference keeps them as two rules and says so
        seen = {}
        for r in v.child_local + v.child_global:
            k = seen.setdefault(r.text, (r.prio, r.is_global))
            if k != (r.prio, r.is_global):
                v.clash = True
    return v


class RefResult:
    def __init__(self):
        self.tree = odict()
        self.ambiguous = False
        self.clash = False        # children of two matching rules contain one pattern with different %prio / %global
        self.uncovered = []       # paths (tuples) of rows at a covered parent that no rule covers, visiting order
        self.suppressed = []      # reverse-form rows of cant_delete rules
        self.only_subtree = set()  # kept paths lying below a row matched by a %global rule whose pattern is not `~`
                                   # (and below no row matched by a `~ %global`)
        self.sub_scope = set()    # all visited paths (kept or not) in that position
        self.governing = {}       # path -> list[Cand]
        self.cands = {}           # path -> list[Cand]


_parsed = {}


def parse_acl_cached(text):
    r = _parsed.get(text)
    if r is None:
        if len(_parsed) > 20000:
            _parsed.clear()
        r = _parsed[text] = parse_acl(text)
    return r


def ref_eval(tree, acl, vendor):
    """acl: text or list[Rule] (rules are never modified by the evaluation)"""
    rules = parse_acl_cached(acl) if isinstance(acl, str) else acl
    neg = NEGATION[vendor]
    res = RefResult()
    lo, gl = _split(rules)

    def walk(config, lo, gl, sub, path, out):
        for row, children in config.items():
            p = path + (row,)
            v = judge(row, bool(children), lo, gl, sub, neg)
            res.cands[p] = v.cands
            res.governing[p] = v.governing
            if v.ambiguous:
                res.ambiguous = True
            if v.clash and children:
                res.clash = True
            if sub and "~" not in sub:
                res.sub_scope.add(p)
            if not v.covered:
                res.uncovered.append(p)
                continue
            if v.suppressed:
                res.suppressed.append(p)
                continue
            if sub and "~" not in sub:
                res.only_subtree.add(p)
            out[row] = odict()
            walk(children, v.child_local, v.child_global, v.child_sub, p, out[row])

    walk(tree, lo, gl, None, (), res.tree)
    return res


def ref_filter(tree, acl_text, vendor="huawei"):
    """the covered sub-tree of `tree`, in input order"""
    return ref_eval(tree, acl_text, vendor).tree


def ref_covers(path, acl, vendor="huawei"):
    """is the row path[-1] yielded inside the blocks path[:-1] covered (every row of the path covered)?"""
    t = odict()
    node = t
    for k in path:
        node[k] = odict()
        node = node[k]
    r = ref_eval(t, acl, vendor)
    return not r.uncovered and not r.suppressed, r


# ===== helpers on trees
def paths(tree, prefix=()):
    res = []
    for k, v in tree.items():
        res.append(prefix + (k,))
        res.extend(paths(v, prefix + (k,)))
    return res


def is_ordered_subtree(small, big):
    """every row of `small` is in `big` at the same path and the order of siblings is that of `big`"""
    it = iter(big.keys())
    for k in small.keys():
        for kb in it:
            if kb == k:
                break
        else:
            return False
        if not is_ordered_subtree(small[k], big[k]):
            return False
    return True


def is_subtree(small, big):
    for k, v in small.items():
        if k not in big or not is_subtree(v, big[k]):
            return False
    return True


def tree_union(a, b):
    out = odict()
    for t in (a, b):
        for k, v in t.items():
            out[k] = tree_union(out[k], v) if k in out else tree_union(v, {})
    return out


def plain(t):
    return {k: plain(v) for k, v in t.items()}


def ordered(t):
    return [(k, ordered(v)) for k, v in t.items()]
