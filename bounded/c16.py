"""C16 bounded layer: file mode and device mode compute the same diff and the same patch.

Both front ends of annet/api/__init__.py are run on the same (old, new, hw):
  file mode   : annet.api._read_old_new_diff_patch(old, new, hw, add_comments=False)
  device mode : annet.api._diff_and_patch(device, old, new, None, None, add_comments=False)   (device = stub with .hw)
with no ACL and no implicit defaults. Expected by the statement: the same commands in the same order
(formatter.cmd_paths of both patch trees) and the same diff entries (the file-mode diff against the device-mode diff,
which is already stripped of unchanged lines). For the corpus samples given as texts the two CLI workers are compared
as well: api.file_patch_worker / api.file_diff_worker on files in a temp dir against the device-mode patch text /
diff text (plain and with --show-rules) and the entries of the `pre` the diff worker renders against those of the
device-mode diff. Inputs: the shipped tests/annet/test_patch/*.yaml corpus, its per-vendor cross products (before_i, after_j),
and random sub-trees of the union of all corpus trees of a vendor."""
import os
import random
import shutil
import tempfile
from collections import OrderedDict as odict

from bounded.common import setup_annet, h

HW_STUB = {   # as tests/__init__.py: make_hw_stub
    "cisco": "Cisco Catalyst", "nexus": "Cisco Nexus", "asr": "Cisco ASR", "iosxr": "Cisco XR", "huawei": "Huawei",
    "huawei ce": "Huawei CE0000", "juniper": "Juniper", "routeros": "RouterOS", "aruba": "Aruba", "arista": "Arista", "nokia": "Nokia",
    "pc": "PC", "ribbon": "Ribbon", "optixtrans": "Huawei DC", "b4com": "B4com", "h3c": "H3C",
}


class _Dev:
    def __init__(self, hw):
        self.hw = hw
        self.hostname = "dev1"
        self.fqdn = "dev1.example"
        self.breed = None
        self.tags = []


class _Args:
    def __init__(self, hw):
        self.hw = hw
        self.add_comments = False
        self.indent = "  "
        self.show_rules = False
        self.no_color = True


_ctx = {}


def context(vendor):
    if vendor not in _ctx:
        setup_annet()
        from annet.vendors import registry_connector
        from annet.annlib.netdev.views.hardware import HardwareView
        hw = HardwareView(HW_STUB[vendor], None)
        _ctx[vendor] = dict(hw=hw, fm=registry_connector.get().match(hw).make_formatter(indent=""),
                            split=registry_connector.get().match(hw).make_formatter().split)
    return _ctx[vendor]


def corpus_dir():
    import annet
    return os.path.join(os.path.dirname(os.path.dirname(os.path.abspath(annet.__file__))), "tests", "annet", "test_patch")


def expand_diff(tree):
    """a `diff:` sample (rows marked + / -) -> (before, after)"""
    def node(n, sign):
        a, b = odict(), odict()
        for line, ch in n.items():
            line = line.strip()
            s = 0
            if line[:1] in "+-" and line[:1]:
                s = 1 if line[0] == "+" else -1
                line = line[1:].strip()
            s = s or sign
            (sa, sb) = node(ch, s)
            if s != 1:
                a[line] = sa
            if s != -1:
                b[line] = sb
        return a, b
    return node(tree, 0)


_corpus = []


def corpus():
    """[(name, vendor, before tree, after tree, before text or None, after text or None)]"""
    if _corpus:
        return _corpus
    import yaml
    from annet import tabparser
    d = corpus_dir()
    for fname in sorted(os.listdir(d)):
        if not fname.endswith(".yaml"):
            continue
        with open(os.path.join(d, fname)) as f:
            data = yaml.load(f, Loader=yaml.BaseLoader)
        for n, s in enumerate(data if isinstance(data, list) else [data], start=1):
            vendor = s.get("vendor", "huawei").lower()
            split = context(vendor)["split"]
            if "diff" in s:
                before, after = expand_diff(tabparser.parse_to_tree(text=s["diff"], splitter=split))
                bt = at = None
            else:
                bt, at = s["before"], s["after"]
                before = tabparser.parse_to_tree(text=bt, splitter=split)
                after = tabparser.parse_to_tree(text=at, splitter=split)
            _corpus.append(("%s#%d" % (fname, n), vendor, before, after, bt, at))
    return _corpus


def plain(t):
    return {k: plain(v) for k, v in t.items()}


def to_odict(d):
    return odict((k, to_odict(v)) for k, v in d.items())


def merge(a, b):
    out = odict((k, merge(v, odict())) for k, v in a.items())
    for k, v in b.items():
        out[k] = merge(out[k], v) if k in out else merge(v, odict())
    return out


_union = {}


def union_tree(vendor):
    if vendor not in _union:
        u = odict()
        for (_, v, b, a, _, _) in corpus():
            if v == vendor:
                u = merge(merge(u, b), a)
        _union[vendor] = u
    return _union[vendor]


def random_pair(vendor, rng):
    u = union_tree(vendor)
    groups = odict()
    for row in u:
        groups.setdefault(" ".join(row.split()[:2]), []).append(row)
    names = list(groups)
    chosen = rng.sample(names, min(len(names), rng.choice([1, 1, 2, 2, 3, 4])))
    rows = [r for g in chosen for r in groups[g]][:14]
    p_root = rng.choice([0.5, 0.7, 0.9])
    p_child = rng.choice([0.5, 0.7, 0.9])

    def sub(t, p):
        return odict((k, sub(v, p_child)) for k, v in t.items() if rng.random() < p)
    base = odict((r, u[r]) for r in rows)
    return sub(base, p_root), sub(base, p_root)


# ---------------------------------------------------------------- the two front ends
def diff_entries(d):
    return [[str(getattr(op, "value", op)), row, diff_entries(ch)] for (op, row, ch, _) in d]


def file_mode(vendor, old, new):
    from annet import api
    c = context(vendor)
    _rb, diff_obj, _pre, patch_tree = api._read_old_new_diff_patch(to_odict(old), to_odict(new), c["hw"], False)
    return diff_entries(diff_obj), [list(p) for p in c["fm"].cmd_paths(patch_tree)]


def device_mode(vendor, old, new):
    from annet import api
    c = context(vendor)
    diff_tree, patch_tree = api._diff_and_patch(_Dev(c["hw"]), to_odict(old), to_odict(new), None, None, False)
    return diff_entries(diff_tree), [list(p) for p in c["fm"].cmd_paths(patch_tree)], diff_tree, patch_tree


def reference_diff(vendor, old, new):
    """strip_unchanged(device-mode diff) with an own strip over the real make_diff (the statement's right-hand side)"""
    from annet import patching, rulebook
    from annet.types import Op
    c = context(vendor)
    full = patching.make_diff(to_odict(old), to_odict(new), rulebook.get_rulebook(c["hw"]), [None, None])

    def strip(d):
        return [[str(getattr(op, "value", op)), row, strip(ch)] for (op, row, ch, _) in d if op != Op.UNCHANGED]
    return strip(full)


def leading(cmd):
    ws = cmd.split()
    if ws and ws[0] in ("undo", "no", "delete", "set"):
        ws = ws[1:]
    w = (ws[0] if ws else "empty").split(":")[0]
    import re
    return w if re.fullmatch(r"[A-Za-z][A-Za-z0-9_\-]*", w) else "other"


def logic_of(vendor, path):
    """(short name of the rulebook logic function that owns the command, raw rule) or (None, None) when the command
    only matches a catch-all rule (synthesised commands); used to name the failure class"""
    try:
        from annet import rulebook
        from annet.annlib import patching
        rules = rulebook.get_rulebook(context(vendor)["hw"])["patching"]
        match = None
        for row in path:
            ws = row.split()
            cands = ([" ".join(ws[1:])] if ws and ws[0] in ("undo", "no") else []) + [row]
            for cand in cands:
                (match, ch) = patching._match_row_to_rules(cand, rules)
                if match:
                    rules = ch
                    break
            if not match:
                return None, None
        if match["raw_rule"].split()[0] in ("~", "undo", "no"):
            return None, None
        fn = match["attrs"]["logic"]
        mod = fn.__module__.replace("annet.annlib.rulebook.", "").replace("annet.rulebook.", "")
        return "%s.%s" % (mod, fn.__name__), match["raw_rule"]
    except Exception:
        return None, None


def _exc(e):
    return "%s: %s" % (type(e).__name__, str(e)[:200])


def check_pair(vendor, old, new):
    """-> list of (key, text, expected, actual)"""
    out = []
    f_err = d_err = None
    try:
        f_diff, f_cmds = file_mode(vendor, old, new)
    except Exception as e:
        f_err = _exc(e)
    try:
        d_diff, d_cmds, _, _ = device_mode(vendor, old, new)
    except Exception as e:
        d_err = _exc(e)
    if f_err or d_err:
        # both front ends refusing the input with the same exception type is the same behaviour (ill-formed input)
        if (f_err or "").split(":")[0] != (d_err or "").split(":")[0]:
            which = "file-mode-raises" if f_err and not d_err else ("device-mode-raises" if d_err and not f_err else "different-exceptions")
            out.append(("bounded:C16:%s:%s:%s" % (which, vendor.replace(" ", "-"), (f_err or d_err).split(":")[0]),
                        "only one front end raises (or they raise differently)", dict(device_mode=d_err or "a patch"),
                        dict(file_mode=f_err or "a patch")))
        return out, None
    if f_cmds != d_cmds:
        n = 0
        while n < min(len(f_cmds), len(d_cmds)) and f_cmds[n] == d_cmds[n]:
            n += 1
        first = f_cmds[n] if n < len(f_cmds) else d_cmds[n]
        # the class is named after the first command that one patch has and the other has not (as multisets)
        for (a, b) in ((d_cmds, f_cmds), (f_cmds, d_cmds)):
            rest = list(b)
            extra = []
            for x in a:
                if x in rest:
                    rest.remove(x)
                else:
                    extra.append(x)
            if extra:
                first = extra[0]
                break
        logic, raw_rule = logic_of(vendor, first)
        if sorted(f_cmds) == sorted(d_cmds):
            # one class per vendor: the order of the per-key buckets of make_pre depends on the unchanged rows
            out.append(("bounded:C16:patch-order-differs:%s" % vendor.replace(" ", "-"),
                        "file-mode patch has the commands of the device-mode patch in another order; first difference at command #%d: "
                        "file %r, device %r (logic %s, rule %r)" % (n, f_cmds[n], d_cmds[n], logic, raw_rule),
                        dict(device_mode_cmd_paths=d_cmds), dict(file_mode_cmd_paths=f_cmds)))
        else:
            out.append(("bounded:C16:patch-differs:%s:%s" % (vendor.replace(" ", "-"), logic or leading(first[-1])),
                        "file-mode patch != device-mode patch; first difference at command #%d, first command only one side has: %r "
                        "(logic %s, rule %r)" % (n, first, logic, raw_rule), dict(device_mode_cmd_paths=d_cmds), dict(file_mode_cmd_paths=f_cmds)))
    if f_diff != d_diff:
        out.append(("bounded:C16:diff-differs:%s" % vendor.replace(" ", "-"), "file-mode diff entries != device-mode diff entries",
                    d_diff, f_diff))
    try:
        ref = reference_diff(vendor, old, new)
        if d_diff != ref:
            out.append(("bounded:C16:device-diff-not-stripped:%s" % vendor.replace(" ", "-"),
                        "device-mode diff != make_diff without its unchanged entries", ref, d_diff))
    except Exception:
        pass
    return out, d_cmds


def check_workers(vendor, before_text, after_text):
    """the CLI workers of file mode on real files against the device-mode texts"""
    from annet import api, patching, tabparser
    from annet.annlib.diff import resort_diff, gen_pre_as_diff
    out = []
    c = context(vendor)
    tmp = tempfile.mkdtemp(prefix="c16_")
    try:
        op, np = os.path.join(tmp, "old.cfg"), os.path.join(tmp, "new.cfg")
        with open(op, "w") as f:
            f.write(before_text)
        with open(np, "w") as f:
            f.write(after_text)
        args = _Args(c["hw"])
        f_patch = "".join(text for (_, text, _) in api.file_patch_worker((op, np), args))
        f_diff = "".join(text for (_, text, _) in api.file_diff_worker((op, np), args))
        # once more with --show-rules, observing the `pre` the worker hands to its renderer
        captured = []
        real_render = api.ann_diff.gen_pre_as_diff

        def spy(pre, *a, **kw):
            if not (a[3:] or kw.get("_level")):
                captured.append(pre_entries(pre))
            return real_render(pre, *a, **kw)
        api.ann_diff.gen_pre_as_diff = spy
        try:
            args_rules = _Args(c["hw"])
            args_rules.show_rules = True
            f_diff_rules = "".join(text for (_, text, _) in api.file_diff_worker((op, np), args_rules))
        finally:
            api.ann_diff.gen_pre_as_diff = real_render
    finally:
        shutil.rmtree(tmp, ignore_errors=True)
    old = tabparser.parse_to_tree(text=before_text, splitter=c["split"])
    new = tabparser.parse_to_tree(text=after_text, splitter=c["split"])
    diff_tree, patch_tree = api._diff_and_patch(_Dev(c["hw"]), old, new, None, None, False)
    d_patch = api._format_patch_blocks(patch_tree, c["hw"], "  ") if patch_tree else ""
    d_diff = "".join(gen_pre_as_diff(patching.make_pre(resort_diff(diff_tree)), False, "  ", True))
    if f_patch != d_patch:
        fl, dl = f_patch.splitlines(), d_patch.splitlines()
        n = 0
        while n < min(len(fl), len(dl)) and fl[n] == dl[n]:
            n += 1
        first = (fl[n] if n < len(fl) else dl[n]).strip()
        out.append(("bounded:C16:worker-patch-text-differs:%s:%s" % (vendor.replace(" ", "-"), leading(first)),
                    "file_patch_worker text != device-mode patch text (first difference line %d)" % n, d_patch, f_patch))
    if sorted(f_diff.splitlines()) != sorted(d_diff.splitlines()):
        only = sorted(set(f_diff.splitlines()) ^ set(d_diff.splitlines()), key=lambda x: x.lstrip("+- "))
        out.append(("bounded:C16:worker-diff-text-differs:%s:%s" % (vendor.replace(" ", "-"), leading(only[0].lstrip("+- ")) if only else "count"),
                    "file_diff_worker lines != device-mode diff lines (as multisets); lines on one side only: %r" % only[:4], d_diff, f_diff))
    # the diff ENTRIES the file worker renders against make_pre(device-mode diff), per level as multisets (all ops, so
    # that unchanged rows the file front end forgot to drop are seen), and the text with the rule headers
    d_entries = pre_entries(patching.make_pre(diff_tree))
    if captured and captured[-1] != d_entries:
        only = _first_entry_difference(captured[-1], d_entries)
        out.append(("bounded:C16:worker-diff-entries-differ:%s:%s" % (vendor.replace(" ", "-"), only[2] if only else "count"),     # named after the op of the entry
                    "the entries file_diff_worker renders != the entries of the device-mode diff; first entry only one side has: %r"
                    % (only,), d_entries, captured[-1]))
    d_diff_rules = "".join(gen_pre_as_diff(patching.make_pre(resort_diff(diff_tree)), True, "  ", True))
    if sorted(f_diff_rules.splitlines()) != sorted(d_diff_rules.splitlines()):
        only = sorted(set(f_diff_rules.splitlines()) ^ set(d_diff_rules.splitlines()))
        out.append(("bounded:C16:worker-diff-rules-text-differs:%s" % vendor.replace(" ", "-"),
                    "file_diff_worker --show-rules lines != device-mode --show-rules lines (as multisets); lines on one side only: %r"
                    % only[:4], d_diff_rules, f_diff_rules))
    return out


def pre_entries(pre):
    """a `pre` (what gen_pre_as_diff renders) -> per level the sorted list of [rule, key, op, row, children]"""
    out = []
    for raw_rule, content in pre.items():
        for key, diff in content["items"].items():
            for op, rows in diff.items():
                for item in rows:
                    out.append([raw_rule, list(key) if isinstance(key, (tuple, list)) else key, str(getattr(op, "value", op)), item["row"],
                                pre_entries(item["children"])])
    return sorted(out, key=repr)


def _first_entry_difference(a, b):
    ra, rb = [repr(x[:4]) for x in a], [repr(x[:4]) for x in b]
    for x, r in zip(a, ra):
        if ra.count(r) != rb.count(r):
            return x[:4]
    for x, r in zip(b, rb):
        if ra.count(r) != rb.count(r):
            return x[:4]
    for x in a:
        for y in b:
            if x[:4] == y[:4] and x[4] != y[4]:
                return _first_entry_difference(x[4], y[4])
    return None


# ---------------------------------------------------------------- driver
def cases(tier, seed, part, nparts):
    cp = corpus()
    i = -1
    for (name, vendor, b, a, bt, at) in cp:
        i += 1
        if i % nparts == part:
            yield dict(kind="corpus", name=name, vendor=vendor, old=plain(b), new=plain(a), old_text=bt, new_text=at)
    by_vendor = odict()
    for s in cp:
        by_vendor.setdefault(s[1], []).append(s)
    for vendor, ss in by_vendor.items():
        for x in ss:
            for y in ss:
                i += 1
                if i % nparts == part:
                    yield dict(kind="cross", name="%s x %s" % (x[0], y[0]), vendor=vendor, old=plain(x[2]), new=plain(y[3]))
        # the reverse direction (after_j -> before_i) of the same samples
        for x in ss:
            i += 1
            if i % nparts == part:
                yield dict(kind="reverse", name=x[0], vendor=vendor, old=plain(x[3]), new=plain(x[2]))
    nrand = 800 if tier == "quick" else 40000
    for vendor in by_vendor:
        for j in range(nrand):
            i += 1
            if i % nparts == part:
                old, new = random_pair(vendor, random.Random("%s/%s/%d" % (seed, vendor, j)))
                yield dict(kind="random", name="random %d" % j, vendor=vendor, old=plain(old), new=plain(new))


def check_case(case):
    res, d_cmds = check_pair(case["vendor"], case["old"], case["new"])
    if case.get("old_text") is not None and not res:     # (a tree-level mismatch is the same finding)
        try:
            res = res + check_workers(case["vendor"], case["old_text"], case["new_text"])
        except Exception as e:
            res = res + [("bounded:C16:worker-raises:%s:%s" % (case["vendor"].replace(" ", "-"), type(e).__name__),
                          "a CLI worker of file mode (or the device-mode rendering) raises", "texts", _exc(e))]
    return res, d_cmds


def run(tier="quick", seed=0, part=0, nparts=1):
    setup_annet()
    ev = 0
    nontrivial = set()
    failures = []
    per_key = {}
    samples = []
    for case in cases(tier, seed, part, nparts):
        ev += 1
        res, d_cmds = check_case(case)
        if d_cmds and case["old"] != case["new"]:
            nontrivial.add(h([case["vendor"], case["old"], case["new"]]))
            if part == 0 and len(samples) < 2 and case["kind"] == "corpus" and len(d_cmds) < 8:
                samples.append(dict(case=case, cmd_paths=d_cmds))
        for (key, text, exp, act) in res:
            per_key[key] = per_key.get(key, 0) + 1
            if per_key[key] <= 3:
                failures.append(dict(key=key, text=text, case=case, expected=exp, actual=act))
    return dict(evaluations=ev, nontrivial=sorted(nontrivial), failures=failures, samples=samples,
                rule="the 192 (before, after) samples of tests/annet/test_patch/*.yaml (10 vendors, hardware stubs of the test suite): each "
                     "sample (+ the CLI workers file_patch_worker/file_diff_worker on temp files for the 81 samples given as texts: patch text, "
                     "diff text plain and with --show-rules, and the entries of the rendered `pre` incl. unchanged ones), each "
                     "sample reversed, all per-vendor cross products (before_i, after_j), and %d seeded random pairs per vendor of random "
                     "sub-trees of the union of the vendor's corpus trees (1..4 groups of root rows sharing their first two words, rows and "
                     "children kept with p in {0.5,0.7,0.9} independently for old and new). Compared: cmd_paths of "
                     "_read_old_new_diff_patch vs _diff_and_patch (order-sensitive), their diff entries (op,row,children), and the "
                     "device diff against make_diff minus UNCHANGED. non-trivial = old != new and the device-mode patch is not empty; "
                     "distinct by (vendor, old, new)" % (800 if tier == "quick" else 40000),
                bound="shipped corpus, per-vendor cross products, %d random sub-tree pairs per vendor" % (800 if tier == "quick" else 40000))


def replay(case):
    res, _ = check_case(case)
    return dict(ok=not res, keys=[r[0] for r in res], expected=[r[2] for r in res][:2], actual=[r[3] for r in res][:2])
