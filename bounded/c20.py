"""C20 bounded layer: results are independent of processing history and inputs are left unmodified.

A *job* is (hardware model, rulebook: shipped or synthetic texts, old, new, ACL text).  For every job the production
function annet.api._diff_and_patch and Orderer.order_config are run
  (1) in this process, one job after the other in a seeded shuffled sequence (jobs of many vendors interleaved, every job
      at least twice at different positions, compiled rulebooks / ACLs shared through annet's caches), and
  (2) as the FIRST computation of a fresh process: a freshly exec'ed interpreter (the "zygote") imports annet, computes
      nothing, and forks one child per job (thorough tier and 2 jobs per part in quick: additionally one freshly exec'ed
      interpreter per job),
and the (diff, command paths of the patch, ordered config) triples must be equal.  Around every in-process computation deep
snapshots (copy.deepcopy) of old, new and of the compiled rulebook are compared structurally with the objects afterwards
(regex objects by pattern/flags, functions by qualified name), and the attributes of the compiled ACL rules except the
scratch `match` likewise; the computation is repeated with the same shared compiled ACL
objects; the Diff handed to make_pre/make_patch is compared with its snapshot.

Independent expectations (no code under test involved): equality of two runs of the real code in different histories, equality
with snapshots, and for the synthetic logic function `zzsynth.bump` (which appends ' !' to rule['reverse'] each time it runs)
the rule text says every removal is exactly '<neg> m <key> !'."""
import copy
import json
import os
import re
import subprocess
import sys
import types

from bounded.common import setup_annet, h
from bounded import gen_rb as g

setup_annet()


# ---------------------------------------------------------------------------------------------------------------------
# synthetic logic functions that mutate their rule argument (installed as annet.rulebook.zzsynth)
def install_synth_logic():
    name = "annet.rulebook.zzsynth"
    if name in sys.modules:
        return
    from annet.annlib.rulebook import common
    from annet.annlib.types import Op
    mod = types.ModuleType(name)

    def bump(rule, key, diff, **_):
        # not idempotent: every run makes the reverse template longer
        rule["reverse"] = rule["reverse"] + " !"
        rule["comment"].append("!!bumped!!")
        yield from common.default(rule, key, diff)

    def flip(rule, key, diff, **_):
        # writes an attribute that make_patch reads while iterating (like huawei.bgp.undo_commit)
        if diff[Op.REMOVED]:
            rule["force_commit"] = True
            rule["context"]["flipped"] = "1"
        yield from common.default(rule, key, diff)

    mod.bump = bump
    mod.flip = flip
    sys.modules[name] = mod
    import annet.rulebook
    annet.rulebook.zzsynth = mod


R_MUT = g.R1 + """\
m * %logic=zzsynth.bump
n * %logic=zzsynth.flip
p * %logic=common.default_instead_undo
q %logic=common.undo_redo
"""
# cisco-flavoured: the shipped mutating logics
R_CISCO = """\
ip ssh version * %logic=cisco.misc.ssh_key
ip load-sharing * %logic=common.default_instead_undo
interface *
    ipv6 nd * %logic=cisco.misc.no_ipv6_nd_suppress_ra
    mtu %logic=common.undo_redo
    no ~ %global
    ~ %global
"""
R_HUAWEI = """\
bgp * %logic=huawei.bgp.undo_commit
    peer * ~ %logic=huawei.bgp.peer
    ~ %global
interface *
    mtu %logic=huawei.misc.undo_redo
    ~ %global
"""
ORDER_SMALL = "d\nblk\n    c\n    sub\n        b\n    a\nundo a %order_reverse\na\nm\n"

ACLS_OVERLAP = [
    "interface * %prio=10\n    mtu %cant_delete=1\n    description ~\ninterface 100GE1/0/1\n    mtu\n    description ~ %cant_delete=1\n",
    "interface * %prio=10 %generator_names=g1\n    mtu %cant_delete=1 %generator_names=g1\n    description ~ %generator_names=g1\n"
    "interface */100GE.*/ %prio=5 %generator_names=g2\n    mtu %cant_delete=0 %generator_names=g2\n"
    "interface 100GE1/0/1 %generator_names=g3\n    mtu %cant_delete=1,0 %generator_names=g3,g4\n    description ~ %cant_delete=1 %generator_names=g3\n",
    "interface 100GE1/0/1\n    mtu\n    ~ %global\ninterface * %cant_delete=0\n    mtu %cant_delete=1\n    description ~ %cant_delete=1\n"
    "interface */\\d+GE.*/ %cant_delete=0\n    description ~\n",
]
ACLS_R1 = [None, "a *\nblk *\n    a *\n    sub *\n        ~\nm *\nn *\n", "blk *\n    ~ %global\nb *\nc\nm *\np *\nq\n", "~ %global\n"]


def _mut_pair(rnd):
    old, new = g.rand_pair(rnd, 0.5)
    for fam in ("m", "n", "p"):
        for k in ("1", "2", "3"):
            x = rnd.random()
            if x < 0.35:
                old.insert(rnd.randint(0, len(old)), ["%s %s" % (fam, k), []])
            elif x < 0.5:
                new.insert(rnd.randint(0, len(new)), ["%s %s" % (fam, k), []])
            elif x < 0.6:
                old.insert(rnd.randint(0, len(old)), ["%s %s" % (fam, k), []])
                new.insert(rnd.randint(0, len(new)), ["%s %s" % (fam, k), []])
    x = rnd.random()
    if x < 0.5:
        old.append(["q 1", []])
        if x < 0.3:
            new.append(["q 2", []])
    for unknown in ("zz 9", "yy 8"):          # rows no patching rule knows: make_diff drops them from its private copies
        if rnd.random() < 0.4:
            old.insert(rnd.randint(0, len(old)), [unknown, [["zz 1", []]]])
        if rnd.random() < 0.4:
            new.insert(rnd.randint(0, len(new)), [unknown, []])
    return old, new


def _cisco_pair(rnd):
    def cfg():
        rows = []
        if rnd.random() < 0.5:
            rows.append(["ip ssh version 2", []])
        if rnd.random() < 0.5:
            rows.append(["ip load-sharing %s" % rnd.choice(["a", "b"]), []])
        for i in ("e1", "e2"):
            if rnd.random() < 0.7:
                ch = []
                if rnd.random() < 0.5:
                    ch.append(["ipv6 nd %s" % rnd.choice(["x", "y"]), []])
                if rnd.random() < 0.5:
                    ch.append(["mtu %s" % rnd.choice(["1500", "9000"]), []])
                if rnd.random() < 0.5:
                    ch.append(["description %s" % rnd.choice(["u", "v"]), []])
                rows.append(["interface " + i, ch])
        rnd.shuffle(rows)
        return rows
    return cfg(), cfg()


def _huawei_pair(rnd):
    def cfg():
        rows = []
        if rnd.random() < 0.8:
            asn = rnd.choice(["100", "200"])
            ch = []
            for peer in ("10.0.0.1", "SPINE"):
                if rnd.random() < 0.6:
                    ch.append(["peer %s as-number %s" % (peer, rnd.choice(["1", "2"])), []])
                if rnd.random() < 0.4:
                    ch.append(["peer %s description %s" % (peer, rnd.choice(["u", "v"])), []])
            if rnd.random() < 0.3:
                ch.append(["group SPINE external", []])
            rows.append(["bgp " + asn, ch])
        for i in ("e1", "e2"):
            if rnd.random() < 0.6:
                ch = []
                if rnd.random() < 0.6:
                    ch.append(["mtu %s" % rnd.choice(["1500", "9000"]), []])
                if rnd.random() < 0.4:
                    ch.append(["description %s" % rnd.choice(["u", "v"]), []])
                rows.append(["interface " + i, ch])
        rnd.shuffle(rows)
        return rows
    return cfg(), cfg()


def _corpus_acl(rnd, sample):
    """an ACL built from the top-level rows of the sample: keeps a random subset of them with everything below"""
    tops = []
    for r, _ in sample["old"] + sample["new"]:
        w = r.split()[0]
        if w not in tops and re.match(r"^[A-Za-z0-9_-]+$", w):
            tops.append(w)
    if not tops:
        return None
    keep = [w for w in tops if rnd.random() < 0.7] or tops[:1]
    return "".join("%s ~\n    ~ %%global\n%s\n    ~ %%global\n" % (w, w) for w in keep)


def all_jobs(tier, seed):
    quick = tier == "quick"
    jobs = []
    rnd = g.rng(seed, "c20corpus")
    for s in g.corpus():
        acl = None if rnd.random() < 0.6 else _corpus_acl(rnd, s)
        jobs.append(dict(src=s["name"], model=s["model"], rb="shipped", old=s["old"], new=s["new"], acl=acl))
    n = 12 if quick else 200
    for vendor, model in [("huawei", "Huawei"), ("cisco", "Cisco"), ("arista", "Arista"), ("huawei", "Huawei CE6870"), ("pc", "PC"), ("iosxr", "Cisco ASR")]:
        rnd = g.rng(seed, "c20mut", model)
        for k in range(n):
            old, new = _mut_pair(rnd)
            # the same rulebook TEXT for every vendor: the compile caches must keep the vendors apart
            jobs.append(dict(src="R_MUT", model=model, rb=dict(vendor=vendor, rul=R_MUT, order=ORDER_SMALL.replace("undo", g.VENDORS[vendor]["neg"])),
                             old=old, new=new, acl=ACLS_R1[k % len(ACLS_R1)]))
    rnd = g.rng(seed, "c20cisco")
    for k in range(n * 2):
        for vendor, model in (("cisco", "Cisco"), ("nexus", "Cisco Nexus")):
            old, new = _cisco_pair(rnd)
            jobs.append(dict(src="R_CISCO", model=model, rb=dict(vendor=vendor, rul=R_CISCO, order=""), old=old, new=new,
                             acl=(None if k % 3 else "interface *\n    ~ %global\nip ~\n")))
    rnd = g.rng(seed, "c20huawei")
    for k in range(n * 2):
        for vendor, model in (("huawei", "Huawei"), ("huawei", "Huawei CE6870"), ("h3c", "H3C")):
            old, new = _huawei_pair(rnd)
            jobs.append(dict(src="R_HUAWEI", model=model, rb=dict(vendor=vendor, rul=R_HUAWEI, order="bgp\n    peer * as-number\n    undo peer * %order_reverse\ninterface\n"),
                             old=old, new=new, acl=(None if k % 3 else "bgp *\n    ~ %global\n")))
    # ACLs with overlapping blocks: a row matched by two or three blocks that contain same-named child rules with different
    # list-valued parameters (%cant_delete, %generator_names).  _select_match merges the children of all matching compiled
    # (cached, shared) rules; a job whose rows match several blocks runs as `prelude` right before a job whose rows match one.
    rnd = g.rng(seed, "c20aclov")
    ifaces = ["100GE1/0/1", "100GE1/0/2", "10GE1/0/3"]
    for k in range(16 if quick else 160):
        def cfg(names, full):
            rows = []
            for i in names:
                ch = []
                if full or rnd.random() < 0.5:
                    ch.append(["mtu %s" % rnd.choice(["1500", "9000"]), []])
                if full or rnd.random() < 0.5:
                    ch.append(["description %s" % rnd.choice(["u", "v"]), []])
                rows.append(["interface " + i, ch])
            return rows
        acl = ACLS_OVERLAP[k % len(ACLS_OVERLAP)]
        for vendor, model, rul in (("huawei", "Huawei", R_HUAWEI), ("cisco", "Cisco", R_CISCO), ("h3c", "H3C", R_HUAWEI)):
            rb = dict(vendor=vendor, rul=rul, order="")
            # A: the interface every block matches loses its rows;  B: an interface only the generic block matches does
            a_job = dict(src="ACL_OVERLAP_A", model=model, rb=rb, old=cfg(ifaces[:1], True) + cfg(ifaces[1:], False),
                         new=[["interface " + ifaces[0], []]], acl=acl)
            b_names = [rnd.choice(ifaces[1:])]
            b_job = dict(src="ACL_OVERLAP_B", model=model, rb=rb, old=cfg(b_names, True), new=[["interface " + b_names[0], []]], acl=acl,
                         prelude=[a_job])
            jobs.append(a_job)
            jobs.append(b_job)
            jobs.append(dict(src="ACL_OVERLAP_R", model=model, rb=rb, old=cfg(ifaces, False), new=cfg(ifaces, False), acl=acl))
    # jobs whose generators registered references (non-empty RefTracker): Orderer.ref_insert puts their ordering rules in
    # front of the vendor's; the next job of the same hardware must not see them.  REF_A (with refs) runs as prelude right
    # before REF_B (same hardware, no refs, a patch with rows the inserted rules would match); both are also ordinary jobs.
    rnd = g.rng(seed, "c20refs")
    hua_rows = [["ip ip-prefix P index 10 permit 10.0.0.0 8", []], ["acl number 2001", [["rule 5 permit", []]]],
                ["route-policy RP permit node 10", [["if-match ip-prefix P", []]]],
                ["interface GE1", [["traffic-filter inbound acl 2001", []], ["description x", []]]],
                ["ip community-filter basic CF permit 1:1", []], ["bfd", []], ["vlan batch 10 20", []]]
    hua_refs = [
        [["interface *\n    traffic-filter ~\n", "acl number *\n"]],
        [["route-policy ~\n", "ip ip-prefix ~\n"], ["interface *\n", "acl ~\n"]],
        [[[["route-policy RP permit node 10", []]], [["ip community-filter basic CF permit 1:1", []]]], ["bfd\n", "vlan batch\n"]],
    ]
    cis_rows = [["ip access-list extended A1", [["permit ip any any", []]]], ["route-map RM permit 10", [["match ip address A1", []]]],
                ["interface e1", [["ip access-group A1 in", []], ["description x", []]]], ["ip prefix-list PL seq 5 permit 10.0.0.0/8", []],
                ["vlan 10", []]]
    cis_refs = [[["interface *\n", "ip access-list ~\n"]], [["route-map ~\n", "ip prefix-list ~\n"], ["vlan *\n", "interface *\n"]]]
    r1_refs = [[["blk *\n    sub *\n", "d *\n"]], [["a *\n", "c\n"], ["m *\n", "blk *\n"]]]

    def subset(rows, p):
        out = [[r, [list(c) for c in ch]] for r, ch in rows if rnd.random() < p]
        rnd.shuffle(out)
        return out

    for k in range(6 if quick else 60):
        for model, rows, refsets in (("Huawei", hua_rows, hua_refs), ("Huawei CE6870", hua_rows, hua_refs), ("Cisco", cis_rows, cis_refs),
                                     ("Arista", cis_rows, cis_refs)):
            a_job = dict(src="REF_A", model=model, rb="shipped", old=subset(rows, 0.3), new=subset(rows, 0.8), acl=None,
                         refs=refsets[k % len(refsets)])
            b_job = dict(src="REF_B", model=model, rb="shipped", old=subset(rows, 0.2), new=subset(rows, 0.9), acl=None, prelude=[a_job])
            jobs += [a_job, b_job]
        for vendor, model in (("huawei", "Huawei"), ("cisco", "Cisco")):
            rb = dict(vendor=vendor, rul=R_MUT, order=ORDER_SMALL.replace("undo", g.VENDORS[vendor]["neg"]))
            o1, n1 = _mut_pair(rnd)
            o2, n2 = _mut_pair(rnd)
            a_job = dict(src="REF_A", model=model, rb=rb, old=o1, new=n1, acl=None, refs=r1_refs[k % len(r1_refs)])
            jobs += [a_job, dict(src="REF_B", model=model, rb=rb, old=o2, new=n2, acl=None, prelude=[a_job])]
    # rows whose shipped rules depend on the hardware model (mako branches of huawei.rul): the per-hardware rulebook cache
    rnd = g.rng(seed, "c20hwsens")
    for k in range(3 if quick else 30):
        def cfg(v):
            rows = []
            if rnd.random() < 0.8:
                rows.append(["interface GE1", [["trust %s" % rnd.choice(["8021p", "dscp"]), []]]])
            if rnd.random() < 0.8:
                rows.append(["snmp-agent protocol source-interface Vlanif%d" % rnd.randint(1, 2), []])
            if rnd.random() < 0.8:
                rows.append(["ssh server-source -i Vlanif%d" % rnd.randint(1, 2), []])
            return rows
        old, new = cfg(1), cfg(2)
        for model in ("Huawei", "Huawei CE6870", "Huawei NE40E", "Huawei S5700"):
            jobs.append(dict(src="HW_SENS", model=model, rb="shipped", old=old, new=new, acl=None))
    return jobs


# ---------------------------------------------------------------------------------------------------------------------
def _ser_diff(diff):
    out = []
    for (op, row, children, match) in diff:
        m = None
        if match is not None:
            m = [match.get("raw_rule"), list(match.get("key") or []) if not isinstance(match.get("key"), str) else match.get("key")]
        out.append([str(op), row, _ser_diff(children), m])
    return out


def _objects(job):
    """(hw, rb, old, new, acl, vendor) of a job; compiled objects come from annet's caches (shared between jobs)"""
    from annet import rulebook
    from annet.annlib.rbparser.acl import compile_acl_text
    install_synth_logic()
    hw = g.hw_of(job["model"])
    if job["rb"] == "shipped":
        rb = rulebook.get_rulebook(hw)
    else:
        rb = g.compile_rb(job["rb"]["vendor"], job["rb"]["rul"], job["rb"]["order"])
    acl = compile_acl_text(job["acl"], hw.vendor) if job["acl"] else None
    return hw, rb, g.to_tree(job["old"]), g.to_tree(job["new"]), acl


def make_tracker(refs):
    """a RefTracker as the generators leave it: one (referencing class, defining class) edge per pair, each class with
    the ordering-rule text (or config dict) it registered"""
    from annet.reference import RefTracker
    t = RefTracker()
    for i, (ref_cfg, def_cfg) in enumerate(refs or []):
        rcls, dcls = type("Ref%d" % i, (), {}), type("Def%d" % i, (), {})
        t.add(rcls, dcls)
        t.config(rcls, g.to_tree(ref_cfg) if isinstance(ref_cfg, list) else ref_cfg)
        t.config(dcls, g.to_tree(def_cfg) if isinstance(def_cfg, list) else def_cfg)
    return t


def compute(job, objs=None):
    """the production path of one device: (diff, patch command paths, ordered config); json-able.
    job["refs"] (optional): the (reference, definition) ordering texts the device's generators registered; they reach the
    Orderer through RefTracker -> api.patch_from_pre -> Orderer.ref_insert exactly as in `annet patch/deploy`."""
    from annet import api
    from annet import patching as top_patching
    from annet.annlib import patching
    from annet.vendors import registry_connector
    hw, rb, old, new, acl = objs or _objects(job)
    try:
        device = types.SimpleNamespace(hw=hw, hostname="h", fqdn="h.example")
        diff, pt = api._diff_and_patch(device, old, new, acl, None, False, ref_track=make_tracker(job.get("refs")), rb=rb)
        fmt = registry_connector.get().match(hw).make_formatter(indent="")
        paths = [list(p) for p in fmt.cmd_paths(pt).keys()]
        shown = registry_connector.get().match(hw).make_formatter().patch(pt)
        orderer = top_patching.Orderer.from_hw(hw) if job["rb"] == "shipped" else patching.Orderer(rb["ordering"], hw.vendor)
        orderer.ref_insert(make_tracker(job.get("refs")))
        ordered = g.to_nested(orderer.order_config(new))
        return dict(diff=_ser_diff(diff), patch=paths, shown=shown, ordered=ordered)
    except Exception as e:      # must be the same in every history, too
        return dict(error="%s: %s" % (type(e).__name__, e))


# ---------------------------------------------------------------------------------------------------------------------
# structural canonical form
def canon(x, _depth=0):
    if isinstance(x, (str, int, float, bool)) or x is None:
        return x
    if isinstance(x, dict):
        return ("dict", [(canon(k), canon(v, _depth + 1)) for k, v in x.items()])
    if isinstance(x, (list, tuple)):
        return (type(x).__name__ if type(x) in (list, tuple) else "tuple:" + type(x).__name__, [canon(v, _depth + 1) for v in x])
    if isinstance(x, (set, frozenset)):
        return ("set", sorted(repr(canon(v)) for v in x))
    if isinstance(x, re.Pattern):
        return ("re", x.pattern, x.flags)
    if isinstance(x, (types.FunctionType, types.BuiltinFunctionType, types.MethodType)):
        return ("fn", getattr(x, "__module__", None), getattr(x, "__qualname__", repr(x)))
    if hasattr(x, "__dict__"):
        return ("obj", type(x).__module__ + "." + type(x).__qualname__, canon(vars(x), _depth + 1))
    return ("repr", repr(x))


def first_difference(a, b, path="$"):
    if type(a) != type(b):
        return path, a, b
    if isinstance(a, tuple) and len(a) == 2 and isinstance(a[1], list) and isinstance(b[1], list) and a[0] == b[0]:
        if a[0] == "dict":
            for i, (x, y) in enumerate(zip(a[1], b[1])):
                if x[0] != y[0]:
                    return path + "{keys}", [k for k, _ in a[1]][:8], [k for k, _ in b[1]][:8]
                if x[1] != y[1]:
                    return first_difference(x[1], y[1], "%s[%r]" % (path, x[0]))
            if len(a[1]) != len(b[1]):
                return path + "{keys}", [k for k, _ in a[1]][:12], [k for k, _ in b[1]][:12]
        else:
            for i, (x, y) in enumerate(zip(a[1], b[1])):
                if x != y:
                    return first_difference(x, y, "%s[%d]" % (path, i))
            if len(a[1]) != len(b[1]):
                return path + "{len}", len(a[1]), len(b[1])
    elif isinstance(a, (tuple, list)) and len(a) == len(b):
        for i, (x, y) in enumerate(zip(a, b)):
            if x != y:
                return first_difference(x, y, "%s<%d>" % (path, i))
    if a != b:
        return path, a, b
    return None


# ---------------------------------------------------------------------------------------------------------------------
def acl_canon(rules):
    """list-valued and scalar attrs of every compiled ACL rule, the scratch field `match` excepted"""
    if rules is None:
        return None
    out = []
    for scope in ("local", "global"):
        for raw, rule in rules[scope].items():
            attrs = {k: v for k, v in rule["attrs"].items() if k != "match"}
            out.append((scope, raw, rule["type"], canon(attrs), acl_canon(rule["children"]) if rule.get("children") else None))
    return ("list", out)


def bump_expectation(job, result):
    """rule `m * %logic=zzsynth.bump`: every removal of an m row is '<neg> m <key> !' (exactly one ' !')"""
    if job["src"] != "R_MUT" or "error" in result:
        return None
    neg = g.VENDORS[job["rb"]["vendor"]]["neg"]
    for p in result["patch"]:
        if len(p) == 1 and p[0].startswith(neg + " m "):
            want = "%s m %s !" % (neg, p[0].split()[2])
            if p[0] != want:
                return want, p[0]
    return None


def in_process_checks(job):
    """one in-sequence computation with all the snapshot / repetition checks; -> (result, fails)"""
    from annet.annlib import patching
    fails = []
    objs = _objects(job)
    hw, rb, old, new, acl = objs
    snaps = [copy.deepcopy(old), copy.deepcopy(new), copy.deepcopy(rb)]
    acl_before = acl_canon(copy.deepcopy(acl))
    res = compute(job, objs)
    acl_after = acl_canon(acl)
    if acl_before != acl_after:
        where, x, y = first_difference(acl_before, acl_after)
        fails.append(("bounded:C20:acl-rule-attrs-modified", "an attribute (other than the scratch `match`) of a compiled, shared ACL rule "
                      "differs from its deep snapshot after the computation at %s" % where, _short(x), _short(y)))
    for name, snap, obj in zip(("old", "new", "rulebook"), snaps, (old, new, rb)):
        a, b = canon(snap), canon(obj)
        if a != b:
            where, x, y = first_difference(a, b)
            fails.append(("bounded:C20:%s-modified" % name, "the %s differs from its deep snapshot after the computation at %s" % (name, where),
                          _short(x), _short(y)))
    res2 = compute(job, objs)           # same shared compiled rulebook and ACL objects
    if res2 != res:
        k = next(k for k in ("error", "diff", "patch", "shown", "ordered") if res.get(k) != res2.get(k))
        fails.append(("bounded:C20:repeat-differs:" + k, "repeating the computation with the same objects gives another %s" % k,
                      _short(res.get(k)), _short(res2.get(k))))
    be = bump_expectation(job, res)
    if be:
        fails.append(("bounded:C20:logic-mutation-leaks-between-keys", "a logic function's change of its rule argument is visible when the "
                      "next key of the same rule is processed", be[0], be[1]))
    if "error" not in res:
        # the Diff shown to the user must survive make_pre / make_patch (`pre` itself is scratch: logic functions may consume it)
        o2, n2 = (patching.apply_acl(old, acl), patching.apply_acl(new, acl)) if acl is not None else (old, new)
        diff = patching.make_diff(o2, n2, rb, [acl, None])
        snap = copy.deepcopy(diff)
        pre = patching.make_pre(diff)
        patching.make_patch(pre=pre, rb=rb, hw=hw, add_comments=True)
        a, b = canon(snap), canon(diff)
        if a != b:
            where, x, y = first_difference(a, b)
            fails.append(("bounded:C20:diff-modified-by-make_patch", "the Diff differs from its deep snapshot after make_pre + make_patch at %s" % where,
                          _short(x), _short(y)))
    return res, fails


def _short(x, n=1500):
    s = json.dumps(x, default=str)
    return x if len(s) <= n else s[:n] + "...(%d chars)" % len(s)


# ---------------------------------------------------------------------------------------------------------------------
# fresh processes
def _zygote_child(job):
    return compute(job)


def zygote_main():
    """runs in a freshly exec'ed interpreter: import, compute NOTHING, fork one child per job"""
    import multiprocessing as mp
    import annet.api  # noqa: F401
    jobs = json.loads(sys.stdin.read())
    with mp.get_context("fork").Pool(processes=int(os.environ.get("C20_FORKS", "3")), maxtasksperchild=1) as pool:
        results = list(pool.imap(_zygote_child, jobs, chunksize=1))
    sys.stdout.write(json.dumps(results))
    sys.stdout.flush()


def fresh_results(jobs, per_job_exec=False):
    env = dict(os.environ)
    env["PYTHONPATH"] = os.pathsep.join(p for p in sys.path if p)
    if per_job_exec:
        out = []
        procs = []
        for j in jobs:
            e = dict(env)
            e["C20_FORKS"] = "1"
            p = subprocess.Popen([sys.executable, "-m", "bounded.c20", "--zygote"], stdin=subprocess.PIPE, stdout=subprocess.PIPE,
                                 stderr=subprocess.PIPE, env=e, cwd=os.path.dirname(os.path.dirname(os.path.abspath(__file__))))
            p.stdin.write(json.dumps([j]).encode())
            p.stdin.close()
            procs.append(p)
            if len(procs) >= 3:
                out.append(_collect(procs.pop(0))[0])
        for p in procs:
            out.append(_collect(p)[0])
        return out
    p = subprocess.Popen([sys.executable, "-m", "bounded.c20", "--zygote"], stdin=subprocess.PIPE, stdout=subprocess.PIPE,
                         stderr=subprocess.PIPE, env=env, cwd=os.path.dirname(os.path.dirname(os.path.abspath(__file__))))
    p.stdin.write(json.dumps(jobs).encode())
    p.stdin.close()
    return _collect(p)


def _collect(p):
    out = p.stdout.read()
    err = p.stderr.read()
    rc = p.wait()
    if rc != 0:
        raise RuntimeError("fresh interpreter failed (%d): %s" % (rc, err.decode()[-2000:]))
    return json.loads(out.decode())


# ---------------------------------------------------------------------------------------------------------------------
def run(tier="quick", seed=0, part=0, nparts=1):
    jobs = [j for i, j in enumerate(all_jobs(tier, seed)) if i % nparts == part]
    rnd = g.rng(seed, "c20seq", part, nparts)
    seq = list(range(len(jobs))) + list(range(len(jobs)))        # every job twice
    rnd.shuffle(seq)
    ev = 0
    nontrivial = set()
    failures = []
    per_key = {}
    samples = []

    def add(key, text, case, exp, act):
        if per_key.get(key, 0) < 3:
            per_key[key] = per_key.get(key, 0) + 1
            failures.append(dict(key=key, text=text, case=case, expected=exp, actual=act))

    seq_results = []
    for pos, k in enumerate(seq):
        for pj in jobs[k].get("prelude", []):      # history only; the fresh process computes the job alone
            compute(pj)
        res, fails = in_process_checks(jobs[k])
        seq_results.append(res)
        for (key, text, exp, act) in fails:
            add(key, text, dict(job=jobs[k], history=[_brief(jobs[x]) for x in seq[:pos]][-6:]), exp, act)
    fresh = fresh_results(jobs)
    n_exec = min(len(jobs), 2 if tier == "quick" else 12)
    exec_idx = rnd.sample(range(len(jobs)), n_exec)
    fresh_exec = dict(zip(exec_idx, fresh_results([jobs[k] for k in exec_idx], per_job_exec=True)))
    for pos, k in enumerate(seq):
        ev += 1
        res = seq_results[pos]
        for how, fr in (("forked from a fresh interpreter", fresh[k]), ("a freshly exec'ed interpreter", fresh_exec.get(k))):
            if fr is None:
                continue
            got = json.loads(json.dumps(res))
            if got != fr:
                what = next(x for x in ("error", "diff", "patch", "shown", "ordered") if got.get(x) != fr.get(x))
                key = "bounded:C20:history-dependent-" + what
                if per_key.get(key, 0) < 3:
                    add(key, "%s computed after %d other jobs differs from the result in %s" % (what, pos, how),
                        dict(job=jobs[k], history=[_brief(jobs[x]) for x in seq[:pos]][-6:], position=pos,
                             sequence=_shrink([jobs[x] for x in seq[:pos]], jobs[k], fr)), _short(fr.get(what)), _short(got.get(what)))
        if pos > 0 and "error" not in res and res["patch"]:
            nontrivial.add(h(jobs[k]))
    if part == 0:
        samples = [dict(job=jobs[seq[1]], position=1)] if len(seq) > 1 else []
    return dict(evaluations=ev, nontrivial=sorted(nontrivial), failures=failures, samples=samples,
                rule="jobs = the 192 shipped corpus samples (shipped rulebooks, 40% with an ACL built from their top-level rows) + seeded "
                     "synthetic jobs: one rulebook text with mutating logics (zzsynth.bump / zzsynth.flip, common.default_instead_undo, "
                     "undo_redo; rows unknown to the rulebook) on 6 hardware models of 5 vendors x 4 ACLs, a cisco text (cisco.misc.ssh_key, "
                     "no_ipv6_nd_suppress_ra, default_instead_undo) on cisco/nexus, a huawei text (huawei.bgp.undo_commit, huawei.bgp.peer, "
                     "huawei.misc.undo_redo) on 3 models; ACLs with 2-3 overlapping blocks (same-named children, different %cant_delete / "
                     "%generator_names) on huawei/cisco/h3c with a several-blocks-match job run right before a one-block-matches job; "
                     "jobs with a non-empty RefTracker (Orderer.ref_insert through api.patch_from_pre and Orderer.from_hw) on huawei/cisco/arista "
                     "and on the synthetic text, each run right before a reference-free job of the same hardware; each part runs its jobs twice in one seeded shuffled in-process sequence; "
                     "evaluation = one in-sequence result compared with the fresh-process result (zygote fork per job; "
                     "+ exec'ed interpreter per job for a sample); non-trivial = non-empty patch computed with a non-empty history; "
                     "distinct by job hash",
                bound="%d jobs per part, sequence length %d, configs <= 3 levels" % (len(jobs), len(seq)))


def run_sequence_fresh(seq_jobs):
    """a freshly exec'ed interpreter computes the jobs one after the other (preludes included); -> result of the last"""
    env = dict(os.environ)
    env["PYTHONPATH"] = os.pathsep.join(p for p in sys.path if p)
    p = subprocess.Popen([sys.executable, "-m", "bounded.c20", "--sequence"], stdin=subprocess.PIPE, stdout=subprocess.PIPE,
                         stderr=subprocess.PIPE, env=env, cwd=os.path.dirname(os.path.dirname(os.path.abspath(__file__))))
    p.stdin.write(json.dumps(seq_jobs).encode())
    p.stdin.close()
    return _collect(p)


def sequence_main():
    import annet.api  # noqa: F401
    res = None
    for job in json.loads(sys.stdin.read()):
        for pj in job.get("prelude", []):
            compute(pj)
        res = compute(job)
    sys.stdout.write(json.dumps(res))
    sys.stdout.flush()


def _shrink(history, job, fresh):
    """the recorded case carries the whole job sequence (history + the job); a shorter history is recorded instead when a
    fresh interpreter confirms that it still gives a result different from the fresh-process one"""
    same_hw = [j for j in history if j["model"] == job["model"]]
    for cand in ([j for j in same_hw if j.get("refs") or j.get("prelude")][-4:], same_hw[-8:], same_hw):
        if len(cand) < len(history):
            try:
                if run_sequence_fresh(cand + [job]) != fresh:
                    return cand + [job]
            except Exception:
                pass
    return history + [job]


def _brief(job):
    return "%s/%s/%s" % (job["src"], job["model"], h(job))


def replay(case):
    """a recorded history-dependent failure carries the whole job sequence (the job last): a freshly exec'ed interpreter runs
    the sequence and another one the job alone; other cases: the job (after its prelude) is run in this process with the
    snapshot checks and once fresh"""
    job = case["job"]
    if isinstance(case.get("sequence"), list):
        got = run_sequence_fresh(case["sequence"])
        fr = fresh_results([job], per_job_exec=True)[0]
        return dict(ok=(got == fr), expected=_short(fr), actual=_short(got))
    for pj in job.get("prelude", []):
        compute(pj)
    res, fails = in_process_checks(job)
    fr = fresh_results([job], per_job_exec=True)[0]
    got = json.loads(json.dumps(res))
    if fails:
        return dict(ok=False, key=fails[0][0], expected=fails[0][2], actual=fails[0][3])
    return dict(ok=(got == fr), expected=_short(fr), actual=_short(got))


if __name__ == "__main__":
    if "--zygote" in sys.argv:
        zygote_main()
    elif "--sequence" in sys.argv:
        sequence_main()
