import importlib
import multiprocessing as mp
import sys
import time


def _t(a):
    mod, tier, seed, part, n = a
    m = importlib.import_module("bounded." + mod)
    return m.run(tier=tier, seed=seed, part=part, nparts=n)


if __name__ == "__main__":
    mod = sys.argv[1]
    tier = sys.argv[2] if len(sys.argv) > 2 else "quick"
    t = time.time()
    with mp.get_context("fork").Pool(16) as pool:
        rs = pool.map(_t, [(mod, tier, 0, i, 16) for i in range(16)])
    ev = sum(r["evaluations"] for r in rs)
    nt = set()
    fails = []
    for r in rs:
        nt.update(r["nontrivial"])
        fails.extend(r["failures"])
    print("evaluations", ev, "distinct_nontrivial", len(nt), "failures", len(fails), "wall %.1fs" % (time.time() - t))
    print("rule:", rs[0]["rule"])
    seen = set()
    for f in fails:
        if f["key"] in seen:
            continue
        seen.add(f["key"])
        print("FAIL", f["key"], "|", f["text"])
        print("   case:", str(f.get("case"))[:600])
        print("   expected:", str(f.get("expected"))[:400])
        print("   actual:  ", str(f.get("actual"))[:400])
    for s in rs[0]["samples"][:2]:
        print("sample:", str(s)[:300])
