"""C15 bounded layer: mesh sessions are mirrored on both ends; handler data merges without loss.

Three families of cases, all run through the REAL annet code:

* kind="exec": a small topology (devices, parallel links), a registry of <= 3 device/direct/indirect/virtual rules and
  handlers given as DATA (a spec that says which values a handler assigns as a pure function of (left, right, port
  set)).  The real `MeshExecutor(registry, storage).execute_for(device)` is run for every device and for every
  permutation of the rule registration order and compared with
    - a reference written from the property statement (`expect_device`): the rule instances that join a device with
      another one are found with an own template/filter matcher, every handler is evaluated on (left, right, ports),
      the data of the handlers that talk about the same session (same two devices, same peer address, same vrf) is
      combined field by field (two different values for a single-valued field -> conflict error, address families are
      united), and the peer a device must end up with is read off: addr/remote_as/families/vrf/group from what was
      assigned to the OTHER side, local_as/options/policies/interface from what was assigned to its OWN side;
    - the mirror relation between the two real results (peer_A(B).addr is an address B put on the interface of
      peer_B(A), remote_as == the other end's local_as, session-level options and families equal);
    - each other (registration order must not matter).
* kind="merge": `annet.mesh.basemodel.merge` on seeded random instances of the shipped models and of a local model that
  uses every merger, against a reference merge written from the merge laws; associativity, order independence
  (Concat as multisets), inputs unchanged, NOT_SET handling.
"""
import dataclasses
import itertools
import json
import random
import re
import types
import typing
from ipaddress import ip_interface
from typing import Annotated, Optional, Union

from bounded.common import setup_annet, h as _hash

setup_annet()

from annet.mesh import (  # noqa: E402
    MeshExecutor, MeshRulesRegistry, Left, Right, Match, separate_ports, united_ports,
)
from annet.mesh import basemodel as bm  # noqa: E402
from annet.mesh.basemodel import (  # noqa: E402
    BaseMeshModel, Concat, DictMerge, Forbid, ForbidChange, Merge, MergeForbiddenError, Special, Unite, UseFirst,
    UseLast,
)
from annet.bgp_models import BFDTimers, PeerOptions, Redistribute  # noqa: E402

K = "bounded:C15:"
DOMAIN = ".dc"

# ---------------------------------------------------------------------------------------------------------------------
# fake inventory (own implementation of the annet.storage Device/Storage protocols)
# ---------------------------------------------------------------------------------------------------------------------


class FIface:
    def __init__(self, name, neighbor_fqdn=None, neighbor_port=None):
        self._name = name
        self.addrs = []
        self.neighbor_fqdn = neighbor_fqdn
        self.neighbor_port = neighbor_port

    @property
    def name(self):
        return self._name

    def add_addr(self, address_mask, vrf):
        self.addrs.append((address_mask, vrf))


class FDevice:
    def __init__(self, short):
        self._short = short
        self.interfaces = []
        self.lag_members = {}
        self.storage = None

    id = property(lambda self: self._short + DOMAIN)
    fqdn = property(lambda self: self._short + DOMAIN)
    hostname = property(lambda self: self._short)
    hw = property(lambda self: None)
    breed = property(lambda self: None)

    def __hash__(self):
        return hash(self._short)

    def is_pc(self):
        return False

    @property
    def neighbours_fqdns(self):
        res = []
        for i in self.interfaces:
            if i.neighbor_fqdn and i.neighbor_fqdn not in res:
                res.append(i.neighbor_fqdn)
        return res

    neighbours_ids = neighbours_fqdns

    def _get(self, name):
        found = self.find_interface(name)
        if found is None:
            found = FIface(name)
            self.interfaces.append(found)
        return found

    def make_lag(self, lag, ports, lag_min_links):
        name = "ae%d" % lag
        self.lag_members.setdefault(name, []).append(sorted(ports))
        return self._get(name)

    def add_svi(self, svi):
        return self._get("vlan%d" % svi)

    def add_subif(self, interface, subif):
        return self._get("%s.%d" % (interface, subif))

    def find_interface(self, name):
        for i in self.interfaces:
            if i.name == name:
                return i
        return None


class FStorage:
    def __init__(self):
        self.devices = []

    def resolve_all_fdnds(self):
        return [d.fqdn for d in self.devices]

    def make_devices(self, query, *args, **kwargs):
        return [d for d in self.devices if d.fqdn in query]

    def search_connections(self, device, neighbor):
        res = []
        for lp in device.interfaces:
            if lp.neighbor_fqdn == neighbor.fqdn:
                for rp in neighbor.interfaces:
                    if rp.name == lp.neighbor_port:
                        res.append((lp, rp))
        return res


def link_ports(case, i, j):
    """port pairs (port on i, port on j) of the links between devices i and j, in the order of i's ports"""
    for a, b, m, crossed in case["links"]:
        if (a, b) == (i, j):
            return [("e%d_%d" % (b, k), "e%d_%d" % (a, (m - 1 - k) if crossed else k)) for k in range(m)]
        if (a, b) == (j, i):
            pairs = [("e%d_%d" % (a, (m - 1 - k) if crossed else k), "e%d_%d" % (b, k)) for k in range(m)]
            return sorted(pairs)
    return []


def build_storage(case):
    st = FStorage()
    names = case["names"]
    devs = [FDevice(n) for n in names]
    for i, d in enumerate(devs):
        d.interfaces.append(FIface("lo0"))
        for j in range(len(names)):
            if j == i:
                continue
            for lp, rp in link_ports(case, i, j):
                d.interfaces.append(FIface(lp, names[j] + DOMAIN, rp))
        d.storage = st
        st.devices.append(d)
    return st


# ---------------------------------------------------------------------------------------------------------------------
# rule / handler specs (DATA; the handler closure and the reference both evaluate `assign_*`)
# ---------------------------------------------------------------------------------------------------------------------

PAIR_FILTERS = {
    None: (None, lambda l, r: True),
    "n<": (lambda: Left.n < Right.n, lambda l, r: l["n"] < r["n"]),
    "n==": (lambda: Left.n == Right.n, lambda l, r: l["n"] == r["n"]),
    "n!=": (lambda: Left.n != Right.n, lambda l, r: l["n"] != r["n"]),
    "r!=": (lambda: Left.r != Right.r, lambda l, r: l["r"] != r["r"]),
    "ln1": (lambda: Left.n == 1, lambda l, r: l["n"] == 1),
    "rn_in": (lambda: Right.n.in_([1, 2]), lambda l, r: r["n"] in [1, 2]),
    "l_sp": (lambda: Left.r == "sp", lambda l, r: l["r"] == "sp"),
    "n<|r!=": (lambda: (Left.n < Right.n) | (Left.r != Right.r), lambda l, r: l["n"] < r["n"] or l["r"] != r["r"]),
    "n>=&r!=": (lambda: (Left.n >= Right.n) & (Left.r != Right.r), lambda l, r: l["n"] >= r["n"] and l["r"] != r["r"]),
    "cast<": (lambda: Left.n.cast_(int) < Right.n.cast_(int), lambda l, r: int(l["n"]) < int(r["n"])),
}
ONE_FILTERS = {
    None: (None, lambda a: True),
    "n==1": (lambda: Match.n == 1, lambda a: a["n"] == 1),
    "n>1": (lambda: Match.n > 1, lambda a: a["n"] > 1),
    "r_sp": (lambda: Match.r == "sp", lambda a: a["r"] == "sp"),
}


def tmpl(case, t):
    return t if case["short"] else t + DOMAIN


def ref_template_match(template, name):
    """own reading of a peer-name template: `{v}` is a decimal number (int), `{v:regex}` a string matching regex,
    everything else literal; the whole name must match.  -> dict or None"""
    pos = 0
    rx = ""
    kinds = {}
    for m in re.finditer(r"\{(\w+)(?::([^{}]*))?\}", template):
        rx += re.escape(template[pos:m.start()])
        if m.group(2) is None:
            rx += "(?P<%s>[0-9]+)" % m.group(1)
            kinds[m.group(1)] = int
        else:
            rx += "(?P<%s>%s)" % (m.group(1), m.group(2))
            kinds[m.group(1)] = str
        pos = m.end()
    rx += re.escape(template[pos:])
    mm = re.fullmatch(rx, name)
    if mm is None:
        return None
    return {k: kinds[k](v) for k, v in mm.groupdict().items()}


def ref_match_pair(case, rule, lname, rname):
    def host(n):
        return n if case["short"] else n + DOMAIN
    la = ref_template_match(tmpl(case, rule["left"]), host(lname))
    ra = ref_template_match(tmpl(case, rule["right"]), host(rname))
    if la is None or ra is None:
        return None
    try:
        ok = PAIR_FILTERS[rule["flt"]][1](la, ra)
    except (KeyError, TypeError, ValueError):
        ok = False
    return (la, ra) if ok else None


def ref_match_one(case, rule, name):
    a = ref_template_match(tmpl(case, rule["left"]), name if case["short"] else name + DOMAIN)
    if a is None:
        return None
    try:
        ok = ONE_FILTERS[rule["flt"]][1](a)
    except (KeyError, TypeError, ValueError):
        ok = False
    return a if ok else None


def name_n(name):
    return int(re.search(r"(\d+)$", name).group(1))


def port_no(p):
    return int(p.rsplit("_", 1)[1])


def assign_pair(kind, hs, li, ri, lname, rname, lports, rports, ln, rn):
    """the handler of a direct/indirect rule, as data: what it assigns to left, right and the session.
    A pure function of the two devices (index, name, matched number) and of the port SETS."""
    left, right, sess = {}, {}, {}
    k = hs["k"]
    lo, hi = min(li, ri), max(li, ri)
    plane = 10 * k
    if hs["addr"] == "port" and lports:
        plane += 1 + 3 * min(port_no(p) for p in lports) + min(port_no(p) for p in rports)
    net = "10.%d.%d." % (plane, 16 * lo + hi)
    if hs["addr"] == "dev":
        left["addr"] = net + "%d/24" % (11 + li)
        right["addr"] = net + "%d/24" % (11 + ri)
    else:
        left["addr"] = net + "1/24"
        right["addr"] = net + "2/24"
    asn = hs["asn"]
    if asn == "session":
        sess["asnum"] = 65000
    elif asn == "name":
        left["asnum"] = 64512 + (100 if lname.startswith("sp") else 0) + name_n(lname)
        right["asnum"] = 64512 + (100 if rname.startswith("sp") else 0) + name_n(rname)
    elif asn == "role":
        left["asnum"] = 65001
        right["asnum"] = 65002
    elif asn == "match":
        left["asnum"] = "64000.%d" % ln     # asdot notation
        right["asnum"] = "64000.%d" % rn
    if hs.get("fam"):
        sess["families"] = {"v4": {"ipv4_unicast"}, "v6": {"ipv6_unicast"}, "v46": {"ipv4_unicast", "ipv6_unicast"}}[hs["fam"]]
    for opt in hs.get("sess", ()):
        sess[opt] = {"bfd": True, "vrf": "v%d" % k, "group_name": "G%d" % k, "import_policy": "IMP", "export_policy": "EXP%d" % k,
                     "send_community": True, "add_path": False, "bmp_monitor": True}[opt]
    if hs.get("side") == "role":
        left["mtu"] = 1501
        right["mtu"] = 1502
        left["hold_time"] = 30
    elif hs.get("side") == "name":
        left["mtu"] = 1400 + name_n(lname)
        right["mtu"] = 1400 + name_n(rname)
        right["passive"] = True
    iface = hs.get("iface")
    sides = [left, right] if hs.get("iface_on", "both") == "both" else [left]
    for s in sides:
        if kind == "direct":
            if iface in ("lag", "lagsub"):
                # one LAG per neighbour and port set
                s["lag"] = 1 + k + 10 * sum(2 ** port_no(p) for p in (lports if s is left else rports)) + \
                    100 * (ri if s is left else li)
            if iface in ("subif", "lagsub"):
                s["subif"] = 100 + k
            if iface == "svi":
                s["svi"] = 200 + k
        else:
            if iface in ("lo", "losub"):
                s["ifname"] = "lo0"
            if iface == "losub":
                s["subif"] = 100 + k
            if iface == "svi":
                s["svi"] = 300 + k
    return left, right, sess


GLOBAL_SETTINGS = {
    # id: (path, merge kind, value(v, n))
    "local_as": (("local_as",), "single", lambda v, n: 65000 + v),
    "router_id": (("router_id",), "single", lambda v, n: "1.1.1.%d" % n),
    "loops": (("loops",), "single", lambda v, n: 1 + v),
    "rt_import": (("vrf", "v1", "rt_import"), "concat", lambda v, n: ("65000:%d" % v,)),
    "vrf_export": (("vrf", "v1", "export_policy"), "single", lambda v, n: "EXP%d" % v),
    "agg_routes": (("ipv4_unicast", "aggregate", "routes"), "concat", lambda v, n: ("10.%d.0.0/16" % v, "10.9.0.0/16")),
    "agg_policy": (("ipv4_unicast", "aggregate", "policy"), "single", lambda v, n: "AGG"),
    "grp_mtu": (("groups", "G", "mtu"), "single", lambda v, n: 1500 + v),
    "grp_fam": (("groups", "G", "families"), "unite", lambda v, n: {"ipv4_unicast"} if v == 0 else {"ipv6_unicast"}),
    "vrf_grp_as": (("vrf", "v1", "groups", "G2", "remote_as"), "single", lambda v, n: 65100 + v),
    "redistr": (("ipv6_unicast", "redistributes"), "concat", lambda v, n: (("static", "P%d" % v),)),
    "v6_loops": (("ipv6_unicast", "loops"), "single", lambda v, n: 2),
}


def assign_global(hs, name, n):
    """the handler of a device rule as data: {path: (kind, value)}"""
    return {GLOBAL_SETTINGS[s][0]: (GLOBAL_SETTINGS[s][1], GLOBAL_SETTINGS[s][2](hs["v"], n)) for s in hs["sets"]}


def assign_virtual(hs, di, num):
    local = {"svi": 400 + hs["v"], "addr": "10.%d.%d.254/24" % (200 + hs["v"], di)}
    virt = {"addr": "10.%d.%d.%d" % (200 + hs["v"], di, num)}
    sess = {}
    if hs["asn"] == "session":
        sess["asnum"] = 65010
    else:
        local["asnum"] = 65011
        virt["asnum"] = 65012 + num
    if hs.get("fam"):
        sess["families"] = {"ipv4_unicast"}
    if hs.get("mtu"):
        local["mtu"] = 1600
    if hs.get("listen"):
        local["listen_network"] = ["10.%d.%d.0/24" % (200 + hs["v"], di)]
    if hs.get("conflict"):
        # session data conflicting with the side data
        sess["asnum"] = 65010
        local["asnum"] = 65011
    return local, virt, sess


def _match_n(peer, fallback):
    n = getattr(peer.match, "n", None)
    return int(n) if n is not None else fallback


def build_registry(case, order):
    reg = MeshRulesRegistry(match_short_name=case["short"])
    idx = {n + DOMAIN: i for i, n in enumerate(case["names"])}
    for ri in order:
        rule = case["rules"][ri]
        kind = rule["kind"]
        if kind in ("direct", "indirect"):
            def handler(left, right, session, rule=rule, kind=kind):
                ln, rn = left.device.hostname, right.device.hostname
                lports = list(getattr(left, "ports", ()))
                rports = list(getattr(right, "ports", ()))
                lv, rv, sv = assign_pair(kind, rule["h"], idx[left.device.fqdn], idx[right.device.fqdn], ln, rn,
                                         lports, rports, _match_n(left, name_n(ln)), _match_n(right, name_n(rn)))
                for obj, vals in ((left, lv), (right, rv), (session, sv)):
                    for f, v in vals.items():
                        setattr(obj, f, v)
            flt = PAIR_FILTERS[rule["flt"]][0]
            exprs = [flt()] if flt else []
            if kind == "direct":
                pp = separate_ports if rule["pp"] == "separate" else united_ports
                reg.direct(tmpl(case, rule["left"]), tmpl(case, rule["right"]), *exprs, port_processor=pp)(handler)
            else:
                reg.indirect(tmpl(case, rule["left"]), tmpl(case, rule["right"]), *exprs)(handler)
        elif kind == "device":
            def ghandler(dev, rule=rule):
                name = dev.device.hostname
                for path, (mk, value) in assign_global(rule["h"], name, _match_n(dev, name_n(name))).items():
                    obj = dev
                    for step in path[:-1]:
                        obj = obj[step] if isinstance(obj, dict) else getattr(obj, step)
                    if path[-1] == "redistributes":
                        value = tuple(Redistribute(protocol=p, policy=q) for p, q in value)
                    setattr(obj, path[-1], value)
            flt = ONE_FILTERS[rule["flt"]][0]
            reg.device(tmpl(case, rule["left"]), *([flt()] if flt else []))(ghandler)
        else:
            def vhandler(local, virtual, session, rule=rule):
                lv, vv, sv = assign_virtual(rule["h"], idx[local.device.fqdn], virtual.num)
                for obj, vals in ((local, lv), (virtual, vv), (session, sv)):
                    for f, v in vals.items():
                        setattr(obj, f, v)
            flt = ONE_FILTERS[rule["flt"]][0]
            reg.virtual(tmpl(case, rule["left"]), rule["num"], *([flt()] if flt else []))(vhandler)
    return reg


# ---------------------------------------------------------------------------------------------------------------------
# the reference, written from the property statement
# ---------------------------------------------------------------------------------------------------------------------

class Conflict(Exception):
    pass


class Unspecified(Exception):
    """the handlers leave something open the API requires (no AS number): nothing is expected"""


SET_VALUED = {"families"}
OPTION_FIELDS = [f.name for f in dataclasses.fields(PeerOptions)]


def combine(dicts):
    """field by field; two different values for a single-valued field are a conflict; set-valued fields are united"""
    out = {}
    for d in dicts:
        for f, v in d.items():
            if f not in out:
                out[f] = set(v) if f in SET_VALUED else v
            elif f in SET_VALUED:
                out[f] = out[f] | set(v)
            elif out[f] != v:
                raise Conflict("%s: %r vs %r" % (f, out[f], v))
    return out


def _asn(v):
    if isinstance(v, str) and "." in v:
        hi, lo = v.split(".")
        return int(hi) * 65536 + int(lo)
    return int(v)


def expected_peer(local, remote, hostname, interface):
    if "asnum" not in local or "asnum" not in remote:
        raise Unspecified()
    opts = {f: None for f in OPTION_FIELDS}
    for f, v in local.items():
        if f == "asnum":
            opts["local_as"] = _asn(v)
        elif f in opts:
            opts[f] = v
    return dict(
        addr=str(ip_interface(remote["addr"]).ip),
        interface=interface,
        remote_as=_asn(remote["asnum"]),
        families=sorted(remote.get("families", ())),
        vrf_name=remote.get("vrf", ""),
        group_name=remote.get("group_name", ""),
        import_policy=local.get("import_policy", ""),
        export_policy=local.get("export_policy", ""),
        hostname=hostname,
        options=opts,
    )


def expect_pairs(case, di, kind):
    """sessions of device di under the rules of `kind` -> (peers, iface expectations)"""
    names = case["names"]
    sessions = {}
    for rule in case["rules"]:
        if rule["kind"] != kind:
            continue
        for ni in range(len(names)):
            if ni == di:
                continue
            links = link_ports(case, di, ni)
            if kind == "direct" and not links:
                continue
            for li, ri in ((di, ni), (ni, di)):
                m = ref_match_pair(case, rule, names[li], names[ri])
                if m is None:
                    continue
                if kind == "direct":
                    groups = [links] if rule["pp"] == "united" else [[x] for x in links]
                else:
                    groups = [[]]
                for g in groups:
                    dports = sorted(p for p, _ in g)
                    nports = sorted(p for _, p in g)
                    lports, rports = (dports, nports) if li == di else (nports, dports)
                    lv, rv, sv = assign_pair(kind, rule["h"], li, ri, names[li], names[ri], lports, rports,
                                             int(m[0].get("n", name_n(names[li]))), int(m[1].get("n", name_n(names[ri]))))
                    mine, other = (lv, rv) if li == di else (rv, lv)
                    # a session = the two devices, the address of the other end, the vrf
                    key = (ni, other["addr"], sv.get("vrf", ""))
                    sessions.setdefault(key, []).append((mine, other, sv, dports))
    for recs in sessions.values():
        # the API requires an AS number for both ends; if the handlers give none nothing is expected
        if not any("asnum" in r[0] or "asnum" in r[2] for r in recs) or not any("asnum" in r[1] or "asnum" in r[2] for r in recs):
            raise Unspecified()
    peers, ifaces = [], []
    for (ni, _, _), recs in sessions.items():
        mine = combine([x for r in recs for x in (r[0], r[2])])
        other = combine([x for r in recs for x in (r[1], r[2])])
        ports = combine([{"ports": r[3]} for r in recs])["ports"]
        lag, subif, svi = mine.get("lag"), mine.get("subif"), mine.get("svi")
        if (lag is not None and svi is not None) or (svi is not None and subif is not None):
            raise Conflict("lag/svi/subif combination")
        if kind == "direct":
            if len(ports) > 1 and lag is None and svi is None:
                raise Conflict("several links, no LAG or SVI: no interface to sit on")
            if lag is not None:
                iface = "ae%d" % lag
                ifaces.append(("lag", iface, ports))
                if subif is not None:
                    iface += ".%d" % subif
            elif subif is not None:
                iface = "%s.%d" % (ports[0], subif)
            elif svi is not None:
                iface = "vlan%d" % svi
            else:
                iface = ports[0]
        else:
            if lag is not None:
                raise Conflict("no LAG for indirect peers")
            ifname = mine.get("ifname")
            if subif is not None:
                iface = "%s.%d" % (ifname, subif)
            elif svi is not None:
                iface = "vlan%d" % svi
            else:
                iface = ifname
        if iface is not None:
            ifaces.append(("addr", iface, [mine["addr"], mine.get("vrf")]))
        peers.append(expected_peer(mine, other, names[ni], iface))
    return peers, ifaces


def expect_virtual(case, di):
    peers = []
    name = case["names"][di]
    for rule in case["rules"]:
        if rule["kind"] != "virtual" or ref_match_one(case, rule, name) is None:
            continue
        for num in rule["num"]:
            lv, vv, sv = assign_virtual(rule["h"], di, num)
            mine = combine([lv, sv])
            other = combine([vv, sv])
            peers.append(expected_peer(mine, other, "", "vlan%d" % mine["svi"]))
    return peers


def expect_globals(case, di):
    name = case["names"][di]
    out = {}
    for rule in case["rules"]:
        if rule["kind"] != "device":
            continue
        a = ref_match_one(case, rule, name)
        if a is None:
            continue
        for path, (mk, value) in assign_global(rule["h"], name, int(a.get("n", name_n(name)))).items():
            if path not in out:
                out[path] = (mk, value)
            elif mk == "single":
                if out[path][1] != value:
                    raise Conflict("%s: %r vs %r" % (path, out[path][1], value))
            elif mk == "concat":
                out[path] = (mk, tuple(out[path][1]) + tuple(value))
            else:
                out[path] = (mk, out[path][1] | value)
    res = {}
    for path, (mk, value) in out.items():
        if mk == "single":
            res["/".join(path)] = value
        else:
            res["/".join(path)] = sorted(list(x) if isinstance(x, tuple) else x for x in value)
    res["#vrfs"] = sorted({p[1] for p in out if p[0] == "vrf"})
    res["#groups"] = sorted({p[1] for p in out if p[0] == "groups"})
    return res


def _sorted_peers(peers):
    return sorted(peers, key=lambda p: json.dumps(p, sort_keys=True, default=str))


def expect_device(case, di):
    """-> "ValueError" | None (unspecified) | dict(peers, ifaces, globals)"""
    out, conflict, unspecified = [], False, False
    for fn in (lambda: expect_globals(case, di), lambda: expect_pairs(case, di, "direct"), lambda: (expect_virtual(case, di), []),
               lambda: expect_pairs(case, di, "indirect")):
        try:
            out.append(fn())
        except Conflict:
            conflict = True
        except Unspecified:
            unspecified = True
    if unspecified:
        return None
    if conflict:
        return "ValueError"
    g, (dp, dif), (vp, _), (ip_, iif) = out
    return dict(peers=_sorted_peers(dp + vp + ip_), ifaces=sorted(dif + iif, key=str), globals=g)


# ---------------------------------------------------------------------------------------------------------------------
# running the real executor
# ---------------------------------------------------------------------------------------------------------------------

def _norm(v):
    if isinstance(v, bool) or v is None:
        return v
    if isinstance(v, int):
        return int(v)
    if isinstance(v, (set, frozenset)):
        return sorted(v)
    if isinstance(v, tuple):
        return [_norm(x) for x in v]
    if dataclasses.is_dataclass(v):
        return {k: _norm(x) for k, x in dataclasses.asdict(v).items()}
    return v


def peer_dict(p):
    return dict(
        addr=p.addr, interface=p.interface, remote_as=int(p.remote_as), families=sorted(p.families),
        vrf_name=p.vrf_name, group_name=p.group_name, import_policy=p.import_policy, export_policy=p.export_policy,
        hostname=p.hostname, options={f: _norm(getattr(p.options, f)) for f in OPTION_FIELDS},
    )


def _get_path(obj, path):
    for step in path.split("/"):
        if isinstance(obj, dict):
            obj = obj[step]
        elif isinstance(obj, list):
            obj = next(x for x in obj if x.name == step)
        else:
            obj = getattr(obj, step)
    return obj


def actual_globals(go, expected):
    res = {}
    for path in expected:
        if path.startswith("#"):
            continue
        try:
            v = _get_path(go, path)
        except (KeyError, AttributeError, StopIteration) as e:
            res[path] = "<missing: %s>" % type(e).__name__
            continue
        if isinstance(v, (tuple, list, set, frozenset)):
            v = sorted([x.protocol, x.policy] if isinstance(x, Redistribute) else x for x in v)
        elif isinstance(v, int) and not isinstance(v, bool):
            v = int(v)
        res[path] = v
    res["#vrfs"] = sorted(go.vrf)
    res["#groups"] = sorted(g.name for g in go.groups)
    return res


def run_device(case, order, di, expected):
    """-> "ValueError" | "crash: ..." | dict(peers, ifaces(only those expected), globals, _dev)"""
    st = build_storage(case)
    dev = st.devices[di]
    try:
        cfg = MeshExecutor(build_registry(case, order), st).execute_for(dev)
    except ValueError:
        return "ValueError"
    except Exception as e:  # noqa
        return "crash: %s: %s" % (type(e).__name__, str(e)[:200])
    res = dict(peers=_sorted_peers([peer_dict(p) for p in cfg.peers]))
    ifs = []
    if isinstance(expected, dict):
        for what, name, val in expected["ifaces"]:
            if what == "lag":
                got = dev.lag_members.get(name)
                ifs.append((what, name, val if got and all(g == val for g in got) else got))
            else:
                itf = dev.find_interface(name)
                addrs = [list(a) for a in itf.addrs] if itf else None
                ifs.append((what, name, val if addrs and val in addrs else addrs))
        res["globals"] = actual_globals(cfg.global_options, expected["globals"])
    res["ifaces"] = sorted(ifs, key=str)
    res["_addrs"] = {i.name: [a for a, _ in i.addrs] for i in dev.interfaces if i.addrs}
    return res


SESSION_OPTS = ["bfd", "send_community", "add_path", "bmp_monitor", "multipath", "send_labeled", "advertise_irb", "bfd_timers"]


def mirror_problems(case, results):
    """the mirror relation between the real results of the two ends of every pair of devices"""
    problems = []
    names = case["names"]
    for a in range(len(names)):
        for b in range(len(names)):
            if a == b or not isinstance(results[a], dict) or not isinstance(results[b], dict):
                continue
            back = [q for q in results[b]["peers"] if q["hostname"] == names[a]]
            for p in results[a]["peers"]:
                if p["hostname"] != names[b] or p["interface"] is None:
                    continue
                mine = {str(ip_interface(x).ip) for x in results[a]["_addrs"].get(p["interface"], [])}
                cands = []
                for q in back:
                    theirs = {str(ip_interface(x).ip) for x in results[b]["_addrs"].get(q["interface"], [])}
                    if q["addr"] in mine and (q["interface"] is None or p["addr"] in theirs) and q["vrf_name"] == p["vrf_name"]:
                        cands.append(q)
                if not cands:
                    problems.append(dict(on=names[a], peer=p["addr"], to=names[b],
                                         problem="the other end has no peer pointing back at an address of %s" % p["interface"]))
                    continue
                ok = False
                for q in cands:
                    diffs = []
                    if p["remote_as"] != q["options"]["local_as"] or q["remote_as"] != p["options"]["local_as"]:
                        diffs.append("as")
                    if p["families"] != q["families"]:
                        diffs.append("families")
                    for f in ("group_name", "import_policy", "export_policy"):
                        if p[f] != q[f]:
                            diffs.append(f)
                    for f in SESSION_OPTS:
                        if p["options"][f] != q["options"][f]:
                            diffs.append(f)
                    if not diffs:
                        ok = True
                if not ok:
                    problems.append(dict(on=names[a], peer=p["addr"], to=names[b], problem="ends differ in " + ",".join(diffs)))
    return problems


def _strip(r):
    if isinstance(r, dict):
        return {k: v for k, v in r.items() if not k.startswith("_")}
    return r


def _multiset_norm(r):
    """for the comparison between registration orders: lists that are concatenations compared as multisets"""
    if not isinstance(r, dict):
        return r
    return _strip(r)     # peers carry no concatenated fields; the concatenated global options are sorted in actual_globals


def check_exec(case):
    """-> list of failures (key, text, expected, actual), nontrivial flag"""
    fails = []
    n = len(case["names"])
    nrules = len(case["rules"])
    expected = [expect_device(case, di) for di in range(n)]
    nontrivial = any(e == "ValueError" or (isinstance(e, dict) and (e["peers"] or len(e["globals"]) > 2)) for e in expected)
    orders = list(itertools.permutations(range(nrules)))
    first = None
    for order in orders:
        results = [run_device(case, order, di, expected[di]) for di in range(n)]
        for di in range(n):
            exp, got = expected[di], results[di]
            where = "device %s, registration order %s" % (case["names"][di], list(order))
            if isinstance(got, str) and got.startswith("crash"):
                if exp is not None:
                    fails.append((K + "execute_for-crash", where + ": an exception that is not ValueError", _strip(exp), got))
                continue
            if exp is None:
                continue
            if exp == "ValueError" and got != "ValueError":
                fails.append((K + "conflict-not-raised", where + ": conflicting handler data must raise ValueError", exp, _strip(got)))
            elif exp != "ValueError" and got == "ValueError":
                fails.append((K + "unexpected-ValueError", where + ": handler data does not conflict", _strip(exp), got))
            elif exp != "ValueError":
                if exp["peers"] != got["peers"]:
                    fails.append((K + "peer!=assigned", where + ": peers differ from what the handlers assigned to the two sides",
                                  exp["peers"], got["peers"]))
                if [list(x) for x in exp["ifaces"]] != [list(x) for x in got["ifaces"]]:
                    fails.append((K + "interface", where + ": LAG members / address on the selected interface", exp["ifaces"], got["ifaces"]))
                if exp["globals"] != got["globals"]:
                    fails.append((K + "globals!=assigned", where + ": global options differ from what the device handlers assigned",
                                  exp["globals"], got["globals"]))
        mp = mirror_problems(case, results)
        if mp:
            fails.append((K + "not-mirrored", "registration order %s: sessions are not mirrored" % list(order), [], mp[:3]))
        norm = [_multiset_norm(r) if expected[i] is not None else None for i, r in enumerate(results)]
        if first is None:
            first = norm
        elif norm != first:
            di = next(i for i in range(n) if norm[i] != first[i])
            fails.append((K + "registration-order", "device %s: result for order %s differs from order %s" % (
                case["names"][di], list(order), list(orders[0])), first[di], norm[di]))
    return fails, nontrivial


# ---------------------------------------------------------------------------------------------------------------------
# enumeration of exec cases
# ---------------------------------------------------------------------------------------------------------------------

def topologies(tier):
    res = []
    for names in (["sp1", "tr1"], ["tr1", "tr2"]):
        for m, x in ((0, False), (1, False), (2, False), (2, True), (3, False), (3, True)):
            res.append((names, [[0, 1, m, x]] if m else []))
    for names in (["sp1", "tr1", "tr2"], ["sp1", "sp2", "tr1"], ["tr1", "tr2", "tr3"]):
        res.append((names, [[0, 1, 1, False], [1, 2, 1, False]]))
        res.append((names, [[0, 1, 1, False], [0, 2, 2, True]]))
        res.append((names, [[0, 1, 2, False], [0, 2, 1, False], [1, 2, 1, False]]))
        res.append((names, [[0, 2, 3, True], [1, 2, 1, False]]))
    names = ["sp1", "sp2", "tr1", "tr2"]
    res.append((names, [[0, 2, 1, False], [0, 3, 1, False], [1, 2, 1, False], [1, 3, 1, False]]))
    res.append((names, [[0, 2, 2, True], [0, 3, 1, False], [1, 2, 1, False], [1, 3, 2, False]]))
    res.append((names, [[0, 1, 1, False], [1, 2, 1, False], [2, 3, 1, False], [0, 3, 1, False]]))
    res.append((names, [[i, j, 1, False] for i in range(4) for j in range(i + 1, 4)]))
    res.append((names, [[0, 2, 3, False], [1, 3, 2, False]]))
    res.append((["sp1", "tr1", "tr2", "tr3"], [[0, 1, 1, False], [0, 2, 2, False], [0, 3, 3, True]]))
    if tier == "thorough":
        names = ["sp1", "sp2", "tr1", "tr2", "tr3"]
        res.append((names, [[i, j, 1, False] for i in (0, 1) for j in (2, 3, 4)]))
        res.append((names, [[i, j, 2 if (i + j) % 2 else 1, bool(i)] for i in (0, 1) for j in (2, 3, 4)] + [[0, 1, 1, False]]))
        res.append((names, [[i, (i + 1) % 5, 1, False] if i < 4 else [0, 4, 1, False] for i in range(5)]))
        res.append((names, [[0, j, 1 + j % 3, j % 2 == 0] for j in (1, 2, 3, 4)]))
    return res


PAIR_TEMPLATES = [
    # (left, right, filters that make sense)
    ("sp{n}", "tr{n}", [None, "n==", "n<", "ln1", "rn_in"]),
    ("tr{n}", "sp{n}", [None, "n!="]),
    ("tr{n}", "tr{n}", [None, "n<", "n!="]),
    ("{r:[a-z]+}{n}", "{r:[a-z]+}{n}", [None, "n<", "r!=", "l_sp", "n<|r!=", "n>=&r!="]),
    ("{r:sp|tr}{n:\\d+}", "{r:[a-z]+}{n}", ["n<", "cast<", "r!=", None]),
    ("{r:sp|tr}{n:\\d+}", "{r:sp|tr}{n:[0-9]+}", ["n<", "cast<", "n=="]),
    ("{x:.*}", "tr{n:[12]}", [None, "rn_in"]),
    ("sp{n}", "{x:.*}", [None, "ln1"]),
    ("{x:.*}", "{y:.*}", [None, "n<"]),
]
ONE_TEMPLATES = [("{r:[a-z]+}{n}", [None, "n==1", "n>1", "r_sp"]), ("tr{n}", [None, "n>1"]), ("{x:.*}", [None, "n==1"]),
                 ("sp{n:\\d+}", [None, "n==1"])]

DIRECT_HANDLERS = [
    dict(addr="role", k=0, asn="session"),
    dict(addr="role", k=0, asn="name", fam="v4", side="role"),
    dict(addr="dev", k=0, asn="match", fam="v6", sess=["bfd", "group_name"], side="name"),
    dict(addr="port", k=0, asn="role", fam="v4", sess=["vrf"], iface="subif"),
    dict(addr="role", k=1, asn="name", sess=["import_policy", "send_community"], iface="lag"),
    dict(addr="dev", k=1, asn="session", fam="v46", iface="lagsub", side="role"),
    dict(addr="role", k=0, asn="match", iface="svi", iface_on="left", sess=["export_policy", "bmp_monitor"]),
    dict(addr="port", k=1, asn="name", fam="v6", iface="lag", iface_on="left", side="name"),
    dict(addr="dev", k=0, asn="role", sess=["vrf", "add_path"], iface="svi"),
]
INDIRECT_HANDLERS = [
    dict(addr="role", k=0, asn="session", iface="none"),
    dict(addr="dev", k=0, asn="name", fam="v4", iface="lo", side="role"),
    dict(addr="role", k=1, asn="match", fam="v6", sess=["bfd", "vrf"], iface="svi", side="name"),
    dict(addr="dev", k=1, asn="role", sess=["group_name", "import_policy"], iface="losub"),
    dict(addr="role", k=0, asn="name", iface="lo", iface_on="left", sess=["send_community"]),
]
GLOBAL_HANDLERS = [
    dict(v=0, sets=["local_as", "router_id"]),
    dict(v=0, sets=["rt_import", "vrf_export", "agg_routes", "grp_fam"]),
    dict(v=1, sets=["local_as", "rt_import", "agg_routes", "grp_fam", "grp_mtu"]),
    dict(v=1, sets=["redistr", "vrf_grp_as", "loops", "agg_policy"]),
    dict(v=0, sets=["redistr", "vrf_grp_as", "router_id", "v6_loops", "grp_mtu"]),
]
VIRTUAL_HANDLERS = [
    dict(asn="session", fam=True), dict(asn="sides", mtu=True, listen=True), dict(asn="sides", conflict=True),
]


def self_matching(case, rule):
    return any(ref_match_pair(case, rule, n, n) for n in case["names"])


def single_rules():
    for left, right, flts in PAIR_TEMPLATES:
        for flt in flts:
            for pp in ("united", "separate"):
                for hs in DIRECT_HANDLERS:
                    yield dict(kind="direct", left=left, right=right, flt=flt, pp=pp, h=hs)
            for hs in INDIRECT_HANDLERS:
                yield dict(kind="indirect", left=left, right=right, flt=flt, h=hs)
    for left, flts in ONE_TEMPLATES:
        for flt in flts:
            for hs in GLOBAL_HANDLERS:
                yield dict(kind="device", left=left, flt=flt, h=hs)
            for i, hs in enumerate(VIRTUAL_HANDLERS):
                yield dict(kind="virtual", left=left, flt=flt, num=[1, 2][:1 + i % 2], h=dict(hs, v=0))


def random_rule(rnd, pos, base=None):
    kind = rnd.choice(["direct", "direct", "direct", "indirect", "indirect", "device", "virtual"])
    if base is not None and rnd.random() < 0.6:
        kind = base["kind"]
    if kind in ("direct", "indirect"):
        left, right, flts = rnd.choice(PAIR_TEMPLATES)
        flt = rnd.choice(flts)
        if base is not None and base["kind"] == kind and rnd.random() < 0.5:
            left, right, flt = base["left"], base["right"], base["flt"]
            if rnd.random() < 0.3:
                left, right = right, left
        hs = dict(addr=rnd.choice(["role", "dev", "port"] if kind == "direct" else ["role", "dev"]), k=rnd.choice([0, 1]),
                  asn=rnd.choice(["session", "name", "role", "match", "omit"] if pos else ["session", "name", "role", "match"]))
        if base is not None and base["kind"] == kind and rnd.random() < 0.7:
            hs["addr"], hs["k"] = base["h"]["addr"], base["h"]["k"]
            if rnd.random() < 0.6:
                hs["asn"] = rnd.choice([base["h"]["asn"], "omit"])
        fam = rnd.choice([None, "v4", "v6", "v46"])
        if fam:
            hs["fam"] = fam
        sess = [o for o in ("bfd", "vrf", "group_name", "import_policy", "export_policy", "send_community", "add_path", "bmp_monitor")
                if rnd.random() < 0.2]
        if sess:
            hs["sess"] = sess
        side = rnd.choice([None, None, "role", "name"])
        if side:
            hs["side"] = side
        hs["iface"] = rnd.choice(["port", "port", "lag", "lagsub", "subif", "svi"] if kind == "direct" else ["none", "lo", "svi", "losub"])
        if rnd.random() < 0.25:
            hs["iface_on"] = "left"
        rule = dict(kind=kind, left=left, right=right, flt=flt, h=hs)
        if kind == "direct":
            rule["pp"] = rnd.choice(["united", "separate"])
            if base is not None and base["kind"] == kind and rnd.random() < 0.6:
                rule["pp"] = base["pp"]
        return rule
    left, flts = rnd.choice(ONE_TEMPLATES)
    flt = rnd.choice(flts)
    if kind == "device":
        sets = [s for s in GLOBAL_SETTINGS if rnd.random() < 0.35]
        return dict(kind=kind, left=left, flt=flt, h=dict(v=rnd.choice([0, 0, 1]), sets=sets or ["local_as"]))
    hs = dict(rnd.choice(VIRTUAL_HANDLERS), v=pos)
    return dict(kind=kind, left=left, flt=flt, num=rnd.choice([[1], [1, 2], [3, 1]]), h=hs)


def random_case(rnd, topos):
    names, links = rnd.choice(topos)
    case = dict(kind="exec", names=names, links=links, short=rnd.random() < 0.5, rules=[])
    nrules = rnd.choice([2, 2, 3, 3, 3])
    tries = 0
    while len(case["rules"]) < nrules and tries < 50:
        tries += 1
        base = case["rules"][0] if case["rules"] else None
        rule = random_rule(rnd, len(case["rules"]), base)
        if rule["kind"] == "indirect" and self_matching(case, rule):
            continue     # out of scope: the statement is about TWO devices
        case["rules"].append(rule)
    return case


def exec_cases(tier, seed):
    topos = topologies(tier)
    singles = list(single_rules())
    for ti, (names, links) in enumerate(topos):
        for si, rule in enumerate(singles):
            if tier == "quick" and (si + ti) % 3:
                continue
            case = dict(kind="exec", names=names, links=links, short=bool((si + ti) % 2), rules=[rule])
            if rule["kind"] == "indirect" and self_matching(case, rule):
                continue
            yield case
    count = 2600 if tier == "quick" else 40000
    for i in range(count):
        yield ("random", i)


def materialize(item, tier, seed, topos):
    if isinstance(item, dict):
        return item
    rnd = random.Random("c15:%s:%s:%d" % (tier, seed, item[1]))
    return random_case(rnd, topos)


# ---------------------------------------------------------------------------------------------------------------------
# merge laws
# ---------------------------------------------------------------------------------------------------------------------

class Inner(BaseMeshModel):
    a: int
    tags: Annotated[set[str], Unite()]
    seq: Annotated[tuple[int, ...], Concat()]


class Outer(BaseMeshModel):
    x: int
    y: Annotated[str, ForbidChange()]
    s: Annotated[set[int], Unite()]
    c: Annotated[tuple[int, ...], Concat()]
    inner: Annotated[Inner, Merge()]
    d: Annotated[dict[str, Inner], DictMerge(Merge())]
    df: Annotated[dict[str, int], DictMerge(ForbidChange())]
    du: Annotated[dict[str, set[int]], DictMerge(Unite())]
    d0: Annotated[dict[str, int], DictMerge()]
    f: Annotated[int, Forbid()]
    first: Annotated[int, UseFirst()]
    last: Annotated[int, UseLast()]
    opt: Optional[int]


def _models():
    from annet.mesh import peer_models as pm, device_models as dm, executor as ex
    return {
        "Outer": Outer, "Inner": Inner,
        "DirectPeerDTO": pm.DirectPeerDTO, "IndirectPeerDTO": pm.IndirectPeerDTO, "VirtualLocalDTO": pm.VirtualLocalDTO,
        "VirtualPeerDTO": pm.VirtualPeerDTO, "MeshSession": pm.MeshSession, "MeshPeerGroup": pm.MeshPeerGroup,
        "Aggregate": dm.Aggregate, "FamilyOptions": dm.FamilyOptions, "VrfOptions": dm.VrfOptions,
        "L2VpnOptions": dm.L2VpnOptions, "GlobalOptionsDTO": dm.GlobalOptionsDTO, "Pair": ex.Pair, "VirtualPair": ex.VirtualPair,
    }


MERGE_MODELS = ["Outer", "Outer", "Inner", "DirectPeerDTO", "IndirectPeerDTO", "VirtualLocalDTO", "VirtualPeerDTO", "MeshSession",
                "MeshPeerGroup", "Aggregate", "FamilyOptions", "VrfOptions", "L2VpnOptions", "GlobalOptionsDTO", "Pair",
                "VirtualPair", "DirectPeerDTO+MeshSession", "VirtualLocalDTO+MeshSession"]

_schema_cache = {}


def schema(cls):
    """{field: (kind, value kind or None)} read off the DECLARATION (the Annotated metadata), default = ForbidChange"""
    if cls in _schema_cache:
        return _schema_cache[cls]
    res = {}
    for f, hint in typing.get_type_hints(cls, include_extras=True).items():
        if typing.get_origin(hint) is typing.ClassVar:
            continue
        kind, sub = "ForbidChange", None
        if typing.get_origin(hint) is Annotated:
            for meta in typing.get_args(hint)[1:]:
                if isinstance(meta, bm.Merger):
                    kind = type(meta).__name__
                    if kind == "DictMerge":
                        sub = type(meta.value_merger).__name__
                    break
        res[f] = (kind, sub, hint)
    _schema_cache[cls] = res
    return res


def dump(v):
    if isinstance(v, BaseMeshModel):
        return {"__model__": type(v).__name__, "fields": {k: dump(x) for k, x in vars(v).items()}}
    if isinstance(v, dict):
        return {"__map__": {k: dump(x) for k, x in v.items()}}
    if isinstance(v, (set, frozenset)):
        return {"__set__": sorted(v, key=str)}
    if isinstance(v, (tuple, list)):
        return [dump(x) for x in v]
    if v is Special.NOT_SET:
        return "<NOT_SET leaked>"
    if dataclasses.is_dataclass(v):
        return {"__dc__": type(v).__name__, **{k: dump(x) for k, x in dataclasses.asdict(v).items()}}
    return v


class RefConflict(Exception):
    pass


def ref_value(kind, sub, x, y, path):
    if kind == "ForbidChange":
        if x == y:
            return dump(x)
        raise RefConflict(path)
    if kind == "Forbid":
        raise RefConflict(path)
    if kind == "Unite":
        return dump(set(x) | set(y))
    if kind == "Concat":
        return [dump(e) for e in x] + [dump(e) for e in y]
    if kind == "Merge":
        return ref_merge(x, y, path)
    if kind == "UseFirst":
        return dump(x)
    if kind == "UseLast":
        return dump(y)
    if kind == "DictMerge":
        out = {}
        for key in list(x) + [k for k in y if k not in x]:
            if key in x and key in y:
                out[key] = ref_value(sub, None, x[key], y[key], path + "[%s]" % key)
            else:
                out[key] = dump(x[key] if key in x else y[key])
        return {"__map__": out}
    raise AssertionError(kind)


def ref_merge(a, b, path=""):
    """the merge laws: unset never overrides set; otherwise per declared merger"""
    sch = schema(type(a))
    fields = {k: dump(v) for k, v in vars(a).items() if k not in sch}
    for f, (kind, sub, _) in sch.items():
        ina, inb = f in vars(a), f in vars(b)
        if ina and inb:
            fields[f] = ref_value(kind, sub, vars(a)[f], vars(b)[f], path + "." + f)
        elif ina:
            fields[f] = dump(vars(a)[f])
        elif inb:
            fields[f] = dump(vars(b)[f])
    return {"__model__": type(a).__name__, "fields": fields}


def gen_value(hint, rnd, key=None):
    origin = typing.get_origin(hint)
    args = typing.get_args(hint)
    if origin is Annotated:
        return gen_value(args[0], rnd, key)
    if origin is Union or origin is types.UnionType:
        if all(isinstance(x, type) and issubclass(x, BaseMeshModel) for x in args):
            return gen_value(args[0], rnd, key)
        return gen_value(rnd.choice(args), rnd, key)
    if hint is type(None):
        return None
    if origin is typing.Literal:
        return rnd.choice(args)
    if origin in (set, frozenset):
        return {gen_value(args[0], rnd) for _ in range(rnd.randint(0, 2))}
    if origin is tuple:
        return tuple(gen_value(args[0], rnd) for _ in range(rnd.randint(0, 2)))
    if origin is list:
        return [gen_value(args[0], rnd) for _ in range(rnd.randint(0, 2))]
    if origin is dict:
        return {k: gen_value(args[1], rnd, k) for k in ("k1", "k2", "k3") if rnd.random() < 0.5}
    if hint is bool:
        return rnd.choice([True, False])
    if hint is int:
        return rnd.choice([1, 2])
    if hint is str:
        return rnd.choice(["a", "b"])
    if isinstance(hint, type) and issubclass(hint, BaseMeshModel):
        return gen_model(hint, rnd, key)
    if hint is BFDTimers:
        return BFDTimers(multiplier=rnd.choice([3, 4]))
    if hint is Redistribute:
        return Redistribute(protocol=rnd.choice(["static", "connected"]), policy=rnd.choice(["", "P"]))
    return rnd.choice(["objA", "objB"])


def gen_model(cls, rnd, key=None, density=None):
    if density is None:
        density = rnd.choice([0.08, 0.25, 0.6])
    if cls.__name__ == "VrfOptions":
        inst = cls(vrf_name=key or rnd.choice(["v1", "v2"]))
    else:
        inst = cls()
    for f, (kind, sub, hint) in schema(cls).items():
        if rnd.random() >= density:
            continue
        if kind == "DictMerge" and f in vars(inst):
            # keep the default dict object of the model (KeyDefaultDict), fill it
            for k, v in gen_value(hint, rnd).items():
                vars(inst)[f][k] = v
            continue
        setattr(inst, f, gen_value(hint, rnd, key))
    if key is not None and "name" in schema(cls) and cls.__name__ in ("MeshPeerGroup", "L2VpnOptions"):
        inst.name = key
    return inst


def soften(a, b, rnd):
    """make b agree with a on most single-valued fields both set, so that merges without conflict are frequent"""
    sch = schema(type(a))
    for f, (kind, sub, _) in sch.items():
        if f in vars(a) and f in vars(b):
            va, vb = vars(a)[f], vars(b)[f]
            if kind in ("ForbidChange",) and rnd.random() < 0.9:
                vars(b)[f] = va
            elif kind == "Forbid" and rnd.random() < 0.8:
                del vars(b)[f]
            elif kind == "Merge" and isinstance(va, BaseMeshModel) and isinstance(vb, BaseMeshModel):
                soften(va, vb, rnd)
            elif kind == "DictMerge":
                for k in list(vb):
                    if k in va:
                        if sub == "Merge" and isinstance(va[k], BaseMeshModel):
                            soften(va[k], vb[k], rnd)
                        elif sub in ("ForbidChange",) and rnd.random() < 0.9:
                            vb[k] = va[k]
                        elif sub == "Forbid" and rnd.random() < 0.8:
                            del vb[k]


def merge_instances(case):
    models = _models()
    rnd = random.Random("c15merge:%s:%s" % (case["model"], case["seed"]))
    name = case["model"]
    if "+" in name:
        ca, cb = (models[x] for x in name.split("+"))
        insts = [gen_model(ca, rnd), gen_model(cb, rnd), gen_model(cb if rnd.random() < 0.5 else ca, rnd)]
    else:
        insts = [gen_model(models[name], rnd) for _ in range(3)]
    if rnd.random() < 0.85:
        for i in (1, 2):
            for j in range(i):
                if type(insts[i]) is type(insts[j]) or "+" in name:
                    soften(insts[j], insts[i], rnd)
    return insts


def _try(fn):
    try:
        return ("ok", fn())
    except (MergeForbiddenError, RefConflict):
        return ("conflict", None)


def _unordered(d, sch_cls=None):
    """dump with Concat lists as multisets and UseFirst/UseLast fields dropped (for the order-independence law)"""
    if isinstance(d, dict) and "__model__" in d:
        cls = _models().get(d["__model__"])
        sch = schema(cls) if cls else {}
        out = {}
        for f, v in d["fields"].items():
            kind = sch.get(f, ("ForbidChange", None, None))[0]
            sub = sch.get(f, (None, None, None))[1]
            if kind in ("UseFirst", "UseLast"):
                continue
            if kind == "Concat" or (kind == "DictMerge" and sub == "Concat"):
                v = sorted(json.dumps(_unordered(e), sort_keys=True, default=str) for e in v) if isinstance(v, list) else v
            else:
                v = _unordered(v)
            out[f] = v
        return {"__model__": d["__model__"], "fields": out}
    if isinstance(d, dict):
        return {k: _unordered(v) for k, v in d.items()}
    if isinstance(d, list):
        return [_unordered(v) for v in d]
    return d


def _first_diff(exp, got, a, b, path=""):
    """-> (path, law) of the first field where a merge result differs from the reference"""
    if isinstance(exp, dict) and isinstance(got, dict) and "__model__" in exp and "__model__" in got:
        cls = _models().get(exp["__model__"])
        sch = schema(cls) if cls else {}
        for f in list(exp["fields"]) + [g for g in got["fields"] if g not in exp["fields"]]:
            e, g = exp["fields"].get(f, "<unset>"), got["fields"].get(f, "<unset>")
            if e != g:
                kind = sch.get(f, ("ForbidChange",))[0]
                sa = isinstance(a, BaseMeshModel) and f in vars(a)
                sb = isinstance(b, BaseMeshModel) and f in vars(b)
                if not (sa and sb):
                    return path + "." + f, "unset-overrides-set"
                if kind == "Merge":
                    return _first_diff(e, g, vars(a)[f], vars(b)[f], path + "." + f)
                return path + "." + f, kind
    return path, "result"


def check_merge(case):
    fails = []
    a, b, c = merge_instances(case)
    before = [dump(x) for x in (a, b, c)]
    exp = _try(lambda: ref_merge(a, b))
    got = _try(lambda: dump(bm.merge(a, b)))
    nontrivial = exp[0] == "conflict" or any(f in vars(b) for f in vars(a) if f in schema(type(a)))
    if exp[0] != got[0]:
        fails.append((K + "merge-law:conflict", "merge(a,b): conflict expected iff two different values meet in a single-valued field",
                      exp[0], got[0] if got[0] == "conflict" else got))
    elif exp[0] == "ok" and exp[1] != got[1]:
        path, law = _first_diff(exp[1], got[1], a, b)
        fails.append((K + "merge-law:" + law, "merge(a,b) differs from the merge laws at %s" % path, exp[1], got[1]))
    if [dump(x) for x in (a, b, c)] != before:
        fails.append((K + "merge-law:mutates-input", "merge(a,b) changed one of its arguments", before, [dump(x) for x in (a, b, c)]))
    # order independence (Concat as multisets; UseFirst/UseLast are order dependent by declaration)
    if type(a) is type(b):
        ab, ba = _try(lambda: dump(bm.merge(a, b))), _try(lambda: dump(bm.merge(b, a)))
        if ab[0] != ba[0] or (ab[0] == "ok" and _unordered(ab[1]) != _unordered(ba[1])):
            fails.append((K + "merge-law:order", "merge(a,b) vs merge(b,a)", ab, ba))
    # associativity + variadic form, against the reference and against each other
    if type(a) is type(b) is type(c) or "+" in case["model"]:
        left = _try(lambda: dump(bm.merge(bm.merge(a, b), c)))
        var = _try(lambda: dump(bm.merge(a, b, c)))
        if left != var:
            fails.append((K + "merge-law:variadic", "merge(a,b,c) vs merge(merge(a,b),c)", left, var))
        if type(b) is type(c):
            right = _try(lambda: dump(bm.merge(a, bm.merge(b, c))))
            if left[0] == right[0] == "ok" and left[1] != right[1]:
                fails.append((K + "merge-law:associativity", "merge(merge(a,b),c) vs merge(a,merge(b,c))", left, right))
            elif left[0] != right[0] and type(a) is type(b):
                fails.append((K + "merge-law:associativity", "merge(merge(a,b),c) vs merge(a,merge(b,c)): defined on one side only",
                              left[0], right[0]))
    # NOT_SET as the first argument
    ns = _try(lambda: dump(bm.merge(Special.NOT_SET, a)))
    if ns != ("ok", dump(a)) or bm.merge(Special.NOT_SET) is not Special.NOT_SET:
        fails.append((K + "merge-law:unset-overrides-set", "merge(NOT_SET, a) must be a", dump(a), ns))
    return fails, nontrivial


def merge_cases(tier):
    per_model = 150 if tier == "quick" else 2000
    for name in MERGE_MODELS:
        for s in range(per_model):
            yield dict(kind="merge", model=name, seed=s)


# ---------------------------------------------------------------------------------------------------------------------
# interface
# ---------------------------------------------------------------------------------------------------------------------

def _j(x):
    return json.loads(json.dumps(x, sort_keys=True, default=str))


def check_case(case):
    if case["kind"] == "exec":
        return check_exec(case)
    return check_merge(case)


def run(tier="quick", seed=0, part=0, nparts=1):
    topos = topologies(tier)
    ev = 0
    nontrivial = set()
    failures = []
    per_key = {}
    samples = []
    i = -1
    for item in itertools.chain(exec_cases(tier, seed), merge_cases(tier)):
        i += 1
        if i % nparts != part:
            continue
        case = materialize(item, tier, seed, topos)
        ev += 1
        fails, nt = check_case(case)
        if nt:
            nontrivial.add(_hash(case))
        if part == 0 and nt and len(samples) < 2 and case["kind"] == "exec" and len(case["rules"]) >= len(samples) + 1:
            samples.append(dict(case=_j(case), expected=_j([expect_device(case, d) for d in range(len(case["names"]))])[:1]))
        for key, text, exp, got in fails:
            per_key[key] = per_key.get(key, 0) + 1
            if per_key[key] <= 3:
                failures.append(dict(key=key, text=text, case=_j(case), expected=_j(exp), actual=_j(got)))
    return dict(
        evaluations=ev, nontrivial=sorted(nontrivial), failures=failures, samples=samples,
        rule="exec cases: %d topologies (2..%d devices 'sp<n>'/'tr<n>', 0..3 parallel links per pair, straight or cross wired) x "
             "every single rule of a systematic list (9 template pairs / 4 single templates with {n} and {n:regex} variables x "
             "Left/Right/Match filters x united/separate ports x 9 direct, 5 indirect, 5 device, 3 virtual handler specs%s), plus %s "
             "seeded random registries of 2..3 rules (kinds mixed, handlers drawn from the full spec space, biased to talk about the "
             "same session); every device and every permutation of the registration order is executed and compared with the reference, "
             "with the other end (mirror) and across orders. merge cases: %d seeded (a,b,c) instance triples for each of %d model "
             "(pairs) incl. a local model using every merger. non-trivial = some rule joins two devices / sets options / a conflict "
             "is expected (exec), or a and b share a set field or conflict (merge); distinct by the hash of the case"
             % (len(topos), 5 if tier == "thorough" else 4, "" if tier == "thorough" else "; every 3rd combination in the quick tier",
                "40000" if tier == "thorough" else "2600", 2000 if tier == "thorough" else 150, len(MERGE_MODELS)),
        bound="2..%d devices, <=3 parallel links, <=3 rules, all registration orders; merge triples of 18 model kinds"
              % (5 if tier == "thorough" else 4))


def replay(case):
    fails, _ = check_case(case)
    if fails:
        return dict(ok=False, expected=_j(fails[0][2]), actual=_j(fails[0][3]), key=fails[0][0])
    if case["kind"] == "exec":
        exp = [expect_device(case, d) for d in range(len(case["names"]))]
        return dict(ok=True, expected=_j(exp), actual=_j(exp))
    a, b, _ = merge_instances(case)
    r = _try(lambda: ref_merge(a, b))
    return dict(ok=True, expected=_j(r), actual=_j(r))
