"""example strings for a regular expression, read off its parse tree (helper of the bounded layer).
The strings are only CANDIDATES: callers verify them with the regex itself."""
try:
    import re._parser as _sre
    import re._constants as _sc
except ImportError:  # pragma: no cover
    import sre_parse as _sre
    import sre_constants as _sc


def _ex_items(items, budget):
    outs = [""]
    for it in items:
        alts = _ex_item(it, budget)
        if not alts:
            return []
        new = []
        for o in outs:
            for a in alts:
                new.append(o + a)
                if len(new) >= budget:
                    break
            if len(new) >= budget:
                break
        outs = new
    return outs


def _ex_in(av):
    neg = False
    pos = []
    for (op, v) in av:
        if op is _sc.NEGATE:
            neg = True
        elif op is _sc.LITERAL:
            pos.append(chr(v))
        elif op is _sc.RANGE:
            pos.append(chr(v[0]))
            pos.append(chr(v[1]))
        elif op is _sc.CATEGORY:
            pos.append({_sc.CATEGORY_DIGIT: "7", _sc.CATEGORY_WORD: "w", _sc.CATEGORY_SPACE: " ",
                        _sc.CATEGORY_NOT_SPACE: "x", _sc.CATEGORY_NOT_DIGIT: "x", _sc.CATEGORY_NOT_WORD: "-"}.get(v, "x"))
    if not neg:
        return pos[:3]
    return [c for c in "x7-/Q" if c not in pos][:2]


def _ex_item(it, budget):
    op, av = it
    if op is _sc.LITERAL:
        return [chr(av)]
    if op is _sc.NOT_LITERAL:
        return ["x" if chr(av) != "x" else "y"]
    if op is _sc.ANY:
        return ["x"]
    if op is _sc.IN:
        return _ex_in(av)
    if op is _sc.BRANCH:
        out = []
        for br in av[1]:
            out.extend(_ex_items(br, budget)[:2])
        return out[:budget]
    if op is _sc.SUBPATTERN:
        return _ex_items(av[3], budget)
    if op in (_sc.MAX_REPEAT, _sc.MIN_REPEAT) or getattr(_sc, "POSSESSIVE_REPEAT", None) is op:
        lo, hi, sub = av
        base = _ex_items(sub, budget)
        if not base:
            return [""] if lo == 0 else []
        out = []
        for n in sorted({lo, min(max(lo, 1), hi), min(lo + 2, hi)}):
            out.append("".join(base[k % len(base)] for k in range(n)))
        return out
    if op is _sc.AT:
        return [""]
    if op in (_sc.ASSERT, _sc.ASSERT_NOT):
        return [""]
    if op is _sc.CATEGORY:
        return ["7"]
    if getattr(_sc, "ATOMIC_GROUP", None) is op:
        return _ex_items(av, budget)
    return []




def candidates(rx, budget=12):
    """candidate strings that may match regex source `rx` (every branch of an alternation is tried)"""
    try:
        return _ex_items(_sre.parse(rx), budget)
    except Exception:
        return []
