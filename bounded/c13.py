"""C13 bounded layer: JSON fragments stay inside their pointers, JSON patches reproduce the target.

The REAL annet.annlib.jsontools.{apply_json_fragment, make_patch, apply_patch, apply_acl_filters} and
RunGeneratorResult.new_json_fragment_files are run on documents of ONE fixed schema and compared with an oracle
written from the property statement: an own JSON-pointer-pattern walk (`parse_pattern`, `merge`, `sel`, `restrict`).
Nothing of annet (nor jsonpointer/jsonpatch) is used to compute an expectation; only the stdlib glob matcher
fnmatch.fnmatchcase is shared.

Failure keys. The class of the failing INPUT (computed by the oracle's own walk, pattern by pattern) is part of the key:
  inputs where a selected path has a key containing '/' or '~':  bounded:C13:{fragment,filter,chain}-escaped-key
  (pointer patterns select object members only, as in the property's quantifier; arrays are values at/below selected keys)
  all other inputs, one key per clause:
    bounded:C13:fragment-exception | fragment-selected | fragment-elsewhere | fragment-not-idempotent
    bounded:C13:filter-exception | filter-not-subdocument | filter-not-restriction
    bounded:C13:chain-exception | chain-not-sequential | chain-fragment-lost
  any input: bounded:C13:fragment-mutates-input | filter-mutates-input | chain-mutates-old | patch-mutates-input
  patch, inputs where an array present in both documents differs: bounded:C13:patch-array (which of the two clauses fails
  there depends on PYTHONHASHSEED: jsonpatch iterates sets of keys); inputs (arrays equal) where an object of old and an
  object of new at another path are ==-equal but differ in a JSON type (1 / true / 1.0): bounded:C13:patch-moved-object-type-only;
  other inputs: bounded:C13:patch-exception | patch-roundtrip
"""
import copy
import fnmatch
import itertools
import json
import random

from bounded.common import setup_annet, h

setup_annet()

from annet.annlib import jsontools  # noqa: E402
from annet.generators.result import RunGeneratorResult  # noqa: E402
from annet.types import GeneratorJSONFragmentResult  # noqa: E402


class _Missing:
    def __repr__(self):
        return "<missing>"

    def __deepcopy__(self, memo):
        return self


MISSING = _Missing()

# ---------------------------------------------------------------------------------------------------------------------
# the schema: a path is an object in every document that has it; objects nested 3 deep; one array (<= 3 long);
# scalars from 3 values; keys with '/', '~', '|', '*'
S = ("scalar",)
SCHEMA = ("obj", [
    ("T", ("obj", [
        ("a|1", ("obj", [("p", S), ("q/r", S)])),
        # keys literally equal to glob parts used in the pointer lists ("b*" under /T/b*, "*" under /T/b*/*), each with a
        # sibling the glob matches too ("bc" resp. "p"): a literal-key lookup instead of the glob scan is visible
        ("b*", ("obj", [("p", S), ("*", S)])),
        ("bc", ("obj", [("p", S)])),   # an object: patterns continue below every key they match (no pointer goes through a scalar)
    ])),
    ("m~n", ("obj", [("p", S)])),
    ("L", ("arr",)),
    ("s", S),
])
SCALARS = [1, "x", None]
# patch layer only: object members also take values that Python's == confuses but JSON distinguishes (1, true, 1.0 / 0, false).
# Arrays keep SCALARS: a type-only change inside an array is outside this scope (jsonpatch compares array items with ==).
TYPED_SCALARS = [1, True, 1.0, 0, False, "x", None]

PATTERNS = [
    "/T", "/T/*", "/T/a|1", "/T/a|1/p", "/T/*/p", "/T/a?1/*", "/T/b*", "/T/b*/p", "/T/b*/*", "/T/b?",
    "/T/a|1/q~1r", "/T/*/q*",
    "/m~0n", "/m~0n/p", "/m*/p",
    "/*/p", "/*", "/[sL]", "/s",
    "/L",
]   # pointers select object members only (the property's domain); arrays occur as values at / below selected keys


def enum_docs(node, leaf_vals, arrays):
    kind = node[0]
    if kind == "scalar":
        return list(leaf_vals)
    if kind == "arr":
        return [list(a) for a in arrays]
    out = []
    child_opts = [(k, [MISSING] + enum_docs(sub, leaf_vals, arrays)) for k, sub in node[1]]
    for combo in itertools.product(*[o for _, o in child_opts]):
        out.append({k: copy.deepcopy(v) for (k, _), v in zip(child_opts, combo) if v is not MISSING})
    return out


def random_doc(rnd, node=SCHEMA, top=True, scalars=SCALARS):
    kind = node[0]
    if kind == "scalar":
        return rnd.choice(scalars)
    if kind == "arr":
        return [rnd.choice(SCALARS) for _ in range(rnd.randint(0, 3))]
    d = {}
    for k, sub in node[1]:
        if rnd.random() < 0.72:
            d[k] = random_doc(rnd, sub, False, scalars)
    return d


def typed_doc(v_deep, v_top, var):
    """object members T/a|1/p and s from TYPED_SCALARS (or absent); the array is the same in every document of a variant"""
    d = {"T": {"a|1": {"q/r": "x"}}, "m~n": {"p": 1}}
    if var:
        d["L"] = [1, "x", None]
    if v_deep is not MISSING:
        d["T"]["a|1"]["p"] = v_deep
    if v_top is not MISSING:
        d["s"] = v_top
    return d


_cache = {}


def shape_docs(which):
    """all shapes of the schema (2280) (every combination of present/absent keys, array lengths 0..3);
    'old': scalars 1, array [1,'x',None][:n];  'new': scalars 'x', array ['x',None,1][:n]"""
    if which not in _cache:
        if which == "old":
            _cache[which] = enum_docs(SCHEMA, [1], [[1, "x", None][:n] for n in range(4)])
        else:
            _cache[which] = enum_docs(SCHEMA, ["x"], [["x", None, 1][:n] for n in range(4)])
    return _cache[which]


def acl_lists():
    if "acl" not in _cache:
        out = [[p] for p in PATTERNS]
        out += [[p, q] for p in PATTERNS for q in PATTERNS]
        _cache["acl"] = out
    return _cache["acl"]


# ---------------------------------------------------------------------------------------------------------------------
# the oracle
def parse_pattern(text):
    """RFC 6901 pointer text -> tuple of (glob) reference tokens"""
    assert text.startswith("/"), text
    return tuple(tok.replace("~1", "/").replace("~0", "~") for tok in text[1:].split("/"))


def _children(node):
    if isinstance(node, dict):
        return [(k, k, v) for k, v in node.items()]
    if isinstance(node, list):
        return [(i, str(i), v) for i, v in enumerate(node)]
    return []


class Info:
    def __init__(self):
        self.escaped = False
        self.matched = 0

    def note(self, path):
        self.matched += 1
        # the property's domain: pointers select object members, never array elements
        assert not any(isinstance(k, int) for k in path), "scope error: pattern selects an array element %r" % (path,)
        if any(("/" in k or "~" in k) for k in path):
            self.escaped = True

    def classify(self, pats, docs):
        """every pattern on its own against every document involved (a selection nested inside another one counts)"""
        for pat in pats:
            for d in docs:
                if d is None or d is MISSING:
                    continue
                for path in sel(d, [pat]):
                    self.note(path)
        return self

    def cls(self):
        if self.escaped:
            return "escaped-key"
        return ""

    def key(self, kind, clause):
        """classed inputs: one key per (function, class), the clause goes to the text; other inputs: one key per clause"""
        c = self.cls()
        return "bounded:C13:%s-%s" % (kind, c if c else clause)


def merge(o, f, pats, info, path=()):
    """the document the statement demands: selected parts from f (absent there -> removed), the rest from o"""
    if any(len(p) == 0 for p in pats):
        info.note(path)
        return copy.deepcopy(f)
    if not pats:
        return copy.deepcopy(o)
    t = o if o is not MISSING else f
    if isinstance(t, dict):
        od = o if isinstance(o, dict) else {}
        fd = f if isinstance(f, dict) else {}
        keys = list(od) + [k for k in fd if k not in od]
        res = {}
        for k in keys:
            sub = [p[1:] for p in pats if fnmatch.fnmatchcase(k, p[0])]
            v = merge(od.get(k, MISSING), fd.get(k, MISSING), sub, info, path + (k,))
            if v is not MISSING:
                res[k] = v
        if o is MISSING and not res:
            return MISSING
        return res
    return copy.deepcopy(o)     # scalar or array: a value, nothing below it is selected


def sel(doc, pats, path=()):
    """{concrete path: value} of everything in doc selected by a pattern"""
    out = {}
    if any(len(p) == 0 for p in pats):
        out[path] = doc
    pats = [p for p in pats if p]
    if not pats:
        return out
    for k, ks, v in _children(doc):
        sub = [p[1:] for p in pats if fnmatch.fnmatchcase(ks, p[0])]
        if sub:
            out.update(sel(v, sub, path + (k,)))
    return out


def restrict(doc, pats, info, path=()):
    """the smallest sub-document of doc containing everything selected"""
    if any(len(p) == 0 for p in pats):
        info.note(path)
        return copy.deepcopy(doc)
    if isinstance(doc, dict):
        res = {}
        for k, v in doc.items():
            sub = [p[1:] for p in pats if fnmatch.fnmatchcase(k, p[0])]
            if sub:
                r = restrict(v, sub, info, path + (k,))
                if r is not MISSING:
                    res[k] = r
        return res if res else MISSING
    return MISSING


def is_subdoc(r, d):
    """r is obtained from d by deleting object members / array elements"""
    if isinstance(r, dict):
        return isinstance(d, dict) and all(k in d and is_subdoc(v, d[k]) for k, v in r.items())
    if isinstance(r, list):
        if not isinstance(d, list):
            return False
        j = 0
        for v in r:
            while j < len(d) and not is_subdoc(v, d[j]):
                j += 1
            if j == len(d):
                return False
            j += 1
        return True
    return type(r) is type(d) and r == d


def jeq(a, b):
    """JSON equality (1 != True, key order ignored)"""
    return json.dumps(a, sort_keys=True) == json.dumps(b, sort_keys=True)


def arrays_differ(a, b):
    if isinstance(a, list) and isinstance(b, list):
        return not jeq(a, b)
    if isinstance(a, dict) and isinstance(b, dict):
        return any(arrays_differ(a[k], b[k]) for k in a if k in b)
    return False


def _objects(doc, path=()):
    """all object values of a document with their paths"""
    out = []
    if isinstance(doc, dict):
        out.append((path, doc))
        for k, v in doc.items():
            out.extend(_objects(v, path + (k,)))
    return out


def moved_type_only(old, new):
    """an object of old and an object of new at ANOTHER path are equal for Python's == but differ in a JSON type (1/true/1.0):
    jsonpatch itself pairs them into a 'move' that carries the wrongly typed value"""
    return any(pa != pb and a == b and not jeq(a, b) for pa, a in _objects(old) for pb, b in _objects(new))


def _selkeys(m):
    return {"/" + "/".join(str(x) for x in k): v for k, v in m.items()}


# ---------------------------------------------------------------------------------------------------------------------
# the checks; each returns (verdicts, nontrivial) where verdicts = list of (key, text, expected, actual)
def sel_values(doc, pats):
    return _selkeys(sel(doc, pats))


def check_fragment(old, frag, acl):
    pats = [parse_pattern(a) for a in acl]
    cnt = Info()
    exp = merge(old, frag, pats, cnt)
    info = Info().classify(pats, [old, frag])
    # oracle self-check: the expectation itself fulfils r|acl == f|acl
    if not jeq(sel_values(exp, pats), sel_values(frag, pats)):
        raise AssertionError("oracle: unsatisfiable case %r %r %r" % (old, frag, acl))
    old0, frag0 = copy.deepcopy(old), copy.deepcopy(frag)
    nontrivial = cnt.matched > 0 and not jeq(exp, old0) and not jeq(exp, frag0)
    out = []
    try:
        r = jsontools.apply_json_fragment(old, frag, list(acl))
    except Exception as e:  # pylint: disable=broad-except
        return [(info.key("fragment", "exception"), "apply_json_fragment raises", exp, repr(e))], nontrivial
    if not jeq(r, exp):
        if not jeq(sel_values(r, pats), sel_values(frag, pats)):
            out.append((info.key("fragment", "selected"),
                        "result restricted to the selected pointers differs from the fragment restricted to them", exp, r))
        else:
            out.append((info.key("fragment", "elsewhere"),
                        "result differs from the old document outside the selected pointers", exp, r))
    if not jeq(old, old0) or not jeq(frag, frag0):
        out.append(("bounded:C13:fragment-mutates-input", "apply_json_fragment mutates its input",
                    dict(old=old0, fragment=frag0), dict(old=old, fragment=frag)))
    else:
        try:
            r_before = copy.deepcopy(r)
            r2 = jsontools.apply_json_fragment(r, frag, list(acl))
            if not jeq(r2, r_before):
                out.append((info.key("fragment", "not-idempotent"), "merging the fragment again changes the result", r_before, r2))
        except Exception as e:  # pylint: disable=broad-except
            out.append((info.key("fragment", "exception"), "apply_json_fragment raises on its own result", r, repr(e)))
    return out, nontrivial


def check_patch(old, new):
    cls = "array" if arrays_differ(old, new) else ("moved-object-type-only" if moved_type_only(old, new) else "")
    old0, new0 = copy.deepcopy(old), copy.deepcopy(new)
    nontrivial = not jeq(old0, new0) and old0 != {} and new0 != {}
    out = []
    try:
        patch = jsontools.make_patch(old, new)
        # calling convention of annet/api (_patch_worker, PCDeployerJob): the uploaded bytes are format_json(patch);
        # apply_patch(content: Optional[bytes], patch_bytes: bytes) -> bytes
        patch_bytes = jsontools.format_json(patch).encode()
        got = json.loads(jsontools.apply_patch(json.dumps(old).encode(), patch_bytes))
    except Exception as e:  # pylint: disable=broad-except
        return [(("bounded:C13:patch-" + cls) if cls else "bounded:C13:patch-exception", "make_patch/apply_patch raises", new0, repr(e))], nontrivial
    if not jeq(got, new0):
        out.append((("bounded:C13:patch-" + cls) if cls else "bounded:C13:patch-roundtrip", "apply_patch(old, make_patch(old, new)) != new (patch: %s)" % json.dumps(patch),
                    new0, got))
    if not jeq(old, old0) or not jeq(new, new0):
        out.append(("bounded:C13:patch-mutates-input", "make_patch mutates its input", dict(old=old0, new=new0), dict(old=old, new=new)))
    return out, nontrivial


def check_filter(doc, filters):
    pats = [parse_pattern(a) for a in filters]
    cnt = Info()
    exp = restrict(doc, pats, cnt)
    if exp is MISSING:
        exp = {}
    info = Info().classify(pats, [doc])
    doc0 = copy.deepcopy(doc)
    nontrivial = cnt.matched > 0 and not jeq(exp, doc0)
    out = []
    try:
        r = jsontools.apply_acl_filters(doc, list(filters))
    except Exception as e:  # pylint: disable=broad-except
        return [(info.key("filter", "exception"), "apply_acl_filters raises", exp, repr(e))], nontrivial
    if not is_subdoc(r, doc0):
        out.append((info.key("filter", "not-subdocument"), "apply_acl_filters returns something that is not a part of the document", exp, r))
    elif not jeq(r, exp):
        out.append((info.key("filter", "not-restriction"), "apply_acl_filters returns a sub-document, but not the selected one", exp, r))
    if not jeq(doc, doc0):
        out.append(("bounded:C13:filter-mutates-input", "apply_acl_filters mutates the document", doc0, doc))
    return out, nontrivial


def _related(a, b):
    """one concrete path is a prefix of (or equal to) the other"""
    n = min(len(a), len(b))
    return a[:n] == b[:n]


PATH1, PATH2 = "/etc/sonic/config_db.json", "/etc/other.json"
RELOAD_PRIOS = [0, 50, 100, 200]


def check_chain(old_files, gens, safe):
    """gens: list of dict(path, acl, acl_safe, config[, reload_prio, reload]); old_files: {path: doc or None}.
    The statement says nothing about which reload command wins, so reload_prio / reload are only VARIED (the merged
    document must not depend on them); checked: (a) chained document == sequential application, (b) every generator's
    fragment inside its own pointers when no later generator of the file touches them."""
    cnt = Info()
    info = Info()
    exp = {}
    touched = []        # per generator: (path, pats, concrete paths its patterns select before / after its step and in its fragment)
    for g in gens:
        p = g["path"]
        if p not in exp:
            exp[p] = copy.deepcopy(old_files[p]) if old_files.get(p) is not None else {}
        acl = g["acl_safe"] if safe else g["acl"]
        pats = [parse_pattern(a) for a in acl]
        info.classify(pats, [exp[p], g["config"]])
        nxt = merge(exp[p], g["config"], pats, cnt)
        if not jeq(sel_values(nxt, pats), sel_values(g["config"], pats)):
            raise AssertionError("oracle: unsatisfiable chain step %r" % (g,))
        touched.append((p, pats, set(sel(exp[p], pats)) | set(sel(nxt, pats)) | set(sel(g["config"], pats))))
        exp[p] = nxt
    old0 = copy.deepcopy(old_files)
    res = RunGeneratorResult()
    for i, g in enumerate(gens):
        res.add_json_fragment(GeneratorJSONFragmentResult(
            name="G%d" % i, tags=[], path=g["path"], acl=list(g["acl"]), acl_safe=list(g["acl_safe"]),
            config=copy.deepcopy(g["config"]), reload=g.get("reload", "reload %d" % i), perf=None,
            reload_prio=g.get("reload_prio", 100 + i)))
    out = []
    try:
        files = res.new_json_fragment_files(old_files, safe=safe)
        got = {p: v[0] for p, v in files.items()}
    except Exception as e:  # pylint: disable=broad-except
        return [(info.key("chain", "exception"), "new_json_fragment_files raises", exp, repr(e))], (cnt.matched >= 2 and len(gens) >= 2)
    if not jeq(got, exp):
        out.append((info.key("chain", "not-sequential"),
                    "new_json_fragment_files differs from merging the fragments one after another", exp, got))
    # (b) generator i's fragment inside its own pointers, if the pointers of the later generators of that file are disjoint
    for i, g in enumerate(gens):
        p, pats, _own = touched[i]
        mine = set(sel(exp[p], pats)) | set(sel(g["config"], pats))
        later = set()
        for (pj, _pj, sj) in touched[i + 1:]:
            if pj == p:
                later |= sj
        if any(_related(a, b) for a in mine for b in later):
            continue
        want, have = sel_values(g["config"], pats), sel_values(got.get(p, {}), pats)
        if not jeq(want, have):
            out.append((info.key("chain", "fragment-lost"),
                        "generator %d (reload_prio %s): the chained document restricted to its pointers differs from its fragment "
                        "restricted to them (no later generator touches them)" % (i, g.get("reload_prio", 100 + i)), want, have))
            break
    if not jeq(old_files, old0):
        out.append(("bounded:C13:chain-mutates-old", "new_json_fragment_files mutates old_files", old0, old_files))
    return out, (cnt.matched >= 2 and len(gens) >= 2)


# ---------------------------------------------------------------------------------------------------------------------
def run_case(case):
    kind = case["kind"]
    if kind == "fragment":
        return check_fragment(copy.deepcopy(case["old"]), copy.deepcopy(case["fragment"]), case["acl"])
    if kind == "patch":
        return check_patch(copy.deepcopy(case["old"]), copy.deepcopy(case["new"]))
    if kind == "filter":
        return check_filter(copy.deepcopy(case["doc"]), case["filters"])
    if kind == "chain":
        return check_chain(copy.deepcopy(case["old_files"]), copy.deepcopy(case["gens"]), case["safe"])
    raise ValueError(kind)


def _strided(total, stride, part, nparts):
    """indices 0, stride, 2*stride, ... of range(total); the j-th of them belongs to part j % nparts"""
    return range(part * stride, total, stride * nparts)


def cases(tier, seed, part, nparts):
    """yields (hash-or-None, case); hash None -> hash the content"""
    quick = tier == "quick"
    olds, news, acls = shape_docs("old"), shape_docs("new"), acl_lists()
    no, nn, na = len(olds), len(news), len(acls)

    # layer A: fragment, all shapes x all shapes x all pointer lists (strided)
    total = na * no * nn
    for idx in _strided(total, 27011 if quick else 1601, part, nparts):
        ai, rest = divmod(idx, no * nn)
        oi, fi = divmod(rest, nn)
        yield "A%x" % idx, dict(kind="fragment", old=olds[oi], fragment=news[fi], acl=acls[ai])

    # layer B: fragment, random documents with all three scalar values
    rnd = random.Random(1000003 * seed + 17)
    n = 40000 if quick else 400000
    for j in range(n):
        c = dict(kind="fragment", old=random_doc(rnd), fragment=random_doc(rnd), acl=rnd.choice(acls))
        if j % nparts == part:
            yield None, c

    # layer C: patch, shapes x shapes, new document with other / with the same scalar values
    total = 2 * no * nn
    for idx in _strided(total, 257 if quick else 23, part, nparts):
        var, rest = divmod(idx, no * nn)
        oi, ni = divmod(rest, nn)
        yield "C%x" % idx, dict(kind="patch", old=olds[oi], new=(news if var == 0 else olds)[ni])
    # layer D: patch, all arrays x all arrays (0..3 long over the 3 scalars) in two surroundings
    arrs = [list(t) for k in range(4) for t in itertools.product(SCALARS, repeat=k)]
    total = 2 * len(arrs) * len(arrs)
    for idx in _strided(total, 1, part, nparts):
        var, rest = divmod(idx, len(arrs) * len(arrs))
        i, j = divmod(rest, len(arrs))
        if var == 0:
            yield "D%x" % idx, dict(kind="patch", old={"L": arrs[i], "s": 1}, new={"L": arrs[j], "s": 1})
        else:
            yield "D%x" % idx, dict(kind="patch", old={"T": {"b*": {"p": 1}}, "L": arrs[i], "s": "x"},
                                    new={"T": {"a|1": {"p": 1}}, "L": arrs[j], "m~n": {"p": None}})
    # layer E: patch, random documents
    n = 16000 if quick else 200000
    for j in range(n):
        c = dict(kind="patch", old=random_doc(rnd), new=random_doc(rnd))
        if j % nparts == part:
            yield None, c

    # layer H: patch, JSON-type-only changes of object members (1 / true / 1.0, 0 / false): all pairs of the 8 x 8 documents
    # with T/a|1/p and s in TYPED_SCALARS + absent, with and without an (unchanged) array; plus random typed documents
    opts = TYPED_SCALARS + [MISSING]
    nd = len(opts) * len(opts)
    total = 2 * nd * nd
    for idx in _strided(total, 1, part, nparts):
        var, rest = divmod(idx, nd * nd)
        i, j = divmod(rest, nd)
        yield "H%x" % idx, dict(kind="patch", old=typed_doc(opts[i // len(opts)], opts[i % len(opts)], var),
                                new=typed_doc(opts[j // len(opts)], opts[j % len(opts)], var))
    n = 8000 if quick else 100000
    for j in range(n):
        old = random_doc(rnd, scalars=TYPED_SCALARS)
        new = random_doc(rnd, scalars=TYPED_SCALARS)
        if "L" in old and "L" in new:
            new["L"] = copy.deepcopy(old["L"])      # no changes inside arrays here (layers C..E do that with SCALARS)
        if j % nparts == part:
            yield None, dict(kind="patch", old=old, new=new)

    # layer F: filter, all shapes x all pointer lists; plus random
    total = na * no
    for idx in _strided(total, 29 if quick else 7, part, nparts):
        ai, oi = divmod(idx, no)
        yield "F%x" % idx, dict(kind="filter", doc=olds[oi], filters=acls[ai])
    n = 8000 if quick else 160000
    for j in range(n):
        c = dict(kind="filter", doc=random_doc(rnd), filters=rnd.choice(acls))
        if j % nparts == part:
            yield None, c

    # layer G: chains of 2..3 generators over one or two files
    n = 32000 if quick else 300000
    for j in range(n):
        k = rnd.randint(2, 3)
        two = rnd.random() < 0.3
        old_files = {}
        for p in (PATH1, PATH2):
            r = rnd.random()
            if r < 0.7:
                old_files[p] = rnd.choice(olds) if rnd.random() < 0.5 else random_doc(rnd)
            elif r < 0.85:
                old_files[p] = None
        gens = []
        for gi in range(k):
            path = PATH2 if (two and rnd.random() < 0.4) else PATH1
            r = rnd.random()
            if r < 0.2 and isinstance(old_files.get(path), dict):
                config = copy.deepcopy(old_files[path])     # a generator that (at least as the first one) changes nothing
            else:
                config = rnd.choice(news) if r < 0.6 else random_doc(rnd)
            # reload priority / command per generator: all orders (increasing, equal, strictly decreasing) occur
            gens.append(dict(path=path, acl=rnd.choice(acls), acl_safe=rnd.choice(acls), config=config,
                             reload_prio=rnd.choice(RELOAD_PRIOS), reload=rnd.choice(["", "reload A", "reload %d" % gi])))
        c = dict(kind="chain", old_files=old_files, gens=gens, safe=rnd.random() < 0.3)
        if j % nparts == part:
            yield None, c


def run(tier="quick", seed=0, part=0, nparts=1):
    ev = 0
    skipped = 0
    nontrivial = set()
    failures = []
    per_key = {}
    samples = []
    for hh, case in cases(tier, seed, part, nparts):
        verdicts, nt = run_case(case)
        if verdicts is None:
            skipped += 1
            continue
        ev += 1
        if nt:
            nontrivial.add(h(hh) if hh is not None else h(case))
            if part == 0 and len(samples) < 2 and case["kind"] in ("fragment", "chain") and len(samples) == (0 if case["kind"] == "fragment" else 1):
                samples.append(case)
        for key, text, exp, act in verdicts:
            if per_key.get(key, 0) < 3:
                per_key[key] = per_key.get(key, 0) + 1
                failures.append(dict(key=key, text=text, case=case, expected=_j(exp), actual=_j(act)))
    return dict(
        evaluations=ev, nontrivial=sorted(nontrivial), failures=failures, samples=samples,
        rule="one schema {T:{'a|1':{p,'q/r'},'b*':{p,'*'},bc:{p}},'m~n':{p},L:[<=3],s}, scalars {1,'x',null}; %d pointer lists (1..2 of %d glob "
             "patterns, ordered). fragment: every 1/%d-th of (all %d shapes)^2 x all lists + random full-valued docs; patch: "
             "shapes^2 (2 value variants, 1/%d), all arrays^2 x 2 surroundings, random, and all pairs of 64 documents whose object "
             "members T/a|1/p and s range over {1,true,1.0,0,false,'x',null,absent} (JSON-type-strict comparison; arrays "
             "unchanged there) + random typed documents; filter: shapes x lists (1/%d) + random; "
             "chain: random 2..3 generators over 1..2 files, safe/unsafe, reload_prio per generator from {0,50,100,200} (any "
             "order), reload command varied, some generators changing nothing; checked: == sequential application and each "
             "generator's fragment inside its own pointers when later ones are disjoint. Patterns never select array elements (arrays are "
             "values). non-trivial: fragment = something "
             "selected and result differs from both old and fragment; patch = old != new, both non-empty; filter = selected, "
             "proper sub-document; chain = >= 2 generators with >= 2 selections. distinct by enumeration index / content hash"
             % (len(acl_lists()), len(PATTERNS), len(shape_docs("old")), 27011 if tier == "quick" else 1601, 257 if tier == "quick" else 23,
                29 if tier == "quick" else 7),
        bound="objects 3 deep, arrays <= 3, 3 scalars, <= 2 glob patterns, <= 3 chained generators")


def _j(x):
    if isinstance(x, dict):
        return {str(k): _j(v) for k, v in x.items()}
    if isinstance(x, (list, tuple)):
        return [_j(v) for v in x]
    if x is MISSING:
        return "<missing>"
    return x


def replay(case):
    verdicts, _ = run_case(case)
    if verdicts is None:
        return dict(ok=True, expected="(outside the scope: statement unsatisfiable)", actual=None)
    if not verdicts:
        return dict(ok=True, expected=None, actual=None)
    key, text, exp, act = verdicts[0]
    return dict(ok=False, key=key, text=text, expected=_j(exp), actual=_j(act), all_keys=[v[0] for v in verdicts])
