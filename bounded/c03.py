"""C03 bounded layer: the diff is a faithful, lossless description of old versus new.

Real compiled rulebooks (annet.rulebook.patching.compile_patching_text on generated rule texts: literal words, `*`, `*/regex/`, trailing
`~`, nested blocks, %ordered, %rewrite, `!ignore` rules, overlapping rules), real annet.annlib.patching.make_diff /
strip_unchanged / make_pre, real formatter.diff of all 14 registry vendors and real gen_pre_as_diff; enumerated pairs of
small trees (old, new) whose rows instantiate the rules (plus rows no rule knows).

The oracle is written from the property statement and never calls the code under test:
 * which rows a rulebook knows and which logic governs them comes from the structured rule description below (word-wise
   matching: literal word, `*` = one word, trailing `~` = one or more further words, otherwise prefix match on word
   boundary; the first matching rule decides the logic, a matching `!` rule makes the row unknown);
 * (a) dropping ADDED items gives old|R, dropping REMOVED items gives new|R, per level and with nesting (as a sequence for
   rows of %ordered rules, as a set otherwise);  (b) ADDED only if absent from old at that place, REMOVED only if absent
   from new, UNCHANGED only if the two sub-trees are the same;  (c) the self diff strips to [] and has no MOVED item;
   (d) %ordered: relative order of two common rows changed => the later one (in new) is MOVED; the converse has its own key;
 * (e) the signed texts (formatter.diff of every vendor, gen_pre_as_diff as `annet diff` and file-diff call it) are read
   back by small parsers written here and must give the same (sign,row,nesting) entries (per level as a multiset for the
   pre view).
Keys: bounded:C03:<kind>, see KINDS."""
import hashlib
import itertools
import json
import random
import re

from bounded.common import setup_annet

setup_annet()

from collections import OrderedDict as odict  # noqa: E402

from annet.annlib import diff as ann_diff  # noqa: E402
from annet.annlib import patching as ann_patching  # noqa: E402
from annet.rulebook.patching import compile_patching_text  # noqa: E402
from annet.vendors import registry_connector  # noqa: E402

ADDED, REMOVED, AFFECTED, MOVED, UNCHANGED = "added", "removed", "affected", "moved", "unchanged"
SIGN = {ADDED: "+", REMOVED: "-", MOVED: ">", AFFECTED: " "}

VENDORS = ["arista", "aruba", "b4com", "cisco", "h3c", "huawei", "iosxr", "juniper", "nexus", "nokia", "optixtrans", "pc",
           "ribbon", "routeros"]

KINDS = {
    "proj-old": "dropping the added items of the diff does not give old restricted to known rows (rows/nesting)",
    "proj-new": "dropping the removed items of the diff does not give new restricted to known rows (rows/nesting)",
    "proj-old:unchanged-rows-absent": "rows of a %rewrite group that are identical in old and new are missing from the (unstripped) diff, so old is not reconstructible from it",
    "proj-new:unchanged-rows-absent": "rows of a %rewrite group that are identical in old and new are missing from the (unstripped) diff, so new is not reconstructible from it",
    "proj-new-order": "rows of %ordered rules are not in new's order after dropping removed items",
    "proj-old-order": "rows of %ordered rules that are not reported moved are not in old's order after dropping added items",
    "proj-old-order-literal": "rows of %ordered rules (moved ones included) are not in old's order after dropping added items",
    "op-added-but-in-old": "a row is reported added although old has it at that place",
    "op-removed-but-in-new": "a row is reported removed although new has it at that place",
    "unchanged-hides-change": "a row is marked unchanged although its sub-trees differ (strip_unchanged would hide the change)",
    "strip-unchanged": "strip_unchanged does not return exactly the items that are not unchanged, at every depth",
    "self-diff-not-empty": "strip_unchanged(make_diff(x, x)) is not empty",
    "self-diff-moved": "make_diff(x, x) reports a moved row",
    "order-change-not-moved": "%ordered: two common rows swapped their relative order but the later one is not reported moved",
    "moved-without-order-change": "%ordered: a row is reported moved although its order relative to every other common row is unchanged",
    "make-diff-raised": "make_diff raised",
    "pre-as-diff": "gen_pre_as_diff(make_pre(d)) read back differs from d (per level as a multiset)",
    "pre-as-diff-resorted": "gen_pre_as_diff(make_pre(resort_diff(d))) read back differs from d (per level as a multiset)",
}
for _v in VENDORS:
    KINDS["formatter-diff:" + _v] = "formatter.diff(d) of vendor %s read back differs from d (sign, row, nesting)" % _v


# ===== rule description (the oracle's view) and the rule text generated from it
def R(pat, *children, ordered=False, rewrite=False, ignore=False):
    return dict(pat=pat, ordered=ordered, rewrite=rewrite, ignore=ignore, children=list(children))


def rule_text(rules, depth=0):
    lines = []
    for r in rules:
        lines.append("    " * depth + ("!" if r["ignore"] else "") + r["pat"]
                     + (" %ordered" if r["ordered"] else "") + (" %rewrite" if r["rewrite"] else ""))
        lines.extend(rule_text(r["children"], depth + 1))
    return lines


RULEBOOKS = [
    dict(name="default", vendor="huawei",
         rules=[R("a"), R("b *"), R("c ~"), R("blk *", R("x"), R("y *"), R("z ~"))],
         # "a"/"a x" and "y 1"/"y 1 k" share one (rule, key) pair
         rows={(): ["a", "a x", "c 1 2", "blk 1", "unk 9"], ("blk",): ["x", "y 1", "y 1 k", "unk"]}),
    dict(name="ordered-children", vendor="cisco",
         rules=[R("acl *", R("rule ~", ordered=True), R("desc ~")), R("top ~", ordered=True)],
         rows={(): ["acl 1", "acl 2", "top 1", "top 2", "top 3"], ("acl",): ["rule a", "rule b", "rule c", "desc x"]}),
    dict(name="ordered-3-levels", vendor="arista",
         rules=[R("pol *", R("term *", R("then ~"), R("from ~", ordered=True), ordered=True), R("opt *"), ordered=True),
                R("misc ~")],
         rows={(): ["pol 1", "pol 2", "pol 3", "misc 1", "nope"], ("pol",): ["term 1", "term 2", "opt 1", "term 3"],
               ("pol", "term"): ["then a", "from a", "from b", "zz"]}),
    dict(name="rewrite", vendor="routeros",
         rules=[R("rw *", R("item ~"), R("sub *", R("leaf ~")), rewrite=True), R("plain ~")],
         rows={(): ["rw 1", "rw 2", "plain 1", "plain 2", "other"], ("rw",): ["item a", "item b", "sub 1", "junk"],
               ("rw", "sub"): ["leaf a", "leaf b", "leaf c"]}),
    dict(name="overlap-ignore", vendor="pc",
         rules=[R("a 1 *", ordered=True), R("a ~"), R("ign ~", ignore=True), R("b")],
         rows={(): ["a 1 x", "a 1 y", "a 2", "ign 1", "b"]}),
    # a specific block rule before a generic one, with DIFFERENT children rules: a child known only to the first rule, only
    # to the second, to both with different key shapes, and an !ignore rule that comes after a matching normal rule
    dict(name="overlap-blocks", vendor="b4com",
         rules=[R("blk */1\\d*/", R("only1 ~"), R("both *")),
                R("blk *", R("only2 ~"), R("both ~", ordered=True), R("both hid ~", ignore=True)),
                R("x ~"), R("x 9 ~", ignore=True)],
         rows={(): ["blk 1", "blk 2", "blk 10", "x 9 z", "x 1"], ("blk",): ["only1 a", "only2 a", "both k v", "both hid z"]}),
    # the generic (ordered) block rule first, the specific one second
    dict(name="overlap-blocks-rev", vendor="optixtrans",
         rules=[R("sec *", R("gen ~"), R("mix ~"), ordered=True),
                R("sec */a\\w*/", R("spec *"), R("mix * *"), R("gen no ~", ignore=True))],
         rows={(): ["sec a1", "sec b", "sec a2", "zz", "sec c"], ("sec",): ["spec 1", "gen x", "mix p q", "gen no y"]}),
    dict(name="mixed-groups", vendor="nexus",
         rules=[R("o ~", ordered=True), R("u ~"), R("blk", R("o ~", ordered=True), R("u ~"))],
         rows={(): ["o 1", "o 2", "u 1", "u 2", "blk"], ("blk",): ["o 1", "o 2", "u 1", "o 3"]}),
    dict(name="ordered-parent", vendor="iosxr",
         rules=[R("seq *", R("p ~"), R("q *", R("r ~")), ordered=True)],
         rows={(): ["seq 1", "seq 2", "seq 3", "x", "seq 4"], ("seq",): ["p a", "p b", "q 1"],
               ("seq", "q"): ["r a", "r b", "r c"]}),
]
RB_BY_NAME = {rb["name"]: rb for rb in RULEBOOKS}
_compiled = {}


def compiled(rb):
    if rb["name"] not in _compiled:
        text = "\n".join(rule_text(rb["rules"])) + "\n"
        _compiled[rb["name"]] = {"patching": compile_patching_text(text, rb["vendor"]), "ordering": None}
    return _compiled[rb["name"]]


# ===== oracle: rule matching and restriction
def pattern_matches(pat, row):
    pt = pat.split()
    words = row.split(" ")
    if pt[-1] == "~":
        head = pt[:-1]
        if len(words) <= len(head):
            return False
    else:
        head = pt
        if len(words) < len(head):
            return False
    return all(_word_matches(p, w) for p, w in zip(head, words))


def _word_matches(p, w):
    if p == "*":
        return True
    if p.startswith("*/") and p.endswith("/") and len(p) > 3:      # */regex/ : one word of that shape
        return re.fullmatch(p[2:-1], w) is not None
    return p == w


def govern(rules, row):
    """-> (logic, children rules) or None when no rule knows the row: the first matching rule decides the logic, the children
    rules are the union of the children rules of ALL matching rules (in rule order), a matching `!` rule anywhere makes the
    row unknown"""
    ms = [r for r in rules if pattern_matches(r["pat"], row)]
    if not ms or any(r["ignore"] for r in ms):
        return None
    first = ms[0]
    logic = "ordered" if first["ordered"] else ("rewrite" if first["rewrite"] else "default")
    return logic, [c for r in ms for c in r["children"]]


def restrict(lst, rules):
    """list tree [[row, children], ...] -> [(row, logic, restricted children)] of the known rows"""
    out = []
    for row, ch in lst:
        g = govern(rules, row)
        if g is not None:
            out.append((row, g[0], restrict(ch, g[1])))
    return out


def canon(level):
    """restricted level -> comparable value: sequence for ordered rows, set for the others"""
    return (tuple((row, canon(ch)) for row, logic, ch in level if logic == "ordered"),
            frozenset((row, canon(ch)) for row, logic, ch in level if logic != "ordered"))


# ===== trees
def to_tree(lst):
    return odict((row, to_tree(ch)) for row, ch in lst)


def simple(d):
    """diff -> [[op, row, children]] (json-able)"""
    return [[op, row, simple(ch)] for (op, row, ch, _m) in d]


def ref_strip(sd):
    return [[op, row, ref_strip(ch)] for op, row, ch in sd if op != UNCHANGED]


def entries(sd):
    return [[SIGN[op], row, entries(ch)] for op, row, ch in sd]


def multiset(e):
    return sorted(([s, r, multiset(c)] for s, r, c in e), key=lambda x: json.dumps(x))


# ===== (a) (b) (d): structural checks of one diff level, recursive
def check_level(sd, old_r, new_r, path, out):
    old_map = {row: (logic, ch) for row, logic, ch in old_r}
    new_map = {row: (logic, ch) for row, logic, ch in new_r}
    rows_old = [row for row, _, _ in old_r]
    rows_new = [row for row, _, _ in new_r]
    po = [row for op, row, _ in sd if op != ADDED]
    pn = [row for op, row, _ in sd if op != REMOVED]
    here = dict(path=list(path), old_level=rows_old, new_level=rows_new, diff_level=[[op, row] for op, row, _ in sd])

    def same_subtree(row):
        return row in old_map and row in new_map and canon([(row,) + old_map[row]]) == canon([(row,) + new_map[row]])

    for side, proj, rows in (("old", po, rows_old), ("new", pn, rows_new)):
        if sorted(proj) != sorted(rows):
            missing = [r for r in rows if r not in proj]
            extra = [r for r in proj if r not in rows]
            dup = len(set(proj)) != len(proj)
            # the separate class is only the %rewrite case: whole rows of an unchanged %rewrite group are left out of the diff.
            # Rows missing BELOW a reported block (e.g. an unchanged block returned without its body) are a plain proj-* failure.
            m = old_map if side == "old" else new_map
            cls = ":unchanged-rows-absent" if (missing and not extra and not dup and all(
                same_subtree(r) and m[r][0] == "rewrite" for r in missing)) else ""
            out.append(("proj-%s%s" % (side, cls), dict(here, expected_rows=rows), dict(projected_rows=proj)))

    def is_ord(m, row):
        return row in m and m[row][0] == "ordered"
    # order of %ordered rows
    if sorted(pn) == sorted(rows_new):
        want = [r for r in rows_new if is_ord(new_map, r)]
        got = [r for r in pn if is_ord(new_map, r)]
        if want != got:
            out.append(("proj-new-order", dict(here, expected_order=want), dict(projected_order=got)))
    if sorted(po) == sorted(rows_old):
        want = [r for r in rows_old if is_ord(old_map, r)]
        got = [r for r in po if is_ord(old_map, r)]
        if want != got:
            out.append(("proj-old-order-literal", dict(here, expected_order=want), dict(projected_order=got)))
        still = [row for op, row, _ in sd if op in (REMOVED, AFFECTED, UNCHANGED) and is_ord(old_map, row)]
        want = [r for r in rows_old if r in still]
        if want != still:
            out.append(("proj-old-order", dict(here, expected_order=want), dict(projected_order=still)))
    # exact ops
    for op, row, _ in sd:
        if op == ADDED and row in old_map:
            out.append(("op-added-but-in-old", dict(here, row=row), dict(op=op)))
        if op == REMOVED and row in new_map:
            out.append(("op-removed-but-in-new", dict(here, row=row), dict(op=op)))
        if op == UNCHANGED and not same_subtree(row):
            out.append(("unchanged-hides-change", dict(here, row=row, old_sub=_j(old_map.get(row)), new_sub=_j(new_map.get(row))),
                        dict(op=op)))
    # %ordered: relative order
    common = [r for r in rows_new if is_ord(new_map, r) and is_ord(old_map, r)]
    opos = {r: rows_old.index(r) for r in common}
    npos = {r: rows_new.index(r) for r in common}
    ops = {}
    for op, row, _ in sd:
        if op != REMOVED:
            ops.setdefault(row, op)
    for r1, r2 in itertools.permutations(common, 2):
        if opos[r1] < opos[r2] and npos[r1] > npos[r2] and ops.get(r1) != MOVED:
            out.append(("order-change-not-moved", dict(here, rows=[r1, r2], later_in_new=r1, expected_op=MOVED), dict(op=ops.get(r1))))
    for r in common:
        if ops.get(r) == MOVED and all((opos[r] < opos[x]) == (npos[r] < npos[x]) for x in common if x != r):
            out.append(("moved-without-order-change", dict(here, row=r, expected_op="not moved"), dict(op=MOVED)))
    # nesting
    for op, row, ch in sd:
        check_level(ch, old_map.get(row, ("", []))[1], new_map.get(row, ("", []))[1], path + (row,), out)


def _j(x):
    if isinstance(x, (tuple, list)):
        return [_j(i) for i in x]
    return x


def _ops(sd):
    for op, _row, ch in sd:
        yield op
        yield from _ops(ch)


# ===== (e) signed text parsers
BRACES = {"juniper": ";", "ribbon": ";", "nokia": ""}


def parse_formatter_diff(lines, vendor):
    """`<sign> <indentation><row>`; brace vendors: `row {` ... `}` and `row;`; indentation vendors: nesting by the offside
    rule, a row that opens a block carries the vendor's block marker (formatter._block_begin: "/" for RouterOS, nothing for
    the others), which is not part of the row"""
    root = []
    if vendor in BRACES:
        end = BRACES[vendor]
        stack = [(None, root)]
        for line in lines:
            if len(line) < 3 or line[1] != " ":
                raise ValueError("bad line %r" % line)
            sign, body = line[0], line[2:].strip(" ")
            if body == "}":
                opener, _ = stack.pop()
                if opener is None or opener != sign:
                    raise ValueError("block closed with sign %r, opened with %r" % (sign, opener))
            elif body.endswith(" {"):
                node = [sign, body[:-2], []]
                stack[-1][1].append(node)
                stack.append((sign, node[2]))
            else:
                if end and not body.endswith(end):
                    raise ValueError("statement without %r: %r" % (end, line))
                stack[-1][1].append([sign, body[:len(body) - len(end)] if end else body, []])
        if len(stack) != 1:
            raise ValueError("unclosed block")
        return root
    stack = [(-1, root)]
    for line in lines:
        if len(line) < 3 or line[1] != " ":
            raise ValueError("bad line %r" % line)
        sign, body = line[0], line[2:]
        ind = len(body) - len(body.lstrip(" "))
        while stack[-1][0] >= ind:
            stack.pop()
        node = [sign, body[ind:], []]
        stack[-1][1].append(node)
        stack.append((ind, node[2]))
    marker = formatter(vendor)._block_begin  # pylint: disable=protected-access

    def unmark(nodes):
        for node in nodes:
            if node[2] and marker:
                if not node[1].endswith(marker):
                    raise ValueError("block row without the block marker %r: %r" % (marker, node[1]))
                node[1] = node[1][:-len(marker)]
            unmark(node[2])
    unmark(root)
    return root


def parse_pre_diff(lines, indent="  "):
    """`<sign><indent * level> <row>\\n`"""
    root = []
    levels = [root]
    for line in lines:
        if not line.endswith("\n") or "\n" in line[:-1]:
            raise ValueError("bad line %r" % line)
        sign, rest = line[0], line[1:-1]
        n = len(rest) - len(rest.lstrip(" "))
        if n < 1 or (n - 1) % len(indent):
            raise ValueError("bad indentation %r" % line)
        level = (n - 1) // len(indent)
        if level >= len(levels):
            raise ValueError("level jump %r" % line)
        node = [sign, rest[n:], []]
        levels[level].append(node)
        del levels[level + 1:]
        levels.append(node[2])
    return root


_fmt = {}


def formatter(vendor):
    if vendor not in _fmt:
        _fmt[vendor] = registry_connector.get()[vendor].make_formatter()
    return _fmt[vendor]


def check_renderings(stripped, want, out):
    """stripped: real diff (with match dicts) as handed to the renderers; want: the entries it has to show"""
    for vendor in VENDORS:
        try:
            lines = formatter(vendor).diff(stripped)
            got = parse_formatter_diff(lines, vendor)
        except Exception as e:  # pylint: disable=broad-except
            lines, got = None, "%s: %s" % (type(e).__name__, e)
        if got != want:
            out.append(("formatter-diff:" + vendor, dict(entries=want), dict(lines=lines, entries=got)))
    wantm = multiset(want)
    for kind, prep in (("pre-as-diff", lambda d: d), ("pre-as-diff-resorted", ann_diff.resort_diff)):
        try:
            lines = list(ann_diff.gen_pre_as_diff(ann_patching.make_pre(prep(stripped)), False, "  ", True))
            got = multiset(parse_pre_diff(lines))
        except Exception as e:  # pylint: disable=broad-except
            lines, got = None, "%s: %s" % (type(e).__name__, e)
        if got != wantm:
            out.append((kind, dict(entries=wantm), dict(lines=lines, entries=got)))


# ===== one case
def check_pair(rbname, old, new):
    """-> (list of (kind, expected, actual), stripped simple diff)"""
    rb = RB_BY_NAME[rbname]
    out = []
    try:
        d = ann_patching.make_diff(to_tree(old), to_tree(new), compiled(rb), [])
    except Exception as e:  # pylint: disable=broad-except
        return [("make-diff-raised", "a diff", "%s: %s" % (type(e).__name__, e))], []
    sd = simple(d)
    old_r, new_r = restrict(old, rb["rules"]), restrict(new, rb["rules"])
    check_level(sd, old_r, new_r, (), out)
    stripped = ann_patching.strip_unchanged(d)
    ss = simple(stripped)
    if ss != ref_strip(sd):
        out.append(("strip-unchanged", dict(diff=sd, stripped=ref_strip(sd)), dict(stripped=ss)))
    if old == new:
        if ss:
            out.append(("self-diff-not-empty", [], ss))
        if MOVED in set(_ops(sd)):
            out.append(("self-diff-moved", "no moved item", sd))
    check_renderings(stripped, entries(ref_strip(sd)), out)
    return out, ss


def _synthetic_diff(shape, ops):
    """shape: forest of forests; ops: list of ops in preorder -> diff with fabricated match dicts"""
    counter = [0]

    def walk(forest):
        res = []
        for j, ch in enumerate(forest):
            i = counter[0]
            counter[0] += 1
            row = "r%d v%d" % (j, i)
            match = {"raw_rule": "r%d ~" % (j % 2), "key": ("k%d" % (i % 2),),      # several rows per (rule, key)
                     "attrs": {"multiline": False, "context": {}, "comment": [], "logic": None}}
            res.append((ops[i], row, walk(ch), match))
        return res
    return walk(shape)


def check_synthetic(shape, ops):
    out = []
    d = _synthetic_diff(shape, ops)
    check_renderings(d, entries(simple(d)), out)
    return out, simple(d)


# ===== enumeration
def seqs(cands, k):
    for n in range(k + 1):
        yield from (list(p) for p in itertools.permutations(cands, n))


def _first(row):
    return row.split(" ")[0]


def _fixed_children(rb, path, variant):
    """two small child lists (old, new) for a block row that is not in focus"""
    c = rb["rows"].get(path)
    if not c:
        return [], []
    return [([], []), ([c[0]], [c[0]]), ([c[0], c[1]], [c[1]]), ([c[0]], [c[0], c[2]])][variant % 4]


def _leafs(rows):
    return [[r, []] for r in rows]


def pairs(rb, tier, seed):
    """yield (old, new) list trees"""
    top = rb["rows"][()]
    # phase A: every pair of top level sequences (<= 3 rows of 5), small fixed children
    n = 0
    for so in seqs(top, 3):
        for sn in seqs(top, 3):
            n += 1
            old, new = [], []
            for rows, side, acc in ((so, 0, old), (sn, 1, new)):
                for r in rows:
                    acc.append([r, _leafs(_fixed_children(rb, (_first(r),), n)[side])])
            yield old, new
    # phase B: one block row in focus with every pair of child sequences, under every top level situation
    blocks = [r for r in top if (_first(r),) in rb["rows"]]
    if blocks:
        focus = blocks[0]
        others = [r for r in top if r != focus]
        second = next((r for r in others if (_first(r),) in rb["rows"]), others[0])
        leaf = next((r for r in others if (_first(r),) not in rb["rows"] and r != second), others[-1])
        reduced = [focus, second, leaf]
        cc = rb["rows"][(_first(focus),)]
        child_seqs = list(seqs(cc if tier != "quick" else cc[:3], 3))
        n = 0
        for so in seqs(reduced, 2):
            for sn in seqs(reduced, 2):
                co_list = child_seqs if focus in so else [None]
                cn_list = child_seqs if focus in sn else [None]
                for co in co_list:
                    for cn in cn_list:
                        n += 1
                        old, new = [], []
                        for rows, side, acc, fc in ((so, 0, old, co), (sn, 1, new, cn)):
                            for r in rows:
                                if r == focus:
                                    acc.append([r, _leafs(fc)])
                                else:
                                    acc.append([r, _leafs(_fixed_children(rb, (_first(r),), n)[side])])
                        yield old, new
        # phase C (thorough): depth 3, a second level block in focus with every pair of grandchild sequences
        if tier != "quick":
            sub = next((r for r in cc if (_first(focus), _first(r)) in rb["rows"]), None)
            if sub is not None:
                gc = rb["rows"][(_first(focus), _first(sub))]
                sib = next(r for r in cc if r != sub)
                g_seqs = list(seqs(gc, 3))
                for top_o, top_n in (([focus], [focus]), ([focus, others[0]], [others[0], focus]), ([others[0], focus], [focus])):
                    for mid_o, mid_n in (([sub], [sub]), ([sib, sub], [sub, sib]), ([sub], [sib, sub])):
                        for go in g_seqs:
                            for gn in g_seqs:
                                def build(tops, mids, g):
                                    return [[t, [[m, _leafs(g) if m == sub else []] for m in mids] if t == focus else []] for t in tops]
                                yield build(top_o, mid_o, go), build(top_n, mid_n, gn)
    # seeded random pairs over the whole universe of the rulebook
    rnd = random.Random(seed * 1000003 + len(rb["name"]) * 17 + 3)
    maxdepth = 2 if tier == "quick" else 3

    def rtree(path, depth):
        c = rb["rows"].get(path)
        if not c or depth > maxdepth:
            return []
        rows = rnd.sample(c, rnd.randint(0, min(3, len(c))))
        return [[r, rtree(path + (_first(r),), depth + 1)] for r in rows]

    def mutate(lst, path, depth):
        c = rb["rows"].get(path) or []
        res = [[r, mutate(ch, path + (_first(r),), depth + 1) if rnd.random() < 0.7 else [list(x) for x in ch]] for r, ch in lst
               if rnd.random() > 0.25]
        if rnd.random() < 0.5:
            rnd.shuffle(res)
        for r in c:
            if len(res) < 3 and rnd.random() < 0.3 and all(r != x[0] for x in res) and depth <= maxdepth:
                res.insert(rnd.randint(0, len(res)), [r, rtree(path + (_first(r),), depth + 1)])
        return res
    for k in range(500 if tier == "quick" else 8000):
        old = rtree((), 1)
        if k % 5 == 0:
            new = json.loads(json.dumps(old))
        elif k % 5 == 1:
            new = rtree((), 1)
        else:
            new = mutate(old, (), 1)
        yield old, new


def synthetic(tier):
    from bounded.c04 import forests
    for shape, size in forests(3, 4 if tier == "quick" else 5, 3):
        if size == 0:
            continue
        for ops in itertools.product((ADDED, REMOVED, MOVED, AFFECTED), repeat=size):
            yield shape, list(ops)


def run(tier="quick", seed=0, part=0, nparts=1):
    ev = 0
    nontrivial = set()
    failures = []
    per_key = {}
    samples = []

    def record(kind, case, exp, got):
        key = "bounded:C03:" + kind
        per_key[key] = per_key.get(key, 0) + 1
        if per_key[key] <= 3:
            failures.append(dict(key=key, text=KINDS[kind], case=dict(case, check=kind), expected=exp, actual=got))
    i = 0
    for rb in RULEBOOKS:
        for old, new in pairs(rb, tier, seed):
            i += 1
            if i % nparts != part:
                continue
            ev += 1
            res, ss = check_pair(rb["name"], old, new)
            if len(ss) >= 2 or any(ch for _, _, ch in ss):
                nontrivial.add(hashlib.md5(json.dumps([rb["name"], old, new]).encode()).hexdigest()[:12])
            if part == 0 and len(samples) < 2 and len(ss) >= 2 and any(ch for _, _, ch in ss) and i > 3000:
                samples.append(dict(rb=rb["name"], rules=rule_text(rb["rules"]), old=old, new=new, stripped_diff=ss))
            for kind, exp, got in res:
                record(kind, dict(rb=rb["name"], old=old, new=new), exp, got)
    for shape, ops in synthetic(tier):
        i += 1
        if i % nparts != part:
            continue
        ev += 1
        res, sd = check_synthetic(shape, ops)
        if len(set(ops)) >= 2:
            nontrivial.add(hashlib.md5(json.dumps(["synthetic", sd]).encode()).hexdigest()[:12])
        for kind, exp, got in res:
            record(kind, dict(synthetic=dict(shape=shape, ops=ops)), exp, got)
    return dict(evaluations=ev, nontrivial=sorted(nontrivial), failures=failures, samples=samples,
                rule="9 real compiled rulebooks (default; %%ordered children; %%ordered on 3 levels; %%rewrite; overlapping rules + "
                     "!ignore; two with overlapping block rules (*/regex/ before/after *) whose children rule sets differ and an "
                     "!ignore after a matching normal rule; ordered and unordered rules on one level; ordered parent with default children), rows = 5 candidates "
                     "per level incl. one no rule knows. Per rulebook: (A) every pair of top level sequences of <= 3 rows with small "
                     "fixed children, (B) one block in focus: every pair of child sequences (<= 3 of %s candidates) under every top "
                     "level situation of <= 2 rows%s, plus %d seeded random/mutated pairs (depth <= %d). Plus every synthetic diff "
                     "of <= %d nodes (depth <= 3, <= 3 siblings) x all 4 signs for the two text renderings (14 formatters, 2 pre views). "
                     "non-trivial = stripped diff has >= 2 items or nesting (synthetic: >= 2 different signs); distinct by (rulebook, old, new)"
                     % ("3" if tier == "quick" else "4", "" if tier == "quick" else ", (C) depth 3: every pair of grandchild sequences "
                        "under 9 parent situations", 500 if tier == "quick" else 8000, 2 if tier == "quick" else 3,
                        4 if tier == "quick" else 5),
                bound="<=3 rows/level, depth<=%d, 5 candidate rows/level, 9 rulebooks; synthetic diffs <=%d nodes"
                      % (2 if tier == "quick" else 3, 4 if tier == "quick" else 5))


def replay(case):
    kind = case["check"]
    if "synthetic" in case:
        res, shown = check_synthetic(_tup(case["synthetic"]["shape"]), case["synthetic"]["ops"])
    else:
        res, shown = check_pair(case["rb"], case["old"], case["new"])
    bad = [r for r in res if r[0] == kind]
    if bad:
        return dict(ok=False, expected=bad[0][1], actual=bad[0][2])
    return dict(ok=True, expected="no violation of kind %s" % kind, actual=dict(stripped_diff=shown))


def _tup(x):
    return tuple(_tup(i) for i in x)
